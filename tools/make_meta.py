#!/venv/bin/python
"""Writes seeded/<case>/meta.json from notes.txt + confirm.json (tools/confirm_seed.sh) + a detection run.

status:  confirmed  = patch applies to HEAD, the pinned suite passes with it, the demonstration fails with it and passes without
         neutral    = same, but the demonstration passes with the patch too (the change no longer breaks the property on
                      the current tree, e.g. because a fix: commit removed the pre-condition): the check must stay silent
         unconfirmed = anything else (not replayed by the thorough tier), with the reason
"""
import json
import os
import re
import shutil
import subprocess
import sys
import tempfile

VERIF = os.path.dirname(os.path.dirname(os.path.abspath(__file__)))


def needs_paragraph(notes: str) -> str:
    lines = notes.splitlines()
    for i, ln in enumerate(lines):
        if re.search(r"manifest", ln, re.I):
            out = [ln.strip()]
            for nx in lines[i + 1:]:
                if not nx.strip() and len(" ".join(out)) > 80:
                    break
                if re.match(r"^(Demo|Commands|Demonstration|Results|Files)\b", nx.strip()):
                    break
                out.append(nx.strip())
            return re.sub(r"\s+", " ", " ".join(out)).strip()[:900]
    return ""


def title(notes: str) -> str:
    first = next((ln for ln in notes.splitlines() if ln.strip()), "")
    return re.sub(r"\s+", " ", first).strip(" =-")[:200]


def detect(prop: str, seed_dir: str):
    scratch = tempfile.mkdtemp(prefix="verif-meta-")
    try:
        pkg = os.path.join(scratch, "src", "aiortc")
        shutil.copytree("/repo/src/aiortc", pkg, ignore=shutil.ignore_patterns("__pycache__", "*.so", "*.pyc"))
        r = subprocess.run(["git", "apply", "--include=src/aiortc/*", os.path.join(seed_dir, "patch.diff")], cwd=scratch, capture_output=True, text=True)
        if r.returncode != 0:
            return None, [], "patch does not apply"
        env = dict(os.environ, VERIF_EVIDENCE_DIR=os.path.join(scratch, "ev"))
        c = subprocess.run([sys.executable, os.path.join(VERIF, "check.py"), prop, "--tier", "quick", "--src", pkg], cwd=VERIF, env=env, capture_output=True, text=True)
        fired = sorted({ln.split("]")[0].split("[")[1] for ln in c.stdout.splitlines() if ln.startswith("FINDING [")})
        return c.returncode, fired, ""
    finally:
        shutil.rmtree(scratch, ignore_errors=True)


def main() -> None:
    dirs = sys.argv[1:] or sorted(os.path.join(VERIF, "seeded", d) for d in os.listdir(os.path.join(VERIF, "seeded")))
    for d in dirs:
        d = os.path.abspath(d.rstrip("/"))
        name = os.path.basename(d)
        prop = name.split("_")[0]
        cf = os.path.join(d, "confirm.json")
        if not os.path.exists(cf):
            print(name, "no confirm.json yet")
            continue
        with open(cf) as fh:
            conf = json.load(fh)
        notes = open(os.path.join(d, "notes.txt"), encoding="utf8", errors="replace").read() if os.path.exists(os.path.join(d, "notes.txt")) else ""
        suite_ok = conf["suite_exit_with_patch"] == 0
        if conf["patch_applies"] and suite_ok and conf["demo_exit_with_patch"] != 0 and conf["demo_exit_without_patch"] == 0:
            status, expect, why = "confirmed", "violation", ""
        elif conf["patch_applies"] and suite_ok and conf["demo_exit_with_patch"] == 0 and conf["demo_exit_without_patch"] == 0:
            status, expect, why = "neutral", "silent", "the demonstration passes with the patch on the current tree: the change no longer breaks the property"
        else:
            status, expect = "unconfirmed", "violation"
            why = "; ".join(x for x in (
                "" if conf["patch_applies"] else "patch does not apply to HEAD",
                "" if suite_ok or not conf["patch_applies"] else f"suite exit {conf['suite_exit_with_patch']} ({conf['suite_summary']})",
                "" if conf["demo_exit_without_patch"] == 0 else f"demonstration exits {conf['demo_exit_without_patch']} on the unmodified tree") if x)
        rc, fired, derr = detect(prop, d)
        old = {}
        mp = os.path.join(d, "meta.json")
        if os.path.exists(mp):
            with open(mp) as fh:
                old = json.load(fh)
        meta = {
            "case": name,
            "property": prop,
            "title": title(notes),
            "origin": old.get("origin", "fresh sub-agent given only the property text and a scratch worktree"),
            "needs_to_manifest": needs_paragraph(notes),
            "status": status,
            "expect": expect,
            "status_reason": why,
            "confirmed_on_repo_head": conf["repo_head"],
            "what_was_run": {
                "suite": f"PYTHONPATH=<worktree>/src /venv/bin/python -m pytest -q -p no:cacheprovider --timeout=900  -> exit {conf['suite_exit_with_patch']} ({conf['suite_summary']})",
                "demonstration_with_patch_exit": conf["demo_exit_with_patch"],
                "demonstration_without_patch_exit": conf["demo_exit_without_patch"],
            },
            "check_exit_on_patched_copy": rc,
            "detected_by": fired,
            "detection_note": derr,
        }
        if old.get("note"):
            meta["note"] = old["note"]
        with open(mp, "w") as fh:
            json.dump(meta, fh, indent=1)
        flag = "OK " if (rc == (1 if expect == "violation" else 0)) else "!! "
        print(f"{flag}{name}: {status} expect={expect} check_exit={rc} fired={fired} {why}")


if __name__ == "__main__":
    main()
