#!/venv/bin/python
"""usage: tools/check_patch.py <patch.diff> [PROP ...]
Applies the patch to a scratch copy of /repo/src/aiortc (never to /repo), runs the quick checks (all 19 by default) on the copy in
parallel with their evidence redirected into the scratch directory, prints one line per check that does not exit 0, removes the copy."""
import os
import shutil
import subprocess
import sys
import tempfile
from concurrent.futures import ThreadPoolExecutor

VERIF = os.path.dirname(os.path.dirname(os.path.abspath(__file__)))


def main() -> int:
    patch = os.path.abspath(sys.argv[1])
    props = [p.upper() for p in sys.argv[2:]] or [f"C{i:02d}" for i in range(1, 20)]
    scratch = tempfile.mkdtemp(prefix="verif-patch-")
    try:
        pkg = os.path.join(scratch, "src", "aiortc")
        shutil.copytree("/repo/src/aiortc", pkg, ignore=shutil.ignore_patterns("__pycache__", "*.so", "*.pyc"))
        r = subprocess.run(["git", "apply", "--include=src/aiortc/*", patch], cwd=scratch, capture_output=True, text=True)
        if r.returncode != 0:
            print("APPLY-FAILED", r.stderr.strip().splitlines()[:2])
            return 3
        r = subprocess.run([sys.executable, "-m", "compileall", "-q", pkg], capture_output=True, text=True)
        if r.returncode != 0:
            print("DOES-NOT-COMPILE", r.stdout[-300:])
            return 3

        def one(p):
            env = dict(os.environ, VERIF_EVIDENCE_DIR=os.path.join(scratch, "ev-" + p), VERIF_JOBS=os.environ.get("VERIF_JOBS", "1"))
            c = subprocess.run([sys.executable, os.path.join(VERIF, "check.py"), p, "--tier", "quick", "--src", pkg], cwd=VERIF, env=env, capture_output=True, text=True)
            return p, c.returncode, c.stdout
        bad = 0
        with ThreadPoolExecutor(max_workers=int(os.environ.get("VERIF_PAR", "16"))) as ex:
            for p, rc, out in ex.map(one, props):
                if rc != 0:
                    bad += 1
                    lines = [ln for ln in out.splitlines() if ln.startswith(("FINDING", "ANALYSIS-ERROR"))]
                    print(f"{p} exit={rc}: " + (lines[0][:330] if lines else out.strip().splitlines()[-1][:330]))
                    for ln in lines[1:3]:
                        print("      " + ln[:330])
        print(f"{os.path.basename(os.path.dirname(patch))}/{os.path.basename(patch)}: {len(props) - bad}/{len(props)} checks exit 0")
        return 1 if bad else 0
    finally:
        shutil.rmtree(scratch, ignore_errors=True)


if __name__ == "__main__":
    sys.exit(main())
