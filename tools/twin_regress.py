#!/venv/bin/python
"""Regression of the behaviour-preserving twins: every twin must leave every check silent.

For each twin the checks of all properties whose anchor files (properties.jsonl) include a file the twin touches are run (plus any given with --always); with --all every check
is run.  At most --jobs check processes run at a time (this sandbox punishes many concurrent memory-churning processes).
usage: tools/twin_regress.py [--all] [--jobs N] [twin dirs...]
"""
import glob
import json
import os
import re
import subprocess
import sys
from concurrent.futures import ThreadPoolExecutor

VERIF = os.path.dirname(os.path.dirname(os.path.abspath(__file__)))


def main() -> int:
    args = sys.argv[1:]
    run_all = "--all" in args
    jobs = int(args[args.index("--jobs") + 1]) if "--jobs" in args else 6
    dirs = [a for a in args if not a.startswith("--") and not a.isdigit()] or sorted(glob.glob(os.path.join(VERIF, "twins", "*")))
    anchors = {}
    for line in open(os.path.join(VERIF, "properties.jsonl")):
        d = json.loads(line)
        anchors[d["id"]] = set(d["anchors"]["files"])
    work = []
    for d in dirs:
        patch = os.path.join(d, "patch.diff")
        touched = set(re.findall(r"^\+\+\+ b/(\S+)", open(patch).read(), re.M))
        props = sorted(anchors) if run_all else sorted(p for p, files in anchors.items() if files & touched)
        work.append((patch, props))

    def one(item):
        patch, props = item
        if not props:
            return patch, "no check anchored in the touched files"
        env = dict(os.environ, VERIF_JOBS="1", VERIF_PAR="3")
        c = subprocess.run([sys.executable, os.path.join(VERIF, "tools", "check_patch.py"), patch] + props, cwd=VERIF, env=env, capture_output=True, text=True)
        last = c.stdout.strip().splitlines()[-1] if c.stdout.strip() else c.stderr[-200:]
        bad = [ln for ln in c.stdout.splitlines() if "exit=" in ln]
        return patch, last + (" | " + " ; ".join(b[:160] for b in bad) if bad else "")
    failures = 0
    with ThreadPoolExecutor(max_workers=max(1, jobs // 3)) as ex:
        for patch, res in ex.map(one, work):
            m = re.search(r"(\d+)/(\d+) checks exit 0", res)
            ok = bool(m and m.group(1) == m.group(2))
            failures += 0 if ok else 1
            print(("ok   " if ok else "ALARM"), os.path.relpath(patch, VERIF), res[:400], flush=True)
    print(f"{len(work)} twins, {failures} with a check that is not silent")
    return 1 if failures else 0


if __name__ == "__main__":
    sys.exit(main())
