#!/venv/bin/python
"""Regenerates /verif/MANIFEST.json from the tables below (one place to edit)."""
import json
import os

HERE = os.path.dirname(os.path.dirname(os.path.abspath(__file__)))

TRUST = ("Trusted: CPython ast for 3.12, the engine's struct-format / exception-hierarchy tables, and the frozen instance and "
         "exemption tables in rules/ (each entry names a symbol and a reason and is re-validated on every run; a vanished anchor "
         "is exit 2, never a pass). Oracles hard-coded in the rule (RFC tables, decision tables) are part of the trusted base.")

CHECKS = {
    "C05": dict(
        technique="static exception-escape, loop-progress and loop-cost analysis (abstract interpretation over the ast: linear facts, intervals, taint, class invariants)",
        text="Decides, for every path and every input, three structural necessary conditions of C05 on the receive path: (EXC) no exception "
             "other than ValueError escapes a wire parser and nothing but ConnectionError/CancelledError escapes a receive root; (PROG) every "
             "cursor-driven parsing loop strictly advances (serial cursors only by modular steps); (COST) wire-controlled loop nests are tied to the datagram length or to local state; "
             "(TIMER) timer starters are preceded by cancel/guard on every path; (SIGN) counters decreased by received lengths are clamped before serialisation; (PREMISE) the rules the "
             "exemption table cites (C01-DUP, C07-LEN, C10-BOUND) hold; (NONE) Optional fields used in arithmetic are guarded (directly, by idiom, or through a paired sibling field); "
             "(SERIAL) no raw arithmetic / comparison on wrapping counters on the receive path; (DECODE) every decoder of the registry handles av.FFmpegError and frames without data never reach a decoder; "
             "(SACK) a SACK acknowledging TSNs never assigned is ignored; (STATE) handshake chunks arriving in the wrong state change nothing; (SACKSIZE) the SACK built for thousands of isolated "
             "out-of-order TSNs fits into one packet. "
             "It does not decide memory growth over histories, native-library behaviour or wall-clock time.",
        ref="DESIGN.md section 3 C05 and section 9"),
    "C12": dict(
        technique="table symmetry (set comparison of may-store vs scrubbed tables), def-use provenance, finite-domain evaluation of the routing guards",
        text="Decides four structural clauses of the router: every table that can hold a receiver/sender is scrubbed by unregister with an "
             "all-keys removal; route_rtp/route_rtcp hand out only table contents; route_rtp's decision equals the specified table over an "
             "enumerated abstract domain of table states; route_rtcp consults exactly the SSRC-bearing fields of each RTCP packet type (unknown SSRCs first / in between do not hide "
             "registered ones); a routing decision is consumed by the very next delivery; the router class evaluated on enumerated register/unregister/route "
             "sequences agrees with a reference model (overlapping payload-type sets, latching, take-over); the transport registers a receiver with the SSRCs of its encodings and the payload types of all its codecs. With "
             "these, 'nothing is routed to an unregistered object' follows for every history; behaviour not determined by the tables is not decided.",
        ref="DESIGN.md section 3 C12"),
    "C14": dict(
        technique="finite-domain evaluation of state guards against the JSEP table; bounded enumeration of call sequences through the interpreted negotiation methods against that table; must-event (dominance) analysis for validate-before-mutate; call-graph may-write sets",
        text="Decides the guard table (24 cells + createAnswer + closed latch), the next-state literals, that every write to signalingState and "
             "the four description slots is dominated by __validate_description (and nothing called earlier may write them), that the m-line "
             "match is order-sensitive, that close() latches and sets signalingState to closed before suspending, the description-slot updates per type, and that the per-section structural checks reject "
             "defective audio / video / application sections alike whatever the connection has been through before (history domain over the fields the check reads), that the "
             "RTCSessionDescription constructor accepts exactly the four SDP types, and which of createOffer / createAnswer the implicit setLocalDescription() calls in each state; in addition every call sequence up to length 3 (quick) / 4 (thorough) over 15 actions of the property's alphabet "
             "is driven through the real methods (interpreted at the AST level, stand-in transports, descriptions of the peer manufactured by helper connections) and compared with the JSEP table, refused calls leaving state and slots identical (C14-SIM). These determine the state machine for all call sequences "
             "over the property's alphabet; pranswer/rollback and side effects outside the five slots are not decided.",
        ref="DESIGN.md section 3 C14"),
}

CHECKS["C19"] = dict(
    technique="must-event analysis on normal and exceptional exits (event set on every exit, wait/cancel/wait order), call-graph reachability of handle releases, resolved receiver types for close() coverage",
    text="Decides the structural core of 'nothing left running': every awaited asyncio.Event is set on every exit of its setter (task bodies: "
         "also when any await raises), stop() orders wait-started / cancel / wait-exited, every stored task, timer or thread handle has a "
         "cancel/join/await reachable from its owner's stop(), close() stops an object of every stoppable class and finishes its state update; close() evaluated on bundling layouts stops every transceiver, the SCTP transport and every "
         "DTLS / ICE transport reachable from them; pyOpenSSL calls on the DTLS stop() path are inside a handler for SSL.Error; `closed` is final for the ICE transport and a connect() completing after stop() is undone; "
         "RTCSctpTransport.stop() always runs the CLOSED transition; public methods that create objects are fenced by the closed check; __connect() starts media only over a connected DTLS transport; once closed the aggregated states latch on `closed` and stay silent; every data channel "
         "container is drained; a receiver that was never started still ends its remote track; no loop that suspends iterates over a live set / dict attribute that other methods change; a task that stop() cancels or waits for is "
         "created before the first suspension or behind a state guard; close() placed between any two negotiation calls of enumerated configurations (negotiation methods interpreted at the AST level, stand-in transports) stops every "
         "transport / sender / receiver the connection created, leaves the three states closed, does nothing the second time and makes later negotiation calls raise InvalidStateError (C19-SIM); stop() of a started sender / receiver, evaluated for every combination of loops that already ended on their own, cancels every running task and unregisters the object. "
         "It does not decide bounded-time completion under every interleaving or the absence of events after close.",
    ref="DESIGN.md section 3 C19")

CHECKS["C17"] = dict(
    technique="qualifier (serial-number) analysis: seeded attribute table, propagation through assignments/containers/call graph, classification of every comparison, ordering call, additive arithmetic and truthiness test; finite evaluation of the helper moduli",
    text="Decides the serial-number discipline that origin-independence needs: no raw order comparison, numeric sort/min/max, unreduced "
         "addition/subtraction or truthiness test on any 16/32-bit wrapping counter (TSNs, stream and RTP sequence numbers, RTP timestamps, "
         "RE-CONFIG sequence numbers), that the blessed helpers use the right moduli on all boundary pairs, and - by evaluating the receive-side state machines on the same "
         "scenarios at small origins and just below each wrap - that SCTP reassembly, FORWARD-TSN handling, the jitter buffer, the NACK generator and the receiver statistics "
         "behave identically after un-shifting. Origin-independence beyond the enumerated scenarios is not decided.",
    ref="DESIGN.md section 3 C17")

CHECKS["C10"] = dict(
    technique="exception-escape analysis of JitterBuffer.add under an inductively checked class invariant; who-may-write scan; sibling-structure rules; serial-number qualifier analysis; def-use; evaluation of add() by the checker's interpreter over enumerated arrival schedules",
    text="Decides: add() cannot raise for any packet (ring indices discharged by the invariant len(_packets) == _capacity and x % capacity < capacity); the ring "
         "never grows; every direct discard raises the video PLI flag; the late-packet reset threshold is the constant 100; sequence numbers and timestamps are "
         "only handled through wrap-safe operations and `is None` sentinels; the receiver uses add()'s two results faithfully and hands every packet of a negotiated codec "
         "(empty payloads and retransmissions included) to add() exactly once under its own numbers; on enumerated loss-free schedules (frame sizes x "
         "prefetch x adjacent swap x wrap) every frame comes out whole, once, in order; with a permanent loss and a burst at overflow only whole frames or - right after a discard - "
         "tails are released, a PLI is raised and no discard separates two held packets of one frame; _handle_rtp_packet evaluated on media / RTX / unparsable / short packets feeds add() only depayloaded packets (original codec for "
         "retransmissions) and never raises; the key-frame request goes out for every local RTCP SSRC including 0. Other arrival histories are not decided.",
    ref="DESIGN.md section 3 C10")
CHECKS["C13"] = dict(
    technique="typestate per call site from must-event guards evaluated over the four states; finite-domain evaluation of the DCEP writer/reader and of the bufferedamountlow predicate; structural pairing rules",
    text="Decides: readyState only moves forward at every _setReadyState call site; DATA_CHANNEL_OPEN written and read agree for all ordering/reliability "
         "combinations and non-ASCII labels/protocols; bufferedAmount is raised and lowered by len() of the very bytes queued/sent and bufferedamountlow fires "
         "exactly on downward crossings; ids have role parity and step 2, a reset is only queued for a channel with an id, and association close closes every "
         "channel unconditionally; a completed reset request is cleared before the reset queue is restarted; channels in every container are closed with the association; about 30 end-to-end lifecycle scenarios "
         "between two abstract transports (settings classes, messages, close from either side, id reuse, simultaneous opens, negotiated pairs, close before ACK, overlapping closes, channels closed before the "
         "association is up, ESTABLISHED entered twice); _data_channel_close evaluated for every ready state queues at most one stream reset per id. It does not decide behaviour under fault schedules or open/close races beyond the transition relation.",
    ref="DESIGN.md section 3 C13")
CHECKS["C15"] = dict(
    technique="exception-escape analysis of RemoteBitrateEstimator.add with intervals, float bounds and class invariants; paired-update rule; must-event guard rule; grid evaluation of the clamp expressions",
    text="Decides: no division by zero, negative sqrt, bad index or unbounded REMB SSRC count can escape the estimator; _total changes only together with the "
         "buckets; the SSRC bookkeeping keeps the newest and evicts the oldest; the whole pipeline evaluated on packet histories gives identical estimates across the 24-bit send-time wrap; the latest measurement is recorded whenever one exists; update() returns the clamped value and the clamp / over-use cut respect the 1.5x+10kbit/s "
         "and 85 % bounds on a grid of values; float powers have bounded exponents; the receiver feeds the estimator for every stamped packet (stamp 0 included) with its size / SSRC / arrival time and "
         "forwards its result as REMB; the over-use verdict used for the update is read after detect(); after every packet of bursty / sparse histories the rate counter holds exactly the bytes of the last window. Two numeric denominators and one power are exempted with reasons. It does not decide the numeric behaviour of the filter.",
    ref="DESIGN.md section 3 C15")
CHECKS["C16"] = dict(
    technique="finite-domain evaluation of descriptor writer/reader over the complete flag space and of the packetisers over boundary size classes; linear length forms for the STAP-A budget",
    text="Decides: VP8 descriptor __bytes__/parse agree for all 360 combinations of optional fields and PictureID widths; VP8 packetisation yields payloads <= 1300 "
         "with the S bit only on the first packet and bytes verbatim for boundary buffer lengths; FU-A fragments carry exactly one start/end marker and the original "
         "header bits for all 256 header octets and stay <= 1300 bytes on the boundary size classes; single NAL packets of types 1-23 depacketise verbatim; the whole H.264 packetiser over NAL-size sequences around every budget boundary keeps payloads <= 1300 and round-trips; the STAP-A size budget "
         "is decremented by exactly the bytes appended. It does not decide the <= 1300 bound of STAP-A for all size sequences nor reconstruction for all inputs.",
    ref="DESIGN.md section 3 C16")
CHECKS["C18"] = dict(
    technique="data-dependence and guard (must-event) rules, serial qualifier analysis, grid evaluation of fraction_lost against RFC 3550 A.3, interval analysis of the packed report fields",
    text="Decides: the reported highest sequence includes wrap cycles and the cycle counter accumulates and only advances for in-order packets; timestamp differences are reduced "
         "modulo 2^32; fraction_lost equals the RFC formula on a grid incl. duplicates/late arrivals; packets_lost, highest_sequence, jitter and lsr provably fit "
         "their RTCP fields; dlsr is 0 or the scaled delay and within 32 bits on a grid of delays; StreamStatistics equals an RFC 3550 reference on enumerated packet sequences (losses, duplicates, late copies of the newest packet, wraps) and the report block _run_rtcp builds from it carries those values through serialise / parse; statistics are fed with the packet as it arrived (before the RTX unwrap); fraction_lost is read per interval from objects fed through add() (black box), also while the cumulative loss passes 2^23 and the arrival clock crosses a multiple of 2^32 ticks; a reporting round with 1 to 300 remote streams sends every report block once in packets of at most 31 blocks that parse back. Numeric equality over all histories is not decided.",
    ref="DESIGN.md section 3 C18")

CHECKS["C01"] = dict(
    technique="must-event guard (dominance) analysis of the duplicate filter; finite-domain evaluation of the PPID mapping, of _send's fragmentation and of the receive path over enumerated arrival orders; def-use provenance; reset table-clearing rule; serial qualifier analysis",
    text="Decides structural necessary conditions of exactly-once / intact / right-channel delivery: reassembly is dominated by the 'new TSN' edge of "
         "_mark_received, which tests both the cumulative TSN and the misordered set; the str/bytes/empty mapping through the payload protocol identifiers is "
         "invertible; _send assigns consecutive TSNs modulo 2^32, B/E/U flags and one stream sequence number per message and its fragments tile the message for "
         "sizes around the fragment boundary; the stream id used for delivery is the chunk's; stream resets clear the per-stream tables; TSN / stream-sequence "
         "arithmetic is wrap-safe (C17 rule set); for every arrival order (plus a duplicate) of interleaved messages on two streams _receive_data_chunk delivers each message "
         "once, intact, in order and leaves nothing queued; abandonment / FORWARD-TSN never touch other messages (C06 rules); lost chunks keep being retransmitted and the receive state is only initialised by the handshake (C02 rules); sender and receiver closed into a loop deliver every reliable message once, "
         "intact and in order under every single fault and every double loss of the enumerated workload (115 schedules, TSN and stream-sequence wraps included); sequence numbers are allocated "
         "without a suspension point in between; data sent once a channel reports open is delivered even when it overtakes the announcement. Arrival orders beyond the enumerated families "
         "are not decided.",
    ref="DESIGN.md section 3 C01")
CHECKS["C04"] = dict(
    technique="structural ordering of start(); must-event guards evaluated over the five transport states; finite-domain evaluation of the fingerprint policy and of the SRTP key slicing",
    text="Decides: start() performs handshake, identity check and SRTP setup, each followed by the FAILED check, before CONNECTED and the data pump; every "
         "hand-over of decrypted bytes is guarded by a condition that holds only in CONNECTED (or by the SRTP session only start() can create); sends check "
         "CONNECTED; the fingerprint policy equals 'at least one supported, all supported match, case-insensitive' on 900 enumerated lists; both roles derive "
         "the RFC 5764 mirror-image key/salt slices for the three profiles; SRTP failures deliver nothing; the first-byte demultiplexer equals RFC 7983 for all 256 values and "
         "is_rtcp separates RTCP from negotiable RTP payload types; one turn of the receive pump, evaluated for every datagram class x transport state, delivers exactly the authenticated and parsed packets - "
         "each RTCP packet of a compound to each recipient once - and application data only when connected; start() evaluated over handshake / identity / key outcomes connects and starts the pump only when all three succeeded; the fingerprint hash table follows RFC 8122 "
         "and the DTLS read size covers the records written; the inbound SRTP policy's replay window covers the outbound policy's window and the retransmission history. It does not decide what OpenSSL/libsrtp do.",
    ref="DESIGN.md section 3 C04")
CHECKS["C08"] = dict(
    technique="reader/writer struct-format and field-order extraction; finite-domain evaluation of parameter and padding arithmetic over all length residues; must-event guard on the checksum gate; registry constants",
    text="Decides: every chunk / RE-CONFIG parameter class reads the formats and field order it writes; encode/decode_params agree for all lists of up to three "
         "parameters with value lengths 0..4; padding and length fields are right for all residues and two bundled chunks parse back; every chunk class is "
         "registered with a distinct type; no chunk is constructed unless the checksum comparison held; every chunk / parameter class with representative field values, flags and "
         "list lengths survives serialise -> parse with equal fields. It does not decide the burst-detection power of CRC32c "
         "nor equality for all field values.",
    ref="DESIGN.md section 3 C08")

CHECKS["C07"] = dict(
    technique="agreement of sibling writer/reader implementations: the ast of each serialiser and parser is evaluated by the checker's own interpreter over enumerated boundary-class domains (no aiortc code is imported or run)",
    text="Decides writer/reader agreement per field class: header-extension one-/two-byte form and per-extension value widths; generic NACK as a set of 16-bit "
         "sequence numbers incl. wrap; the 24-bit signed cumulative loss at its boundaries; REMB mantissa/exponent (never rounds up, relative error < 2^-17); "
         "RR/SR/SDES/BYE/PSFB compound packets for counts 0..3 and all length residues; RtpPacket CSRC/marker/padding/header-extension classes with the RFC 3550 layout of the written bytes, and wrap_rtx/unwrap_rtx; every "
         "RTCP payload a multiple of 4. It decides agreement on class representatives, not equality for every value.",
    ref="DESIGN.md section 3 C07")
CHECKS["C11"] = dict(
    technique="must-event (dominance) analysis of the RTX unwrap guards and of NACK-window truncation; constant agreement between NACK window and sender history; program-order/def-use rule; serial qualifier analysis",
    text="Decides: every path of NackGenerator.add that can add to `missing` reaches truncate(); the NACK window, the sender's history store and lookup use one "
         "constant; a retransmission is sent only for the exact sequence number asked for; unwrap_rtx is dominated by the payload-length, apt and SSRC-mapping "
         "checks and the media codec is used afterwards; statistics see the wire packet while NACK generation and the jitter buffer see the unwrapped one; "
         "serial discipline in the RTP sender/receiver; the sender's RTX payload type is the one whose apt is the encoding codec (evaluated on codec-list layouts); media packets and unwrapped "
         "retransmissions reach the jitter buffer exactly once; the repair loop closed over both ends (lost or overtaken packets x wraps x RTX on/off) delivers every packet and asks only for lost ones; the video jitter buffer is at least as large as the NACK window; "
         "_retransmit never sends a stale history slot; NackGenerator.add() evaluated on arrival sequences reports every new gap (also after an outage longer than the history) and tracks exactly the unrepaired losses of the window; each history slot holds a packet created in the iteration that stores it; shared rules: NACK wire format and RTX wrapping (C07), jitter-buffer frame integrity on enumerated schedules (C10). It does not decide eventual recovery or byte identity of decoder input under loss schedules.",
    ref="DESIGN.md section 3 C11")

CHECKS["C09"] = dict(
    technique="writer/reader attribute-table extraction and set comparison; agreement of sibling serialiser/parser implementations by evaluating their asts with the checker's interpreter over an enumerated family of descriptions, candidates and fmtp dictionaries",
    text="Decides: every line kind the two __str__ writers can emit has a branch in the matching loop of SessionDescription.parse; the DTLS role tables are mutual "
         "inverses; on about 60 generated descriptions (each optional field present/absent, all directions, roles, section kinds, legacy SCTP, groups without members, unbundled sections with their own transport parameters) serialise-parse-serialise "
         "is a fixed point and every field is recovered; one round is idempotent on 4 foreign texts; candidate lines and the contrib signaling codec round-trip for "
         "96 candidate shapes incl. IPv6; fmtp dictionaries round-trip for None/0/empty/'='-bearing values. Agreement on representatives, not all texts.",
    ref="DESIGN.md section 3 C09")

CHECKS["C03"] = dict(
    technique="finite-domain evaluation of the direction algebra, role assignments and codec/header-extension intersection (ast evaluated by the checker's interpreter); whole-exchange evaluation of the negotiation methods over enumerated configuration pairs with an oracle on the produced SDP text; scope (binding-provenance), mirror (path-count) and guard-latch rules over the negotiation methods",
    text="Decides: and/or/reverse_direction equal capability intersection/union/swap and their composition gives complementary current directions for all 16 pairs; "
         "negotiated transceiver state is only read for transceivers selected through the description; createAnswer appends exactly one section per remote section on "
         "every path, looked up by the remote mid, and BUNDLE lists the mids in order; find_common_codecs/header_extensions select only offered entries with the offerer's "
         "payload types/ids on boundary scenarios (96, 127, static, RTX/base pairs, H264 profiles); the ICE role is assigned once per transport; bundling moves each object once (guard + latch); DTLS roles are definite and "
         "complementary; description slots are updated per type; RTCIceTransport.start() returns only after the connection attempt (its own or the one in progress) is over and __connect() orders ICE, DTLS "
         "and media starts; every remote offer records the offered direction (first offer, re-offer, swapped offerer); the BUNDLE step evaluated on object graphs puts every member on the primary's transport for "
         "every creation order and stops exactly the unused transports; whole offer/answer exchanges (79 quick / about 170 thorough configuration pairs incl. follow-up negotiations) driven through the real "
         "negotiation methods interpreted at the AST level with stand-in transports end stable/stable with mirrored sections, offered codecs / payload types / extension ids only, complementary "
         "directions equal to the intersection of both sides' wishes, definite opposite DTLS roles and one transport per bundle (C03-SIM). It does not decide configurations outside the enumeration, nor that the session connects.",
    ref="DESIGN.md section 3 C03")

CHECKS["C02"] = dict(
    technique="pairing and ordering rules: who-may-write scan and guard rules for the flight-size counter, must-event (all-paths, kill-aware) analysis for timer arming and producer-kicks-consumer, enclosing-guard rule for timer cancellation, lower-bound folding of window assignments",
    text="Decides structural necessary conditions of 'no permanent stall': _flight_size is only written by its helpers / a reset, every increase happens for a chunk "
         "whose _acked is False (so the cumulative-ack path undoes it), acks decrease under exactly `not _acked`, a T3 expiry leaves nothing counted; T3 is armed on "
         "every path of start/restart, after every data (re)transmission, cleared and followed by _transmit on expiry, cancelled only with nothing outstanding; every "
         "producer of the three queues starts its consumer on every exit, accepted SACKs reach flush and transmit; cwnd never drops below one MTU; the receive loop cannot be killed by a "
         "repeated chunk (timer typestate) or a negative window (sign rule); wrap-safe sequence arithmetic; the receive state is only re-initialised under an association-state guard; nothing complete stays queued for the enumerated arrival orders; the sender's real transmit / SACK / T3 / abandon code evaluated on loss scenarios (reliable and partially "
         "reliable messages, fast-retransmit and T3 paths) never counts more bytes in flight than are outstanding and transmits new data once everything is acknowledged; a SACK beyond the TSNs assigned is ignored; "
         "the closed sender/receiver loop drains under every single fault and double loss of the enumerated workload; per-channel reliability parameters do not leak between messages and channel announcements are always reliable; association set-up closed over both ends survives the loss or late duplication of "
         "each handshake datagram. It does not decide "
         "delivery in bounded time or absence of stalls over all fault histories.",
    ref="DESIGN.md section 3 C02")

CHECKS["C06"] = dict(
    technique="pairing, snapshot-iteration and ordering rules on the syntax tree; agreement of the abandonment sender/receiver code with the specification 'exactly the abandoned message' by evaluating the function asts with the checker's interpreter over enumerated queue shapes",
    text="Decides: an abandoned chunk is never (re)transmitted (pairing of _abandoned/_retransmit stores, retransmission guarded by _maybe_abandon); loops that may abandon "
         "iterate over a snapshot of the sent queue; FORWARD-TSN is built only from the abandoned prefix and sent before data; for every enumerated layout (message of 1..4 "
         "fragments, 1..k sent, trigger fragment, ordered/unordered, reliable prefix or not) exactly that message's fragments - sent or queued - are abandoned and the FORWARD-TSN "
         "is exact (also when the first fragments were already acknowledged or a gap-acked reliable chunk follows); the FORWARD-TSN is rebuilt until the peer has caught up and not afterwards; for every subset of already received chunks of two reliable messages next to an abandoned one the receiver delivers them once, intact, in order; a partly received abandoned message (ordered or unordered) is dropped and the next message comes out; a repeated "
         "FORWARD-TSN never rewinds a stream, a FORWARD-TSN over a message the receiver holds complete keeps later messages in order; the closed sender/receiver loop (113 fault schedules) delivers what the "
         "property allows and everything sent after the network recovered. It does not decide behaviour under fault schedules beyond these families.",
    ref="DESIGN.md section 9.4 C06")

NOT_APPLICABLE = {}

ENGINE_FOR = {}


def main() -> None:
    checks = []
    for pid in sorted(CHECKS):
        c = CHECKS[pid]
        checks.append({
            "property_id": pid,
            "quick_cmd": f"/venv/bin/python check.py {pid} --tier quick",
            "thorough_cmd": f"/venv/bin/python check.py {pid} --tier thorough",
            "evidence_file": f"evidence/{pid}.json",
            "replay_cmd_template": f"/venv/bin/python check.py {pid} --replay {{path}}",
            "engine": "absint-static",
            "technique": c["technique"],
            "level_claimed": {"category": "other", "text": c["text"], "design_ref": c["ref"]},
            "level_note": TRUST,
        })
    na = []
    for i in range(1, 20):
        pid = f"C{i:02d}"
        if pid in CHECKS:
            continue
        reason = NOT_APPLICABLE.get(pid, "not claimed yet: its static check is still under construction (see DESIGN.md section 3 for the planned clauses)")
        na.append({"property_id": pid, "reason": reason})
    m = {
        "version": 1,
        "setup_cmd": "/venv/bin/python -m compileall -q engine rules check.py",
        "hooks": {
            "guard": "AIORTC_VERIF",
            "enable": "none: static analysis reads /repo/src/aiortc as text; no instrumentation of aiortc exists",
            "baseline_off_cmd": "cd /repo && /venv/bin/python -m pytest -ra -q -p no:cacheprovider --timeout=900 --continue-on-collection-errors",
            "source_commits": [],
            "add_only": True,
        },
        "engines": [{
            "name": "absint-static", "path": "engine/", "serves_properties": sorted(CHECKS),
            "kind_free_text": "pure-stdlib ast-based static analyser: program index, light types, call graph, structured abstract interpreter "
                              "(linear facts, intervals, taint, definite assignment, class invariants), must-event dominance analysis, "
                              "finite-domain guard evaluation, struct layout extraction",
        }],
        "checks": checks,
        "not_applicable": na,
        "notes": "Every check is static: it parses /repo/src/aiortc on each run and never imports or executes aiortc. exit 2 + ANALYSIS-ERROR "
                 "means the checker could not decide (anchor vanished etc.).",
    }
    with open(os.path.join(HERE, "MANIFEST.json"), "w") as fh:
        json.dump(m, fh, indent=1)
    print("claimed:", sorted(CHECKS), "not applicable:", [x["property_id"] for x in na])


if __name__ == "__main__":
    main()
