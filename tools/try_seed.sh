#!/bin/bash
# usage: tools/try_seed.sh <seed-dir> <PROP> [<PROP>...]   -- apply a seeded mutation to /repo, run checks, undo
set -u
seed=$(realpath $1); shift
cd /repo || exit 2
if ! git diff --quiet; then echo "repo dirty"; exit 2; fi
if ! git apply --3way "$seed/patch.diff" 2>/tmp/apply.err && ! git apply "$seed/patch.diff" 2>>/tmp/apply.err; then echo "APPLY-FAILED $seed"; cat /tmp/apply.err | head -5; git checkout -- . ; git reset -q; exit 3; fi
git reset -q
cd /verif
for p in "$@"; do
  out=$(/venv/bin/python check.py $p 2>&1); rc=$?
  echo "== $seed $p exit=$rc"
  echo "$out" | grep "^FINDING\|^VIOLATION\|ANALYSIS-ERROR" | cut -c1-400 | head -6
done
git -C /repo checkout -- .
git -C /repo status --short | head -3
