#!/venv/bin/python
"""Fills DESIGN.md section 9.6 (between SEED-TABLE-BEGIN / SEED-TABLE-END) from seeded/*/meta.json and twins/.
With --matrix it first runs every check on every seed (tools/check_patch.py logic) and stores which *other* properties' checks also
fire in meta.json ("also_detected_by")."""
import json
import os
import re
import subprocess
import sys
from concurrent.futures import ThreadPoolExecutor

VERIF = os.path.dirname(os.path.dirname(os.path.abspath(__file__)))
PROPS = [f"C{i:02d}" for i in range(1, 20)]


def matrix(seed_dir: str):
    out = subprocess.run([sys.executable, os.path.join(VERIF, "tools", "check_patch.py"), os.path.join(seed_dir, "patch.diff")], capture_output=True, text=True).stdout
    fired = {}
    for ln in out.splitlines():
        m = re.match(r"^(C\d\d) exit=(\d)", ln)
        if m:
            fired[m.group(1)] = int(m.group(2))
    return fired


def main() -> None:
    seeds = sorted(d for d in os.listdir(os.path.join(VERIF, "seeded")) if os.path.exists(os.path.join(VERIF, "seeded", d, "meta.json")))
    if "--matrix" in sys.argv:
        with ThreadPoolExecutor(max_workers=3) as ex:
            res = list(ex.map(lambda d: matrix(os.path.join(VERIF, "seeded", d)), seeds))
        for d, fired in zip(seeds, res):
            mp = os.path.join(VERIF, "seeded", d, "meta.json")
            meta = json.load(open(mp))
            meta["also_detected_by"] = sorted(p for p, rc in fired.items() if rc == 1 and p != meta["property"])
            meta["checks_with_analysis_error"] = sorted(p for p, rc in fired.items() if rc == 2)
            json.dump(meta, open(mp, "w"), indent=1)
            print(d, fired)
    rows = []
    for d in seeds:
        m = json.load(open(os.path.join(VERIF, "seeded", d, "meta.json")))
        status = m["status"]
        det = ", ".join(m.get("detected_by") or []) or ("— (silent, as it must be)" if m.get("expect") == "silent" else "**not detected**")
        also = ", ".join(m.get("also_detected_by") or [])
        rows.append(f"| {d} | {m['title'][:110].replace('|', '/')} | {status} | {det} | {also} |")
    twins = sorted(os.listdir(os.path.join(VERIF, "twins"))) if os.path.isdir(os.path.join(VERIF, "twins")) else []
    n_conf = sum(1 for d in seeds if json.load(open(os.path.join(VERIF, 'seeded', d, 'meta.json')))['status'] == 'confirmed')
    text = [
        f"{len(seeds)} seeded changes ({n_conf} confirmed by me in a scratch worktree: patch applies to HEAD, the unedited suite passes with it, the demonstration fails "
        f"with it and passes without it) and {len(twins)} behaviour-preserving twins. `detected by` = rules of the property's own check that fire on the patched copy; "
        f"`also` = other properties' checks that fire as well. A `neutral` entry no longer breaks the property on the current tree (a fix removed its pre-condition) and must be silent.",
        "",
        "| case | change | status | detected by | also |",
        "|---|---|---|---|---|",
    ] + rows + ["", f"Twins (all {len(twins)} leave all 19 checks at exit 0): " + ", ".join(twins) + "."]
    p = os.path.join(VERIF, "DESIGN.md")
    s = open(p).read()
    i, j = s.index("SEED-TABLE-BEGIN"), s.index("SEED-TABLE-END")
    s = s[:i] + "SEED-TABLE-BEGIN -->\n" .replace("SEED-TABLE-BEGIN -->", "SEED-TABLE-BEGIN") + "\n".join(text) + "\n" + s[j:]
    open(p, "w").write(s)
    print(f"table written: {len(rows)} seeds, {len(twins)} twins")


if __name__ == "__main__":
    main()
