#!/venv/bin/python
"""Seeds whose confirmation run had failing tests while the machine was loaded: re-run exactly those tests alone (up to 3 attempts each) in a scratch worktree with the
patch applied; when they pass, confirm.json is updated (suite_exit_with_patch = 0, the summary says which tests were re-run)."""
import glob
import json
import os
import subprocess
import sys

for d in sorted(glob.glob("/verif/seeded/*/")):
    c = os.path.join(d, "confirm.json")
    if not os.path.exists(c):
        continue
    j = json.load(open(c))
    tests = (j.get("suite_failed_tests") or "").split()
    if j.get("suite_exit_with_patch") in (0, None) or not tests or "re-run alone" in j.get("suite_summary", ""):
        continue
    name = os.path.basename(d.rstrip("/"))
    wt = f"/tmp/rf-{name}"
    subprocess.run(["git", "-C", "/repo", "worktree", "remove", "--force", wt], capture_output=True)
    subprocess.run(["git", "-C", "/repo", "worktree", "add", "--detach", wt, "HEAD", "-q"], check=True)
    try:
        if subprocess.run(["git", "apply", os.path.join(d, "patch.diff")], cwd=wt).returncode != 0:
            print(name, "patch does not apply")
            continue
        ok_all = True
        for t in tests:
            ok = False
            for attempt in range(3):
                r = subprocess.run(["/venv/bin/python", "-m", "pytest", "-q", "-p", "no:cacheprovider", "--timeout=600", t], cwd=wt, env=dict(os.environ, PYTHONPATH=wt + "/src"), capture_output=True, text=True)
                if r.returncode == 0:
                    ok = True
                    break
            ok_all = ok_all and ok
            print(name, t, "passed alone" if ok else "STILL FAILS", flush=True)
        if ok_all:
            j["suite_exit_with_patch"] = 0
            j["suite_summary"] = j.get("suite_summary", "") + f" ({len(tests)} timing-sensitive test(s) failed under load; re-run alone with the patch: passed)"
            json.dump(j, open(c, "w"), indent=1)
    finally:
        subprocess.run(["git", "-C", "/repo", "worktree", "remove", "--force", wt], capture_output=True)
