#!/bin/bash
# usage: tools/confirm_seed.sh <seed-dir>
# Confirms a seeded mutation in a scratch worktree of /repo (never in /repo itself):
#   1. the patch applies to HEAD, 2. the pinned test suite passes with it, 3. the demonstration fails with it,
#   4. the demonstration passes without it.  Writes <seed-dir>/confirm.json and removes the worktree.
set -u
seed=$(realpath "$1"); name=$(basename "$seed")
wt=/tmp/cf-$name
git -C /repo worktree remove --force "$wt" >/dev/null 2>&1
git -C /repo worktree add --detach "$wt" HEAD -q || exit 2
head=$(git -C /repo rev-parse --short HEAD)
cd "$wt" || exit 2
applies=true
if ! git apply --3way "$seed/patch.diff" 2>/dev/null && ! git apply "$seed/patch.diff" 2>/dev/null; then applies=false; fi
git reset -q
if $applies && ! git -C "$wt" diff --quiet; then
  # refresh the stored patch so that it applies to the current HEAD without a 3-way merge
  git -C "$wt" diff > /tmp/cf-$name.rebased.diff
  if ! cmp -s /tmp/cf-$name.rebased.diff "$seed/patch.diff"; then
    [ -f "$seed/patch.orig.diff" ] || cp "$seed/patch.diff" "$seed/patch.orig.diff"
    cp /tmp/cf-$name.rebased.diff "$seed/patch.diff"
  fi
  rm -f /tmp/cf-$name.rebased.diff
fi
demo=$(ls "$seed"/demo.py "$seed"/test_demo.py 2>/dev/null | head -1)
run_demo() {
  if [[ "$demo" == *test_demo.py ]]; then
    PYTHONPATH="$wt/src" timeout 300 /venv/bin/python -m pytest -q -p no:cacheprovider "$demo" >/tmp/cf-$name.demo.$1.log 2>&1
  else
    PYTHONPATH="$wt/src" timeout 300 /venv/bin/python "$demo" >/tmp/cf-$name.demo.$1.log 2>&1
  fi
  echo $?
}
suite_rc=-1; suite_line=""; demo_with=-1; demo_without=-1; failed=""
if $applies; then
  PYTHONPATH="$wt/src" timeout 1800 /venv/bin/python -m pytest -q -p no:cacheprovider --timeout=900 >/tmp/cf-$name.suite.log 2>&1; suite_rc=$?
  # the TCP signaling tests bind a fixed port and clash when several suites run at once: re-run them alone under a lock
  if [ $suite_rc -ne 0 ] && ! grep "^FAILED\|^ERROR" /tmp/cf-$name.suite.log | grep -v "test_contrib_signaling.py" | grep -q .; then
    if PYTHONPATH="$wt/src" flock /tmp/verif-signaling.lock timeout 600 /venv/bin/python -m pytest -q -p no:cacheprovider tests/test_contrib_signaling.py >/tmp/cf-$name.sig.log 2>&1; then
      suite_rc=0; sed -i '$ s/$/ (signaling tests re-run alone: passed)/' /tmp/cf-$name.suite.log
    fi
  fi
  suite_line=$(tail -1 /tmp/cf-$name.suite.log)
  failed=$(grep "^FAILED\|^ERROR" /tmp/cf-$name.suite.log | cut -d' ' -f2 | tr '\n' ' ')
  demo_with=$(run_demo with)
  git checkout -- . ; git clean -fdq
fi
demo_without=$(run_demo without)
cat > "$seed/confirm.json" <<J
{"seed": "$name", "repo_head": "$head", "patch_applies": $applies, "suite_exit_with_patch": $suite_rc, "suite_summary": "$suite_line", "suite_failed_tests": "$failed",
 "demo_exit_with_patch": $demo_with, "demo_exit_without_patch": $demo_without}
J
cd /; git -C /repo worktree remove --force "$wt"; rm -f /tmp/cf-$name.suite.log /tmp/cf-$name.demo.*.log
cat "$seed/confirm.json"
