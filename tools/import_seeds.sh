#!/bin/bash
# usage: tools/import_seeds.sh <PROP> <out-dir> [<worktree-to-remove>]
# copies <out-dir>/m*/ to the next free seeded/<PROP>_m<N>/, runs the check on each, removes the scratch dirs
set -u
prop=$1; out=$2; wt=${3:-}
cd /verif
for d in "$out"/m*/; do
  [ -f "$d/patch.diff" ] || continue
  n=1; while [ -d seeded/${prop}_m$n ]; do n=$((n+1)); done
  dst=seeded/${prop}_m$n; mkdir -p $dst
  cp "$d"/patch.diff $dst/
  for f in notes.txt demo.py test_demo.py; do [ -f "$d/$f" ] && cp "$d/$f" $dst/; done
  # any helper files the demo needs
  for f in "$d"/*.py "$d"/*.bin "$d"/*.json; do [ -f "$f" ] && cp -n "$f" $dst/ 2>/dev/null; done
  echo "### imported $dst: $(head -1 $dst/notes.txt | cut -c1-150)"
  /venv/bin/python tools/check_patch.py $dst/patch.diff $prop 2>&1 | cut -c1-300 | tail -4
done
[ -n "$wt" ] && git -C /repo worktree remove --force "$wt"
rm -rf "$out"
