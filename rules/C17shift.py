"""C17-SHIFT — behaviour does not depend on the origin of the sequence-number spaces.

The asts of the receive-side state machines are evaluated (checker's interpreter) on the same scenario once with small starting
values and once with starting values just below the wrap of each number space; after shifting the observable results back they
must be identical.  This decides origin-independence on the enumerated scenarios only; the qualifier rules of C17 decide the
discipline for all code paths."""
from __future__ import annotations

import ast
import itertools
from types import SimpleNamespace
from typing import Any, Callable, Dict, List, Tuple

from engine.index import AnalysisError, Program, Unknown, unparse
from engine.peval import Evaluator, Raised
from engine.report import Report, mk_finding

PROP = "C17"
RULE = "C17-SHIFT"
M32 = 1 << 32
M16 = 1 << 16


def run_shift(rep: Report, prog: Program, tier: str) -> None:
    rep.rule(RULE, "same scenario at small origins and at origins just below the wrap: identical behaviour after un-shifting", min_instances=40)
    from .objhook import make_hook
    from .sctpmodel import build
    hook, chunk, message = build(prog)
    T = prog.cls("rtcsctptransport.RTCSctpTransport")
    rd = prog.func("rtcsctptransport.RTCSctpTransport._receive_data_chunk")
    rf = prog.func("rtcsctptransport.RTCSctpTransport._receive_forward_tsn_chunk")

    def compare(label: str, fn: Callable[[int, int], Any], origins: List[Tuple[int, int]], where) -> None:
        base = None
        for o in origins:
            try:
                res = fn(*o)
            except Raised as ex:
                res = f"raises {ex.name}"
            except Unknown as ex:
                raise AnalysisError(f"{RULE} cannot evaluate [{label}] at origin {o}: {ex}")
            if base is None:
                base = (o, res)
                continue
            if res == base[1]:
                rep.ok(RULE, f"{label}: origins {base[0]} vs {o}", sample=str(res)[:100])
            else:
                rep.fail(mk_finding(prog, PROP, RULE, where, where.node,
                                    f"[{label}] with starting values {base[0]} the outcome is {str(base[1])[:160]}, with starting values {o} (same scenario, shifted) it is {str(res)[:160]}: "
                                    f"behaviour depends on where the sequence numbers start", construct=f"origin shift: {label}"[:80]))

    # ---------------- (a) SCTP receive path: arrival permutations over TSN / SSN origins
    def sctp_case(perm_idx: int, unordered: bool):
        def fn(tsn0: int, ssn0: int):
            t = lambda k: (tsn0 + k) % M32  # noqa: E731
            s = lambda k: (ssn0 + k) % M16  # noqa: E731
            msgs = [message(t(0), 1, s(0), 2, unordered, None, "A"), message(t(2), 2, s(0), 1, False, None, "C"),
                    message(t(3), 1, s(1), 1, unordered, None, "B"), message(t(4), 1, s(2), 1, unordered, None, "D")]
            chunks = [c for m in msgs for c in m]
            order = list(itertools.permutations(range(len(chunks))))[perm_idx]
            me = SimpleNamespace(__cls__=T, _last_received_tsn=(tsn0 - 1) % M32, _sack_needed=False, _sack_duplicates=[], _sack_misordered=set(), _inbound_streams={},
                                 _inbound_streams_max=65535, _advertised_rwnd=100000, delivered=[])
            # stream state as if ssn0 messages had been delivered before
            for sid in (1, 2):
                st = hook.instantiate(prog.cls("rtcsctptransport.InboundStream"), [], {}, None)
                st.sequence_number = ssn0
                me._inbound_streams[sid] = st
            trace = []
            for i in order + (order[0],):
                hook.run_method(rd, me, [SimpleNamespace(**vars(chunks[i]))], {})
                trace.append(((me._last_received_tsn - tsn0) % M32, sorted((x - tsn0) % M32 for x in me._sack_misordered), len(me.delivered)))
            return [(d[0], bytes(d[2])) for d in me.delivered], trace
        return fn
    perms = [0, 7, 23, 41, 59, 77, 101, 119] if tier != "thorough" else list(range(0, 120, 3))
    for pi, unord in itertools.product(perms, (False, True)):
        compare(f"SCTP receive, arrival permutation #{pi}, stream 1 {'unordered' if unord else 'ordered'}", sctp_case(pi, unord),
                [(10, 0), (M32 - 3, M16 - 2), (M32 - 1, M16 - 1)], rd)

    # ---------------- (b) FORWARD-TSN skipping a message whose stream sequence number is just below the wrap
    def fwd_case(tsn0: int, ssn0: int):
        t = lambda k: (tsn0 + k) % M32  # noqa: E731
        me = SimpleNamespace(__cls__=T, _last_received_tsn=(tsn0 - 1) % M32, _sack_needed=False, _sack_duplicates=[], _sack_misordered=set(), _inbound_streams={},
                             _inbound_streams_max=65535, _advertised_rwnd=100000, delivered=[])
        st = hook.instantiate(prog.cls("rtcsctptransport.InboundStream"), [], {}, None)
        st.sequence_number = ssn0
        me._inbound_streams[1] = st
        # message with SSN ssn0 (TSN t0) is abandoned; SSN ssn0+1, ssn0+2 arrive
        later = [message(t(1), 1, (ssn0 + 1) % M16, 1, False, None, "X"), message(t(2), 1, (ssn0 + 2) % M16, 2, False, None, "Y")]
        hook.run_method(rd, me, [later[1][0]], {})
        hook.run_method(rf, me, [SimpleNamespace(cumulative_tsn=t(0), streams=[(1, ssn0)], flags=0)], {})
        for c in (later[0][0], later[1][1]):
            hook.run_method(rd, me, [c], {})
        return [(d[0], bytes(d[2])) for d in me.delivered], (me._last_received_tsn - tsn0) % M32, (st.sequence_number - ssn0) % M16
    compare("FORWARD-TSN over an abandoned ordered message", fwd_case, [(10, 3), (M32 - 2, M16 - 1), (M32 - 1, M16 - 2)], rf)

    # ---------------- (c) jitter buffer: sequence-number and timestamp origins
    JB = prog.cls("jitterbuffer.JitterBuffer")
    jadd = prog.func("jitterbuffer.JitterBuffer.add")
    oh = make_hook(prog)
    evj = Evaluator(prog, prog.modules["jitterbuffer"], None, {}, oh)

    def jb_case(sizes: Tuple[int, ...], lost: Tuple[int, ...], swap: int, prefetch: int):
        def fn(seq0: int, ts0: int):
            pkts = []
            seq = seq0
            for f, n in enumerate(sizes * 4):
                for k in range(n):
                    pkts.append(SimpleNamespace(sequence_number=seq % M16, timestamp=(ts0 + 3000 * f) % M32, _data=bytes([f, k])))
                    seq += 1
            order = [i for i in range(len(pkts)) if i not in lost]
            if 0 <= swap < len(order) - 1:
                order[swap], order[swap + 1] = order[swap + 1], order[swap]
            jb = oh.instantiate(JB, [], dict(capacity=16, prefetch=prefetch, is_video=True), evj)
            out = []
            for i in order:
                r = oh.run_method(jadd, jb, [pkts[i]], {})
                out.append((bool(r[0]), None if r[1] is None else (r[1].data, (r[1].timestamp - ts0) % M32)))
            return out
        return fn
    for sizes, lost, swap, prefetch in (((2, 3, 1), (), -1, 0), ((2, 3, 1), (), 4, 2), ((1, 1, 2), (3,), -1, 0), ((3, 2), (1, 9, 10, 11), 6, 1), ((4, 1), (2,), 11, 0)):
        compare(f"jitter buffer, frame sizes {sizes}, lost {lost}, swap at {swap}, prefetch {prefetch}", jb_case(sizes, lost, swap, prefetch),
                [(100, 90000), (M16 - 5, M32 - 4000), (M16 - 1, M32 - 1), (M16 - 2, M32 - 3000)], jadd)

    # ---------------- (d) NACK generator
    NG = prog.cls("rtcrtpreceiver.NackGenerator")
    nadd = prog.func("rtcrtpreceiver.NackGenerator.add")
    evr = Evaluator(prog, prog.modules["rtcrtpreceiver"], None, {}, oh)

    def nack_case(arrivals: Tuple[int, ...]):
        def fn(seq0: int, _unused: int):
            ng = oh.instantiate(NG, [], {}, evr)
            out = []
            for a in arrivals:
                r = oh.run_method(nadd, ng, [SimpleNamespace(sequence_number=(seq0 + a) % M16)], {})
                out.append((bool(r), sorted((m - seq0) % M16 for m in ng.missing), (ng.max_seq - seq0) % M16))
            return out
        return fn
    for arr in ((0, 1, 4, 2, 3, 9), (0, 3, 3, 1, 200, 2, 150), (5, 0, 6, 8, 7, 140, 141)):
        compare(f"NACK generator, arrivals {arr}", nack_case(arr), [(1000, 0), (M16 - 2, 0), (M16 - 6, 0), (M16 - 143, 0)], nadd)

    # ---------------- (e) receiver statistics
    SS = prog.cls("rtcrtpreceiver.StreamStatistics")
    sadd = prog.func("rtcrtpreceiver.StreamStatistics.add")

    def stats_case(arrivals: Tuple[Tuple[int, int, float], ...]):
        def fn(seq0: int, ts0: int):
            clock = [0.0]

            def ex(call: ast.Call, ev: Evaluator) -> Any:
                if unparse(call.func) == "time.time":
                    return clock[0]
                return NotImplemented
            ohs = make_hook(prog, ex)
            evs = Evaluator(prog, prog.modules["rtcrtpreceiver"], None, {}, ohs)
            ss = ohs.instantiate(SS, [], dict(clockrate=8000), evs)
            out = []
            for dseq, dts, now in arrivals:
                clock[0] = now
                ohs.run_method(sadd, ss, [SimpleNamespace(sequence_number=(seq0 + dseq) % M16, timestamp=(ts0 + dts) % M32)], {})
                ext = (ss.cycles + ss.max_seq - seq0)
                out.append((ss.packets_received, ext, ss._jitter_q4, ohs.getattr(ss, "packets_expected"), ohs.getattr(ss, "packets_lost")))
            out.append(ohs.getattr(ss, "fraction_lost"))
            return out
        return fn
    seqs = [tuple((i, 160 * i, 0.02 * i) for i in range(12)),
            ((0, 0, 0.0), (1, 160, 0.021), (3, 480, 0.07), (2, 320, 0.071), (4, 640, 0.08), (8, 1280, 0.2), (8, 1280, 0.21), (9, 1440, 0.22)),
            tuple((i * 3, 480 * i, 0.06 * i + (0.004 if i % 2 else 0.0)) for i in range(10)),
            # a long stream in large strides: one wrap from a small origin, two from an origin just below the wrap
            tuple((i * 30000, 160 * i, 0.02 * i) for i in range(5))]
    for k, arr in enumerate(seqs):
        compare(f"receiver statistics, sequence #{k}", stats_case(arr), [(500, 16000), (M16 - 3, M32 - 500), (M16 - 1, M32 - 1)], sadd)

    # ---------------- (f) the receiver's RTP timestamp unwrapping (TimestampMapper.map): the mapped timestamps are the running sums of the increments, from any origin
    TM = prog.cls("rtcrtpreceiver.TimestampMapper")
    tmap = prog.func("rtcrtpreceiver.TimestampMapper.map")

    def tm_case(increments: Tuple[int, ...]):
        def fn(_seq0: int, ts0: int):
            oh = make_hook(prog, None)
            ev_ = Evaluator(prog, prog.modules["rtcrtpreceiver"], None, {}, oh)
            tm = oh.instantiate(TM, [], {}, ev_)
            out = []
            ts = ts0
            for inc in (0,) + increments:
                ts = (ts + inc) % M32
                out.append(oh.run_method(tmap, tm, [ts], {}))
            return out
        return fn
    incs = [tuple([3000] * 12), tuple([1 << 30] * 9), (90000, 1, 3000, (1 << 31) - 1, 3000, (1 << 31) - 1, 3000, 3000, (1 << 31) - 5, 7, (1 << 31) - 1, 3000)]
    for k, inc in enumerate(incs):
        compare(f"timestamp unwrapping, increments #{k}", tm_case(inc), [(0, 0), (0, 500), (0, M32 - 6000), (0, M32 - 1), (0, 1 << 31)], tmap)
        # and the values themselves: running sums
        got = tm_case(inc)(0, M32 - 6000)
        want = [sum(inc[:i]) for i in range(len(inc) + 1)]
        if got == want:
            rep.ok(RULE, f"timestamp unwrapping, increments #{k}: running sums", sample=str(got[-3:]))
        else:
            bad = next(i for i, (a, b) in enumerate(zip(got, want)) if a != b)
            rep.fail(mk_finding(prog, PROP, RULE, tmap, tmap.node, f"[timestamp unwrapping, increments #{k}, first timestamp {M32 - 6000}] value #{bad} is mapped to {got[bad]}, the running sum of the increments is {want[bad]}",
                                construct=f"timestamp unwrapping #{k}"))
