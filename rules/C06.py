"""C06 — partially reliable channels drop only whole messages and never disturb others (necessary conditions).

Structural rules (syntax / call graph):
  C06-PAIR   every `X._abandoned = True` store is paired in the same block with `X._retransmit = False`, or X has just been
             taken from the outbound queue (never transmitted, _retransmit False since _send); every `_retransmit = True`
             store is guarded by `not self._maybe_abandon(X)`: an abandoned chunk is never (re)transmitted
  C06-ITER   _maybe_abandon() may append to _sent_queue, so every loop over _sent_queue whose body calls it iterates over a
             snapshot (`list(...)`) — a deque mutated during iteration raises RuntimeError in the SACK / T3 handlers
  C06-FIRST  a pending FORWARD-TSN is sent (and cleared) by _transmit before any DATA chunk; it is only built from the
             abandoned prefix of the sent queue; T3 is armed after sending it
Sibling agreement by evaluation of the function bodies with the checker's interpreter over enumerated queue shapes:
  C06-WHOLE  _maybe_abandon + _update_advanced_peer_ack_point: for every message layout (reliable prefix, abandoned message of
             1..4 fragments of which 1..k are sent, following message), every trigger fragment and ordered/unordered: exactly
             the fragments of that message — sent or still queued — are abandoned, nothing else is touched, the FORWARD-TSN
             covers exactly them and names (stream, seq) iff ordered; a reliable chunk is never abandoned
  C06-REPEAT _update_advanced_peer_ack_point rebuilds the FORWARD-TSN on every call while the peer's cumulative ack is behind the
             abandoned TSNs (the datagram carrying it can be lost) and stops once the peer has caught up
  C06-RECV   _receive_forward_tsn_chunk followed by the late arrival of the remaining chunks, for every subset of already
             received chunks of two messages on a reliable stream next to the abandoned message (same or other stream,
             ordered or unordered): the reliable messages are delivered exactly once, intact, in order
Does not decide: behaviour under fault schedules, timing of abandonment, interplay with congestion control.
"""
from __future__ import annotations

import ast
import itertools
from collections import deque
from types import SimpleNamespace
from typing import Any, Dict, List, Optional, Tuple

from engine.index import AnalysisError, Program, Unknown, unparse, walk_no_nested
from engine.peval import Evaluator, Raised
from engine.report import Report, mk_finding

from .objhook import make_hook

PROP = "C06"
M = "rtcsctptransport"
T = M + ".RTCSctpTransport"


def parents_of(root: ast.AST) -> Dict[int, ast.AST]:
    out: Dict[int, ast.AST] = {}
    for p in ast.walk(root):
        for ch in ast.iter_child_nodes(p):
            out[id(ch)] = p
    return out


def block_of(node: ast.AST, parents: Dict[int, ast.AST]) -> Tuple[List[ast.stmt], int]:
    cur = node
    while not isinstance(cur, ast.stmt):
        cur = parents[id(cur)]
    par = parents[id(cur)]
    for name in ("body", "orelse", "finalbody"):
        lst = getattr(par, name, None)
        if isinstance(lst, list) and any(x is cur for x in lst):
            return lst, next(i for i, x in enumerate(lst) if x is cur)
    raise AnalysisError("statement block not found")


def run(rep: Report, prog: Program, tier: str) -> None:
    rep.explanation = (
        "Static rules for the abandonment machinery of rtcsctptransport.py: pairing and iteration rules on the syntax tree, and "
        "evaluation of _maybe_abandon / _update_advanced_peer_ack_point / _receive_forward_tsn_chunk (their asts, by the checker's "
        "interpreter) over enumerated queue shapes against the specification 'exactly the abandoned message, nothing else'."
    )
    rep.assumptions += ["generators (pop_messages) are evaluated eagerly; their consumer in the analysed code does not feed back into them"]
    mod = prog.module(M)
    ci = prog.cls(T)
    meth = lambda n: prog.func(f"{T}.{n}")
    FIRST, LAST, UNORD = (prog.const(mod, n) for n in ("SCTP_DATA_FIRST_FRAG", "SCTP_DATA_LAST_FRAG", "SCTP_DATA_UNORDERED"))

    # ================================================================ C06-PAIR
    rep.rule("C06-PAIR", "an abandoned chunk is never (re)transmitted", min_instances=4)
    n_ab = n_rt = 0
    for fi in ci.methods.values():
        pm = parents_of(fi.node)
        for n in walk_no_nested(fi.node):
            if isinstance(n, ast.Assign) and isinstance(n.targets[0], ast.Attribute) and isinstance(n.value, ast.Constant) and n.value.value is True:
                attr, var = n.targets[0].attr, unparse(n.targets[0].value)
                blk, idx = block_of(n, pm)
                if attr == "_abandoned":
                    n_ab += 1
                    cleared = any(isinstance(s, ast.Assign) and unparse(s.targets[0]) == f"{var}._retransmit" and isinstance(s.value, ast.Constant) and s.value.value is False for s in blk)
                    fresh = any(isinstance(s, ast.Assign) and unparse(s.targets[0]) == var and isinstance(s.value, ast.Call) and unparse(s.value.func) == "self._outbound_queue.popleft"
                                for s in blk[:idx])
                    if cleared or fresh:
                        rep.ok("C06-PAIR", f"{fi.qualname}: {unparse(n)} @ line {n.lineno}", sample="_retransmit cleared in the same block" if cleared else "chunk taken from the outbound queue (never sent)")
                    else:
                        rep.fail(mk_finding(prog, PROP, "C06-PAIR", fi, n, f"`{var}` is marked abandoned but a pending retransmission of it is not cancelled in the same block: "
                                            f"the abandoned chunk would still be retransmitted", construct="_abandoned without _retransmit = False"))
                if attr == "_retransmit":
                    n_rt += 1
                    guard = False
                    cur: Any = n
                    while id(cur) in pm:
                        par = pm[id(cur)]
                        if isinstance(par, ast.If) and any(cur is b for b in par.body) and unparse(par.test) == f"not self._maybe_abandon({var})":
                            guard = True
                        cur = par
                    if guard:
                        rep.ok("C06-PAIR", f"{fi.qualname}: {unparse(n)} @ line {n.lineno}", sample=f"guarded by not self._maybe_abandon({var})")
                    else:
                        rep.fail(mk_finding(prog, PROP, "C06-PAIR", fi, n, f"`{var}` is scheduled for retransmission without asking _maybe_abandon({var}) first: the retransmission limit / "
                                            f"lifetime of a partially reliable message is not honoured", construct="_retransmit = True without abandon check"))
    if n_ab < 2 or n_rt < 2:
        raise AnalysisError(f"abandon / retransmit marking sites not found ({n_ab}, {n_rt})")

    # ================================================================ C06-ITER
    rep.rule("C06-ITER", "loops that may abandon chunks iterate over a snapshot of the sent queue", min_instances=2)
    ma = meth("_maybe_abandon")
    mutates = any(isinstance(n, ast.Call) and unparse(n.func) in ("self._sent_queue.append", "self._sent_queue.appendleft", "self._sent_queue.popleft", "self._sent_queue.remove",
                                                                     "self._sent_queue.insert", "self._sent_queue.clear") for n in walk_no_nested(ma.node))
    n_loops = 0
    for fi in ci.methods.values():
        if fi is ma:
            continue
        for n in walk_no_nested(fi.node):
            if isinstance(n, ast.For) and "self._sent_queue" in unparse(n.iter) and any(isinstance(c, ast.Call) and unparse(c.func) == "self._maybe_abandon" for b in n.body for c in ast.walk(b)):
                n_loops += 1
                snap = isinstance(n.iter, ast.Call) and unparse(n.iter.func) in ("list", "tuple") and unparse(n.iter.args[0]) == "self._sent_queue"
                if snap or not mutates:
                    rep.ok("C06-ITER", f"{fi.qualname}: for {unparse(n.target)} in {unparse(n.iter)}", sample="snapshot" if snap else "_maybe_abandon does not change the queue's membership")
                else:
                    rep.fail(mk_finding(prog, PROP, "C06-ITER", fi, n, "this loop iterates over the live _sent_queue while _maybe_abandon() can append to / remove from it: the deque "
                                        "raises RuntimeError (mutated during iteration) inside the SACK / T3 handler and the association stops working", construct="live iteration over _sent_queue"))
    if n_loops < 2:
        raise AnalysisError("loops calling _maybe_abandon over the sent queue not found")

    # ================================================================ C06-FIRST
    rep.rule("C06-FIRST", "FORWARD-TSN goes out before data and only covers the abandoned prefix", min_instances=3)
    tx = meth("_transmit")
    body = tx.node.body
    first_if = next((s for s in body if isinstance(s, ast.If)), None)
    data_loops = [s for s in body if isinstance(s, (ast.For, ast.While)) and any(isinstance(c, ast.Call) and unparse(c.func) == "self._send_chunk" for c in ast.walk(s))]
    ok = False
    if first_if is not None and unparse(first_if.test) == "self._forward_tsn_chunk is not None" and data_loops and body.index(first_if) < min(body.index(x) for x in data_loops):
        txt = [unparse(s) for s in first_if.body]
        sends = any("self._send_chunk(self._forward_tsn_chunk)" in t for t in txt)
        clears = any(t == "self._forward_tsn_chunk = None" for t in txt)
        from .common import timer_armers
        armers3 = timer_armers(prog, "3")
        arms = any(isinstance(c, ast.Call) and unparse(c.func) in armers3 for st_ in first_if.body for c in ast.walk(st_))
        ok = sends and clears and arms
    if ok:
        rep.ok("C06-FIRST", "_transmit: pending FORWARD-TSN is sent, cleared and T3 armed before any DATA chunk", sample=unparse(first_if.test))
    else:
        rep.fail(mk_finding(prog, PROP, "C06-FIRST", tx, first_if or tx.node, "_transmit does not send and clear the pending FORWARD-TSN (arming T3) before the DATA loops: the receiver "
                            "would keep waiting for abandoned TSNs", construct="FORWARD-TSN before data"))
    up = meth("_update_advanced_peer_ack_point")
    pops = [n for n in walk_no_nested(up.node) if isinstance(n, ast.While) and any(isinstance(c, ast.Call) and unparse(c.func) == "self._sent_queue.popleft" for c in ast.walk(n))]
    if len(pops) == 1 and unparse(pops[0].test) == "self._sent_queue and self._sent_queue[0]._abandoned":
        rep.ok("C06-FIRST", "_update_advanced_peer_ack_point: pops only the abandoned prefix", sample=unparse(pops[0].test))
    else:
        rep.fail(mk_finding(prog, PROP, "C06-FIRST", up, pops[0] if pops else up.node, "the peer ack point is advanced over chunks that are not an abandoned prefix of the sent queue",
                            construct="abandoned prefix"))
    builders = [fi.qualname for fi in prog.functions.values() for n in walk_no_nested(fi.node)
                if isinstance(n, ast.Assign) and unparse(n.targets[0]) == "self._forward_tsn_chunk" and isinstance(n.value, ast.Call)]
    if builders == [up.qualname]:
        rep.ok("C06-FIRST", "FORWARD-TSN is only built by _update_advanced_peer_ack_point", sample="who-may-write scan")
    else:
        rep.fail(mk_finding(prog, PROP, "C06-FIRST", up, up.node, f"FORWARD-TSN chunks are also built in {builders}", construct="FORWARD-TSN builders"))

    # ================================================================ evaluation glue (rules/sctpmodel.py)
    from .sctpmodel import build
    hook, chunk, message = build(prog)

    # ================================================================ C06-WHOLE
    rep.rule("C06-WHOLE", "abandonment covers exactly one whole message, sent and unsent fragments alike", min_instances=44)
    base_tsn = (1 << 32) - 3 if tier == "thorough" else 100
    sizes = (1, 2, 3, 4) if tier == "thorough" else (1, 2, 3)
    n_cases = 0
    layouts = []
    for nfrag, unordered, prefix in itertools.product(sizes, (False, True), (0, 1)):
        for nsent in range(1, nfrag + 1):
            for trig in range(nsent):
                layouts.append((nfrag, unordered, prefix, nsent, trig, 0, False))
                if nsent == nfrag and trig == 0:
                    # the reliable chunk right behind the abandoned message is gap-acked: it is not abandoned, the ack point must stop in front of it
                    layouts.append((nfrag, unordered, prefix, nsent, trig, 0, True))
            # the first fragment(s) were cumulatively acked and have left the sent queue before a later fragment ran out of retransmissions
            if not prefix:
                for nacked in range(1, nsent):
                    layouts.append((nfrag, unordered, prefix, nsent, nacked, nacked, False))
    for nfrag, unordered, prefix, nsent, trig, nacked, follow_acked in layouts:
        for _once in (0,):
            for _once2 in (0,):
                n_cases += 1
                tsn = base_tsn
                pre = message(tsn % (1 << 32), 7, 3, 2, False, None, "p") if prefix else []
                tsn += len(pre)
                target = message(tsn % (1 << 32), 5, 9, nfrag, unordered, 0, "m", nsent)
                for k, c in enumerate(target):
                    c.tsn = (tsn + k) % (1 << 32)
                tsn += nfrag
                follow = message(tsn % (1 << 32), 7, 4, 2, False, None, "f", 2 if nsent == nfrag else 0)
                sentq = deque(pre + target[nacked:nsent] + (follow if nsent == nfrag else []))
                outq = deque(target[nsent:] + ([] if nsent == nfrag else follow))
                if follow_acked:
                    follow[0]._acked = True
                for c in target[:nacked]:
                    c._acked = True
                sacked = (base_tsn - 1 + nacked) % (1 << 32)
                me = SimpleNamespace(__cls__=ci, _sent_queue=sentq, _outbound_queue=outq, _last_sacked_tsn=sacked, _advanced_peer_ack_tsn=sacked,
                                     _forward_tsn_chunk=None, _forward_tsn_pending=None, _forward_tsn_streams={}, _flight_size=0, delivered=[])
                label = (f"{nfrag} fragment(s), {nsent} sent, trigger #{trig}, {'unordered' if unordered else 'ordered'}, {'reliable prefix outstanding' if prefix else 'at the head'}"
                         + (f", first {nacked} fragment(s) already acknowledged" if nacked else "") + (", next reliable chunk gap-acked" if follow_acked else ""))
                try:
                    r = hook.run_method(ma, me, [target[trig]], {})
                    others_before = [(c._abandoned, c._retransmit) for c in pre + follow]
                    hook.run_method(up, me, [], {})
                    r_rel = hook.run_method(ma, me, [follow[0]], {}) if nsent == nfrag else False
                except Raised as ex:
                    rep.fail(mk_finding(prog, PROP, "C06-WHOLE", ma, getattr(ex, "node", None), f"[{label}] raises {ex.name}", construct=f"abandon raises {ex.name}"))
                    continue
                except Unknown as ex:
                    raise AnalysisError(f"C06-WHOLE cannot evaluate [{label}]: {ex}")
                problems = []
                if r is not True:
                    problems.append(f"_maybe_abandon returned {r!r} for a chunk past its retransmission limit")
                if not all(c._abandoned and not c._retransmit for c in target[nacked:]):
                    left = [i for i, c in enumerate(target) if not c._abandoned and i >= nacked]
                    problems.append(f"fragment(s) {left} of the abandoned message are not abandoned" + (" (still queued for transmission)" if any(target[i] in outq for i in left) else ""))
                if any(c._abandoned for c in pre + follow) or r_rel:
                    problems.append("a chunk of another (reliable) message was abandoned")
                if any(c in me._outbound_queue for c in target):
                    problems.append("unsent fragments of the abandoned message remain in the outbound queue and will be transmitted without their first fragment")
                if not prefix:
                    fwd = me._forward_tsn_chunk
                    if any(c in me._sent_queue for c in target):
                        problems.append("abandoned fragments at the head of the sent queue were not retired")
                    if nsent == nfrag and any(c not in me._sent_queue for c in follow):
                        problems.append("the peer ack point was advanced over a chunk of a reliable message (gap-acked, not cumulatively acked): the FORWARD-TSN tells the receiver to skip it")
                    if fwd is None or fwd.cumulative_tsn != target[-1].tsn:
                        problems.append(f"FORWARD-TSN covers up to {getattr(fwd, 'cumulative_tsn', None)}, the abandoned message ends at {target[-1].tsn}")
                    elif [tuple(x) for x in fwd.streams] != ([] if unordered else [(5, 9)]):
                        problems.append(f"FORWARD-TSN names streams {fwd.streams}; expected {[] if unordered else [(5, 9)]}")
                else:
                    if me._forward_tsn_chunk is not None or any(c not in me._sent_queue for c in pre):
                        problems.append("the peer ack point was advanced over an outstanding reliable chunk")
                if problems:
                    rep.fail(mk_finding(prog, PROP, "C06-WHOLE", ma, ma.node, f"[{label}] " + "; ".join(problems), construct="whole message: " + problems[0][:60]))
                else:
                    rep.ok("C06-WHOLE", label, sample="exactly the message's fragments abandoned; FORWARD-TSN exact" if not prefix else "exactly the message's fragments abandoned; nothing advanced")
    # a reliable chunk and a chunk within its limits are never abandoned
    for pol, cnt, want in ((None, 5, False), (3, 3, False), (3, 4, True), (0, 1, True)):
        c = chunk(7, 1, 0, FIRST | LAST, b"x", pol, cnt)
        me = SimpleNamespace(__cls__=ci, _sent_queue=deque([c]), _outbound_queue=deque(), _forward_tsn_chunk=None, _flight_size=0, delivered=[])
        try:
            r = hook.run_method(ma, me, [c], {})
        except (Raised, Unknown) as ex:
            raise AnalysisError(f"C06-WHOLE cannot evaluate the policy case {pol}/{cnt}: {ex}")
        if bool(r) == want and c._abandoned == want:
            rep.ok("C06-WHOLE", f"maxRetransmits={pol}, sent {cnt} time(s)", sample=f"abandoned={want}")
        else:
            rep.fail(mk_finding(prog, PROP, "C06-WHOLE", ma, ma.node, f"maxRetransmits={pol}, sent {cnt} time(s): abandoned={c._abandoned}, expected {want}", construct=f"policy {pol}/{cnt}"))

    # ================================================================ C06-REPEAT
    # "once the network recovers, messages sent afterwards on the same channel are delivered again": the datagram carrying the FORWARD-TSN
    # can be lost like any other, so the sender has to repeat it (on every SACK / T3 expiry, RFC 3758 3.5 A5/C3) until the peer's cumulative
    # ack has caught up with the advanced ack point - and stop then.
    rep.rule("C06-REPEAT", "a FORWARD-TSN is rebuilt until the peer's cumulative ack covers the abandoned TSNs, and not afterwards", min_instances=6)
    for unordered, nfrag in itertools.product((False, True), (1, 2)):
        label = f"{'unordered' if unordered else 'ordered'} abandoned message of {nfrag} fragment(s), FORWARD-TSN lost"
        target = message(100, 5, 9, nfrag, unordered, 0, "m", nfrag)
        follow = message(100 + nfrag, 5, 10, 1, unordered, 0, "f", 1)
        me = SimpleNamespace(__cls__=ci, _sent_queue=deque(target + follow), _outbound_queue=deque(), _last_sacked_tsn=99, _advanced_peer_ack_tsn=99,
                             _forward_tsn_chunk=None, _forward_tsn_pending=None, _forward_tsn_streams={}, _flight_size=0, delivered=[])
        try:
            hook.run_method(ma, me, [target[0]], {})
            hook.run_method(up, me, [], {})
            first = me._forward_tsn_chunk
            me._forward_tsn_chunk = None          # _transmit() sent it; the datagram is lost
            hook.run_method(up, me, [], {})       # the next SACK still reports cumulative TSN 99 (or T3 expires)
            again = me._forward_tsn_chunk
            me._forward_tsn_chunk = None
            me._last_sacked_tsn = 100 + nfrag - 1  # this time it arrived: the peer's cumulative ack covers the abandoned TSNs
            hook.run_method(up, me, [], {})
            after = me._forward_tsn_chunk
        except Raised as ex:
            rep.fail(mk_finding(prog, PROP, "C06-REPEAT", up, getattr(ex, "node", None), f"[{label}] raises {ex.name}", construct=f"repeat raises {ex.name}"))
            continue
        except Unknown as ex:
            raise AnalysisError(f"C06-REPEAT cannot evaluate [{label}]: {ex}")
        want_streams = [] if unordered else [(5, 9)]
        desc = lambda f: None if f is None else (f.cumulative_tsn, [tuple(x) for x in f.streams])  # noqa: E731
        if desc(again) != (100 + nfrag - 1, want_streams):
            rep.fail(mk_finding(prog, PROP, "C06-REPEAT", up, up.node,
                                f"[{label}] the peer still acknowledges TSN 99 but the FORWARD-TSN is not built again (got {desc(again)}, first one was {desc(first)}): if that one datagram is "
                                "lost the receiver never skips the abandoned message; everything sent later on the channel stays blocked / outstanding", construct="FORWARD-TSN not repeated"))
        else:
            rep.ok("C06-REPEAT", label + ": repeated while the peer is behind", sample=str(desc(again)))
        if after is not None:
            rep.fail(mk_finding(prog, PROP, "C06-REPEAT", up, up.node, f"[{label}] a FORWARD-TSN {desc(after)} is still built after the peer acknowledged the abandoned TSNs",
                                construct="FORWARD-TSN repeated after the ack"))
        else:
            rep.ok("C06-REPEAT", label + ": no FORWARD-TSN once the peer has caught up")

    # ================================================================ C06-RECV
    rep.rule("C06-RECV", "FORWARD-TSN at the receiver leaves other messages intact", min_instances=60)
    rf = meth("_receive_forward_tsn_chunk")
    rd = meth("_receive_data_chunk")
    IS = prog.cls(M + ".InboundStream")
    n_recv = 0
    for same_stream, r_unordered in itertools.product((False, True), (False, True)):
        # TSN 9: abandoned one-fragment message A.  TSN 10,11,12: message R (3 fragments).  TSN 13: message S (1 fragment).
        a_stream = 1 if same_stream else 2
        for mask in range(16):
            have = [t for i, t in enumerate((10, 11, 12, 13)) if mask >> i & 1]
            n_recv += 1
            label = (f"abandoned message on {'the same' if same_stream else 'another'} stream, reliable stream {'unordered' if r_unordered else 'ordered'}, "
                     f"already received {have or 'nothing'}")
            me = SimpleNamespace(__cls__=ci, _last_received_tsn=8, _sack_needed=False, _sack_duplicates=[], _sack_misordered=set(), _inbound_streams={}, _inbound_streams_max=65535,
                                 _advertised_rwnd=100000, delivered=[])
            r_seq = 1 if same_stream and not r_unordered else 0
            chunks = {}
            for i, t in enumerate((10, 11, 12)):
                fl = (UNORD if r_unordered else 0) | (FIRST if i == 0 else 0) | (LAST if i == 2 else 0)
                chunks[t] = chunk(t, 1, r_seq, fl, f"R{i}".encode())
            chunks[13] = chunk(13, 1, r_seq + 1, (UNORD if r_unordered else 0) | FIRST | LAST, b"S0")
            fwd = SimpleNamespace(cumulative_tsn=9, streams=([] if (same_stream and r_unordered) else [(a_stream, 0)]), flags=0)
            try:
                for t in have:
                    hook.run_method(rd, me, [chunks[t]], {})
                hook.run_method(rf, me, [fwd], {})
                for t in (10, 11, 12, 13):
                    if t not in have:
                        hook.run_method(rd, me, [chunks[t]], {})
                    if t == 11:
                        # the network duplicates the FORWARD-TSN: a copy arrives again later
                        hook.run_method(rf, me, [SimpleNamespace(cumulative_tsn=9, streams=list(fwd.streams), flags=0)], {})
                hook.run_method(rf, me, [SimpleNamespace(cumulative_tsn=9, streams=list(fwd.streams), flags=0)], {})
            except Raised as ex:
                rep.fail(mk_finding(prog, PROP, "C06-RECV", rf, getattr(ex, "node", None), f"[{label}] raises {ex.name}", construct=f"forward-tsn raises {ex.name}"))
                continue
            except Unknown as ex:
                raise AnalysisError(f"C06-RECV cannot evaluate [{label}]: {ex}")
            got = [(d[0], bytes(d[2])) for d in me.delivered]
            want = [(1, b"R0R1R2"), (1, b"S0")]
            good = got == want if not r_unordered else sorted(got) == sorted(want)
            if good and me._last_received_tsn == 13:
                rep.ok("C06-RECV", label, sample="R and S delivered once, intact" + ("" if r_unordered else ", in order"))
            else:
                rep.fail(mk_finding(prog, PROP, "C06-RECV", rf, rf.node,
                                    f"[{label}] the reliable stream delivered {got} (cumulative TSN {me._last_received_tsn}); expected {want}: abandoning a message "
                                    f"{'on another channel ' if not same_stream else ''}lost or blocked messages that were never abandoned", construct="receiver: " + ("same" if same_stream else "other") + " stream"))
    # duplicated FORWARD-TSN while the cumulative TSN is held back by a chunk of another stream
    for unordered2 in (False, True):
        label = f"duplicate FORWARD-TSN while an unrelated chunk is missing (other stream {'unordered' if unordered2 else 'ordered'})"
        me = SimpleNamespace(__cls__=ci, _last_received_tsn=8, _sack_needed=False, _sack_duplicates=[], _sack_misordered=set(), _inbound_streams={}, _inbound_streams_max=65535,
                             _advertised_rwnd=100000, delivered=[])
        x = chunk(10, 2, 0, (UNORD if unordered2 else 0) | FIRST | LAST, b"X0")
        r1 = chunk(11, 1, 1, FIRST | LAST, b"R1")
        r2 = chunk(12, 1, 2, FIRST | LAST, b"R2")
        mk_fwd = lambda: SimpleNamespace(cumulative_tsn=9, streams=[(1, 0)], flags=0)  # noqa: E731
        try:
            hook.run_method(rf, me, [mk_fwd()], {})
            hook.run_method(rd, me, [r1], {})
            hook.run_method(rf, me, [mk_fwd()], {})
            hook.run_method(rd, me, [r2], {})
            hook.run_method(rd, me, [x], {})
        except Raised as ex:
            rep.fail(mk_finding(prog, PROP, "C06-RECV", rf, getattr(ex, "node", None), f"[{label}] raises {ex.name}", construct=f"forward-tsn raises {ex.name}"))
            continue
        except Unknown as ex:
            raise AnalysisError(f"C06-RECV cannot evaluate [{label}]: {ex}")
        got = [(d[0], bytes(d[2])) for d in me.delivered]
        if [g for g in got if g[0] == 1] == [(1, b"R1"), (1, b"R2")] and (2, b"X0") in got and len(got) == 3:
            rep.ok("C06-RECV", label, sample="the duplicate is ignored; R1, R2 and X delivered once")
        else:
            rep.fail(mk_finding(prog, PROP, "C06-RECV", rf, rf.node, f"[{label}] delivered {got}; expected R1 and R2 on stream 1 and X on stream 2, each once: a duplicated FORWARD-TSN "
                                f"rewound the stream's expected sequence number", construct="receiver: duplicate FORWARD-TSN"))
    # a repeated / later FORWARD-TSN still lists a stream whose abandoned message the receiver has long skipped: no rewind
    label = "later FORWARD-TSN repeats an old (stream, sequence) entry"
    me = SimpleNamespace(__cls__=ci, _last_received_tsn=8, _sack_needed=False, _sack_duplicates=[], _sack_misordered=set(), _inbound_streams={}, _inbound_streams_max=65535,
                         _advertised_rwnd=100000, delivered=[])
    try:
        hook.run_method(rf, me, [SimpleNamespace(cumulative_tsn=9, streams=[(1, 0)], flags=0)], {})
        hook.run_method(rd, me, [chunk(10, 1, 1, FIRST | LAST, b"R1")], {})
        hook.run_method(rd, me, [chunk(11, 1, 2, FIRST | LAST, b"R2")], {})
        hook.run_method(rf, me, [SimpleNamespace(cumulative_tsn=13, streams=[(1, 0), (2, 0)], flags=0)], {})
        hook.run_method(rd, me, [chunk(14, 1, 3, FIRST | LAST, b"R3")], {})
        got = [(d[0], bytes(d[2])) for d in me.delivered]
        n_recv += 1
        if got == [(1, b"R1"), (1, b"R2"), (1, b"R3")]:
            rep.ok("C06-RECV", label, sample="the stream's expected sequence number is not moved backwards")
        else:
            rep.fail(mk_finding(prog, PROP, "C06-RECV", rf, rf.node, f"[{label}] delivered {got}; expected R1, R2, R3: the entry (1, 0) of the second FORWARD-TSN rewound stream 1 "
                                "behind messages already delivered, the next message waits for ever", construct="receiver: FORWARD-TSN rewinds a stream"))
    except Raised as ex:
        rep.fail(mk_finding(prog, PROP, "C06-RECV", rf, getattr(ex, "node", None), f"[{label}] raises {ex.name}", construct=f"forward-tsn raises {ex.name}"))
    except Unknown as ex:
        raise AnalysisError(f"C06-RECV cannot evaluate [{label}]: {ex}")
    # the sender's T3 abandoned a lost message together with a later one that the receiver already holds complete; afterwards order still matters
    for order in ((14, 15), (15, 14)):
        label = f"FORWARD-TSN covers a message the receiver holds complete; later messages arrive in TSN order {list(order)}"
        me = SimpleNamespace(__cls__=ci, _last_received_tsn=8, _sack_needed=False, _sack_duplicates=[], _sack_misordered=set(), _inbound_streams={}, _inbound_streams_max=65535,
                             _advertised_rwnd=100000, delivered=[])
        later = {14: chunk(14, 1, 2, FIRST | LAST, b"M4"), 15: chunk(15, 1, 3, FIRST | LAST, b"M5")}
        try:
            hook.run_method(rd, me, [chunk(10, 1, 1, FIRST | LAST, b"M3")], {})       # TSN 9 (sequence 0) is lost, M3 waits behind it
            hook.run_method(rf, me, [SimpleNamespace(cumulative_tsn=10, streams=[(1, 1)], flags=0)], {})
            for t in order:
                hook.run_method(rd, me, [later[t]], {})
        except Raised as ex:
            rep.fail(mk_finding(prog, PROP, "C06-RECV", rf, getattr(ex, "node", None), f"[{label}] raises {ex.name}", construct=f"forward-tsn raises {ex.name}"))
            continue
        except Unknown as ex:
            raise AnalysisError(f"C06-RECV cannot evaluate [{label}]: {ex}")
        got = [bytes(d[2]) for d in me.delivered]
        n_recv += 1
        if got in ([b"M3", b"M4", b"M5"], [b"M4", b"M5"]):
            rep.ok("C06-RECV", label, sample=f"delivered {got}")
        else:
            rep.fail(mk_finding(prog, PROP, "C06-RECV", rf, rf.node, f"[{label}] delivered {got}; on an ordered channel whatever is delivered has to come in sending order (M3?, M4, M5)",
                                construct="receiver: order lost after a FORWARD-TSN over a held message"))
    # the abandoned message itself was partly received: its fragments must go, the next message on the same channel must come out
    for a_unordered, mask, n_frag in itertools.product((False, True), (1, 2, 3), (1, 2)):
        have = [t for i, t in enumerate((9, 10)) if mask >> i & 1]
        label = (f"{'unordered' if a_unordered else 'ordered'} abandoned message of 3 fragments, fragment(s) {have} received, last one lost; "
                 f"next message on the channel has {n_frag} fragment(s)")
        me = SimpleNamespace(__cls__=ci, _last_received_tsn=8, _sack_needed=False, _sack_duplicates=[], _sack_misordered=set(), _inbound_streams={}, _inbound_streams_max=65535,
                             _advertised_rwnd=100000, delivered=[])
        un = UNORD if a_unordered else 0
        a = {9: chunk(9, 1, 0, un | FIRST, b"A0"), 10: chunk(10, 1, 0, un, b"A1")}
        nxt = [chunk(12 + i, 1, 1, un | (FIRST if i == 0 else 0) | (LAST if i == n_frag - 1 else 0), f"N{i}".encode()) for i in range(n_frag)]
        try:
            for t in have:
                hook.run_method(rd, me, [a[t]], {})
            hook.run_method(rf, me, [SimpleNamespace(cumulative_tsn=11, streams=[] if a_unordered else [(1, 0)], flags=0)], {})
            for c in nxt:
                hook.run_method(rd, me, [c], {})
        except Raised as ex:
            rep.fail(mk_finding(prog, PROP, "C06-RECV", rf, getattr(ex, "node", None), f"[{label}] raises {ex.name}", construct=f"forward-tsn raises {ex.name}"))
            continue
        except Unknown as ex:
            raise AnalysisError(f"C06-RECV cannot evaluate [{label}]: {ex}")
        got = [(d[0], bytes(d[2])) for d in me.delivered]
        want = [(1, b"".join(bytes(c.user_data) for c in nxt))]
        stale = [c.tsn for st in me._inbound_streams.values() for c in st.reassembly if c.tsn <= 11]
        n_recv += 1
        if got == want and not stale and me._advertised_rwnd == 100000:
            rep.ok("C06-RECV", label, sample="fragments of the abandoned message dropped, window restored, the next message delivered")
        else:
            rep.fail(mk_finding(prog, PROP, "C06-RECV", rf, rf.node,
                                f"[{label}] delivered {got}, expected {want}; fragments of the abandoned message still queued: {stale}; advertised window {me._advertised_rwnd} (100000 before): "
                                "the remains of an abandoned message block or leak on its channel", construct="receiver: abandoned message partly received"))
    if n_cases < 20 or n_recv < 60:
        raise AnalysisError("evaluation families are smaller than expected")

    from .sctploop import loop_rule
    loop_rule(rep, prog, PROP, "C06-LOOP", tier)

    # ---------------- C06-POLICY (rules/C13life.py): per-channel reliability parameters at the hand-over to _send()
    from .C13life import run_policy
    run_policy(rep, prog, PROP, "C06-POLICY")

    # ---------------- C06-SERIAL: TSNs and stream sequence numbers wrap; FORWARD-TSN pruning and the advanced-peer-ack point compare them (C17 rule set on this module)
    from .common import serial_subrule
    serial_subrule(rep, prog, tier, PROP, "C06-SERIAL", ["rtcsctptransport"], 30, "serial-number discipline (C17 rule set) in rtcsctptransport.py")
