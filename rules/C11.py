"""C11 — video frames reach the decoder unspliced; lost packets are recovered by NACK/RTX.

  C11-NACK   every path of NackGenerator.add that can add to `missing` reaches truncate(); the NACK window, the sender's
             history store and its lookup all use the same constant RTP_HISTORY_SIZE; a retransmission is only sent for the
             exact sequence number asked for
  C11-RTX    unwrap_rtx is dominated by the payload-length, apt and SSRC-mapping checks; after unwrapping, the codec used for
             depayloading is the media codec; wrap_rtx/unwrap_rtx are inverse (evaluation, see C07-RTP)
  C11-ORDER  statistics see the wire packet, NACK generation and the jitter buffer see the unwrapped packet
  C11-SERIAL serial-number discipline (C17 rule set) in rtcrtpreceiver.py / rtcrtpsender.py / rtp.py
  C11-FEEDBACK / C11-JB  shared rules: NACK wire format and RTX wrapping (C07-NACK, C07-RTP), jitter-buffer frame integrity
             (C10-FRAMES, C10-OVERFLOW)
Does not decide: eventual delivery, byte identity of decoder input under loss schedules.
"""
from __future__ import annotations

import ast
from typing import List

from engine.events import EventsDomain, EvState
from engine.index import AnalysisError, Program, unparse, walk_no_nested
from engine.report import Report, mk_finding

PROP = "C11"
R = "rtcrtpreceiver.RTCRtpReceiver"
S = "rtcrtpsender.RTCRtpSender"


def run(rep: Report, prog: Program, tier: str) -> None:
    rep.explanation = (
        "Structural necessary conditions of NACK/RTX recovery: must-event analysis for the bounded missing set and the guards of the RTX "
        "unwrap, constant identity across the three uses of the history size, statement-order/def-use rules for which packet and codec "
        "feed which stage, and the serial-number qualifier analysis of C17 on the three modules."
    )
    # ---------------- C11-NACK
    rep.rule("C11-NACK", "bounded NACK window tied to the sender history", min_instances=5)
    add = prog.func("rtcrtpreceiver.NackGenerator.add")

    def ev_of(node, f):
        if isinstance(node, ast.Call) and unparse(node.func) == "self.missing.add":
            return ["added"]
        if isinstance(node, ast.Call) and unparse(node.func) == "self.truncate":
            return ["truncated"]
        return []

    act = EventsDomain(prog, ev_of).run(add)
    first_add = min((n.lineno for n in walk_no_nested(add.node) if isinstance(n, ast.Call) and unparse(n.func) == "self.missing.add"), default=10 ** 9)
    ret_lines = {id(n.value): n.lineno for n in walk_no_nested(add.node) if isinstance(n, ast.Return) and n.value is not None}
    # an exit that precedes every missing.add() in program order cannot have added anything
    bad = [n for st, n in act.returns if "truncated" not in st.events and not (n is not None and ret_lines.get(id(n), 10 ** 9) < first_add)]
    if bad:
        rep.fail(mk_finding(prog, PROP, "C11-NACK", add, add.node, "add() can return without truncate(): the missing set (and the NACK) can grow beyond the retransmission history",
                            construct="nack truncate on all paths"))
    else:
        rep.ok("C11-NACK", "NackGenerator.add: truncate() on every path past the first packet", sample=f"{len(act.returns)} exits examined")
    trunc = prog.func("rtcrtpreceiver.NackGenerator.truncate")
    t_src = unparse(trunc.node)
    uses = {
        "truncate window": any(isinstance(n, ast.Name) and n.id == "RTP_HISTORY_SIZE" for n in ast.walk(trunc.node)),
    }

    def mod_hist(e: ast.AST) -> bool:
        return isinstance(e, ast.BinOp) and isinstance(e.op, ast.Mod) and isinstance(e.right, ast.Name) and e.right.id == "RTP_HISTORY_SIZE" \
            and "sequence_number" in unparse(e.left)
    run_rtp = prog.func(S + "._run_rtp")
    rt = prog.func(S + "._retransmit")
    store = [n.slice for n in walk_no_nested(run_rtp.node) if isinstance(n, ast.Subscript) and isinstance(n.ctx, ast.Store) and unparse(n.value) == "self.__rtp_history"]
    look = [n.args[0] for n in walk_no_nested(rt.node) if isinstance(n, ast.Call) and unparse(n.func) == "self.__rtp_history.get"]
    uses["history store index"] = len(store) == 1 and mod_hist(store[0])
    uses["history lookup index"] = len(look) == 1 and mod_hist(look[0])
    same_const = prog.const(prog.module("rtcrtpreceiver"), "RTP_HISTORY_SIZE") == prog.const(prog.module("rtcrtpsender"), "RTP_HISTORY_SIZE") == prog.const(prog.module("rtp"), "RTP_HISTORY_SIZE")
    uses["one constant (128)"] = same_const and prog.const(prog.module("rtp"), "RTP_HISTORY_SIZE") == 128
    # the video jitter buffer has to keep a hole open for as long as the NACK window / sender history can still fill it
    rinit = prog.func(R + ".__init__")
    caps = []
    for n_ in walk_no_nested(rinit.node):
        if isinstance(n_, ast.Call) and unparse(n_.func) == "JitterBuffer":
            kw_ = {k.arg: k.value for k in n_.keywords}
            if "is_video" in kw_ and getattr(kw_["is_video"], "value", None) is True:
                cexp = kw_.get("capacity") or (n_.args[0] if n_.args else None)
                try:
                    from engine.peval import Evaluator as _EvC
                    caps.append((n_, _EvC(prog, rinit.module, None, {}).ev(cexp)))
                except Exception:
                    caps.append((n_, None))
    if not caps:
        raise AnalysisError("RTCRtpReceiver.__init__: construction of the video JitterBuffer not found")
    hist_n = prog.const(prog.module("rtp"), "RTP_HISTORY_SIZE")
    uses["video jitter buffer capacity >= NACK window"] = all(isinstance(c, int) and c >= hist_n for _, c in caps)
    for what, ok in uses.items():
        if ok:
            rep.ok("C11-NACK", what, sample="RTP_HISTORY_SIZE")
        else:
            rep.fail(mk_finding(prog, PROP, "C11-NACK", trunc if "truncate" in what else rt, None, (f"{what}: the NACK window and the sender history no longer use the same bound" if "jitter" not in what else
                                                                                                    f"the video jitter buffer holds {[c for _, c in caps]} packets but a retransmission may answer a NACK up to {hist_n} packets "
                                                                                                    "after the loss: the buffer overflows first, discards the frame with the hole (and the complete one before it) and the "
                                                                                                    "retransmission lands behind the origin"), construct=what))
    # _retransmit evaluated: the slot a sequence number maps to may be empty or hold a packet that is 128 (a multiple of the history size) away
    from types import SimpleNamespace as _NSr

    from engine.index import Unknown as _UnkR
    from engine.peval import Evaluator as _EvR, Raised as _RsR

    from .objhook import make_hook as _mkhR
    sent_r: List = []

    def _extra_r(call, ev):
        nm = unparse(call.func)
        if nm.endswith("transport._send_rtp"):
            sent_r.append(ev.ev(call.args[0]))
            return None
        if nm.endswith(".serialize"):
            return ev.ev(call.func.value)
        if nm.endswith("__log_debug"):
            return None
        return NotImplemented
    ohr = _mkhR(prog, _extra_r)
    evr = _EvR(prog, rt.module, None, {}, ohr)
    hsize = prog.const(prog.module("rtcrtpsender"), "RTP_HISTORY_SIZE")
    for label, stored_seq, asked, want_sent in (("the slot holds the packet asked for", 300, 300, True), ("the slot is empty", None, 300, False),
                                               ("the slot holds a packet one history length older", 300 - hsize, 300, False),
                                               ("the slot holds a packet one history length newer", 300 + hsize, 300, False),
                                               ("across the wrap: asked for 5, the slot holds 65413 + 128", (5 - hsize) % 65536, 5, False)):
        del sent_r[:]
        me = _NSr(__cls__=rt.cls, _ssrc=1000, _rtx_ssrc=2000, transport=_NSr())
        hist = {}
        if stored_seq is not None:
            pk = ohr.instantiate(prog.cls("rtp.RtpPacket"), [], dict(payload_type=96, sequence_number=stored_seq % 65536, timestamp=1, ssrc=1000, payload=b"x"), evr)
            hist[(stored_seq % 65536) % hsize] = pk
        for k_, v_ in {"__rtp_history": hist, "__rtx_payload_type": None, "__rtx_sequence_number": 0, "__rtp_header_extensions_map": _NSr()}.items():
            setattr(me, k_, v_)
        try:
            ohr.run_method(rt, me, [asked], {})
        except _RsR as ex:
            rep.fail(mk_finding(prog, PROP, "C11-NACK", rt, getattr(ex, "node", None), f"_retransmit({asked}) when {label}: raises {ex.name}", construct=f"retransmit raises {ex.name}"))
            continue
        except _UnkR as ex:
            raise AnalysisError(f"C11-NACK cannot evaluate _retransmit ({label}): {ex}")
        ok_r = (len(sent_r) == 1 and sent_r[0].sequence_number == asked) if want_sent else not sent_r
        if ok_r:
            rep.ok("C11-NACK", f"_retransmit when {label}", sample="sent" if want_sent else "nothing sent")
        else:
            rep.fail(mk_finding(prog, PROP, "C11-NACK", rt, rt.node, f"_retransmit({asked}) when {label}: sent {[p.sequence_number for p in sent_r]}; a history slot must only be retransmitted when it holds "
                                "exactly the sequence number that was asked for", construct="retransmit of a stale history slot"))

    # ---------------- C11-RTX
    rep.rule("C11-RTX", "RTX unwrap guards and codec", min_instances=3)
    h = prog.func(R + "._handle_rtp_packet")
    sites = []

    def ob2(node, st: EvState, f):
        if isinstance(node, ast.Call) and unparse(node.func) == "unwrap_rtx":
            neg = {g for g, t in st.guards if not t}
            pos = {g for g, t in st.guards if t}
            sites.append((node, neg, pos))

    EventsDomain(prog, lambda n, f: [], ob2).run(h)
    if not sites:
        raise AnalysisError("unwrap_rtx call not found in _handle_rtp_packet")
    for node, neg, pos in sites:
        need = {"len(packet.payload) < 2": "payload long enough for the OSN", "apt not in self.__codecs": "associated payload type known",
                "original_ssrc is None": "RTX SSRC mapped to a media SSRC"}
        miss = [why for g, why in need.items() if g not in neg]
        if "is_rtx(codec)" not in pos:
            miss.append("inside the is_rtx(codec) branch")
        if miss:
            rep.fail(mk_finding(prog, PROP, "C11-RTX", h, node, f"unwrap_rtx is not dominated by: {miss}"))
        else:
            rep.ok("C11-RTX", "unwrap_rtx dominated by the length, apt and SSRC-mapping checks", sample="must-event guards")
    blk = None
    for n in walk_no_nested(h.node):
        if isinstance(n, ast.If) and unparse(n.test) == "is_rtx(codec)":
            blk = n
    if blk is None:
        raise AnalysisError("is_rtx(codec) branch not found")
    texts = [unparse(s) for s in blk.body]
    iu = next((i for i, t in enumerate(texts) if "unwrap_rtx(" in t), -1)
    ic = next((i for i, st_ in enumerate(blk.body) if isinstance(st_, ast.Assign) and unparse(st_.targets[0]) == "codec"
               and isinstance(st_.value, ast.Subscript) and unparse(st_.value.value) == "self.__codecs" and unparse(st_.value.slice) == "apt"), -1)
    if iu >= 0 and ic > iu and "payload_type=apt" in texts[iu] and texts[iu].startswith("packet = "):
        rep.ok("C11-RTX", "after unwrap_rtx the packet is the original one and the codec is the media codec (self.__codecs[apt])", sample=texts[ic])
    else:
        rep.fail(mk_finding(prog, PROP, "C11-RTX", h, blk,
                            "after an RTX packet is unwrapped the codec is not switched to the associated media codec: the recovered packet is "
                            "depayloaded with the rtx codec and its payload descriptor is spliced into the frame", construct="rtx codec switch"))
    dp = [n for n in walk_no_nested(h.node) if isinstance(n, ast.Call) and unparse(n.func) == "depayload"]
    qp = [n for n in walk_no_nested(h.node) if isinstance(n, ast.Call) and unparse(n.func) == "self.__decoder_queue.put"]
    if dp and unparse(dp[0].args[0]) == "codec" and unparse(dp[0].args[1]) == "packet.payload" and qp and unparse(qp[0].args[0]).startswith("(codec, "):
        rep.ok("C11-RTX", "depayload and the decoder queue use that codec and packet", sample=unparse(dp[0]))
    else:
        rep.fail(mk_finding(prog, PROP, "C11-RTX", h, dp[0] if dp else None, "depayload / decoder queue do not use the (switched) codec and packet", construct="depayload codec"))

    # ---------------- C11-ORDER
    rep.rule("C11-ORDER", "which packet feeds which stage", min_instances=3)
    top = [unparse(s) for s in h.node.body]

    def pos(pred) -> int:
        return next((i for i, t in enumerate(top) if pred(t)), -1)

    i_stats = pos(lambda t: t.startswith("self.__remote_streams[packet.ssrc].add(packet)"))
    i_rtx = pos(lambda t: t.startswith("if is_rtx(codec):"))
    i_nack = pos(lambda t: "self.__nack_generator.add(packet)" in t)
    i_jb = pos(lambda t: "self.__jitter_buffer.add(packet)" in t)
    checks = [(0 <= i_stats < i_rtx, "receiver statistics see the wire packet (before RTX unwrapping)"),
              (0 <= i_rtx < i_nack, "NACK generation sees the unwrapped packet"),
              (0 <= i_nack < i_jb, "the jitter buffer sees the unwrapped, depayloaded packet")]
    for ok, what in checks:
        if ok:
            rep.ok("C11-ORDER", what, sample="top-level statement order of _handle_rtp_packet")
        else:
            rep.fail(mk_finding(prog, PROP, "C11-ORDER", h, h.node, f"not established: {what}", construct="order: " + what))

    # ---------------- C11-SERIAL
    from . import C17
    from engine.index import AnalysisError as AE
    sub = Report("C17", tier, 0)
    saved = C17.MODULES
    try:
        C17.MODULES = ["rtcrtpreceiver", "rtcrtpsender", "rtp", "jitterbuffer"]
        try:
            C17.run(sub, prog, tier)
        except AE:
            pass
    finally:
        C17.MODULES = saved
    rep.rule("C11-SERIAL", "serial discipline in receiver / sender / rtp", min_instances=10)
    n_ok = sum(r["discharged"] for k, r in sub.rules.items() if k != "C17-HELPERS")
    for f in sub.findings:
        f.property = PROP
        f.rule = "C11-SERIAL/" + f.rule
        rep.fail(f)
    rep.rules["C11-SERIAL"]["instances"] += n_ok
    rep.rules["C11-SERIAL"]["discharged"] += n_ok
    rep.obligations += n_ok
    rep.discharged += n_ok
    rep.samples.extend(sub.samples[:2])

    # ---------------- shared rules: NACK wire format (C07-NACK), RTX wrapping (C07-RTP), jitter buffer integrity (C10-FRAMES / C10-OVERFLOW)
    from .common import import_rules
    import_rules(rep, prog, tier, PROP, "C11-FEEDBACK", "C07", ["C07-NACK", "C07-RTP"],
                 "the NACK the receiver sends denotes, after parsing at the sender, exactly the lost sequence numbers; RTX wrapping is invertible (rules C07-NACK, C07-RTP)", 30)
    import_rules(rep, prog, tier, PROP, "C11-JB", "C10", ["C10-FRAMES", "C10-OVERFLOW", "C10-ACCEPT"],
                 "the jitter buffer hands over whole frames in sending order, tails only right after a discard; media packets and unwrapped retransmissions "
                 "reach it exactly once under their original numbers (rules C10-FRAMES, C10-OVERFLOW, C10-ACCEPT)", 100)

    # ---------------- C11-SEQALLOC: every RTP / RTX sequence number handed out is followed by advancing its counter (modulo 2^16)
    rep.rule("C11-SEQALLOC", "sequence-number counters of the sender are advanced after each use", min_instances=2)
    n_alloc = 0
    for fi in prog.cls(S).methods.values():
        parents: dict = {}
        for p_ in ast.walk(fi.node):
            for ch in ast.iter_child_nodes(p_):
                parents[id(ch)] = p_
        for n in walk_no_nested(fi.node):
            # an allocation: RtpPacket(..., sequence_number=<counter>) or <packet>.sequence_number = <counter>
            if isinstance(n, ast.Assign) and isinstance(n.targets[0], ast.Attribute) and n.targets[0].attr == "sequence_number" and isinstance(n.value, (ast.Name, ast.Attribute)):
                n = ast.keyword(arg="sequence_number", value=n.value)
                parents[id(n.value)] = parents.get(id(n.value)) or fi.node
                parents[id(n)] = parents[id(n.value)]
            if not (isinstance(n, ast.keyword) and n.arg == "sequence_number"):
                continue
            src = unparse(n.value)
            if not (src == "sequence_number" or src.endswith("_sequence_number")) or src == "packet.sequence_number":
                continue
            # counters only: a value that is (re)assigned from uint16_add(itself, 1) somewhere in this function
            incs = [a for a in walk_no_nested(fi.node) if isinstance(a, ast.Assign) and unparse(a.targets[0]) == src and isinstance(a.value, ast.Call)
                    and unparse(a.value.func) == "uint16_add" and len(a.value.args) == 2 and unparse(a.value.args[0]) == src and prog.try_const(a.value.args[1], fi.module) == 1]
            plain = [a for a in walk_no_nested(fi.node) if isinstance(a, (ast.Assign, ast.AugAssign)) and unparse(a.targets[0] if isinstance(a, ast.Assign) else a.target) == src]
            if not plain and not incs and src == "sequence_number" and src in [p.arg for p in fi.pos_params]:
                continue  # a parameter that is merely passed on
            n_alloc += 1
            cur = n
            while not isinstance(cur, ast.stmt):
                cur = parents[id(cur)]
            # the increment must come after the use inside the same loop body / block nest (no path skips it): accept an increment
            # statement that follows the using statement in the same statement list or in an enclosing list of the same loop
            ok = False
            node = cur
            while id(node) in parents and not ok:
                par = parents[id(node)]
                for name in ("body", "orelse", "finalbody"):
                    lst = getattr(par, name, None)
                    if isinstance(lst, list) and any(x is node for x in lst):
                        idx = next(i for i, x in enumerate(lst) if x is node)
                        if any(any(a is y for y in ast.walk(later)) for later in lst[idx + 1:] for a in incs if isinstance(later, ast.stmt) and not isinstance(later, (ast.If, ast.Try))) or \
                           any(a is later for later in lst[idx + 1:] for a in incs):
                            ok = True
                if isinstance(par, (ast.FunctionDef, ast.AsyncFunctionDef, ast.For, ast.While)):
                    break
                node = par
            what = f"{fi.qualname}: sequence_number={src} @ line {n.value.lineno}"
            if ok:
                rep.ok("C11-SEQALLOC", what, sample=f"followed by {src} = uint16_add({src}, 1)")
            else:
                rep.fail(mk_finding(prog, PROP, "C11-SEQALLOC", fi, cur, f"`{src}` is used as the sequence number of an outgoing packet but is not advanced afterwards: every packet carries the same "
                                    f"number, and the receiver's SRTP replay protection drops all but the first (retransmissions are never recovered)", construct=f"{src} not advanced"))
    if n_alloc < 2:
        raise AnalysisError("sequence number allocation sites of the sender not found")

    # ---------------- C11-HISTORY: every slot of the retransmission history holds its own packet object
    # (the history stores references; a packet object that is re-used for the next packet overwrites what an earlier slot would retransmit)
    rep.rule("C11-HISTORY", "the packet stored in the retransmission history is created in the same loop iteration that stores it", min_instances=1)
    n_hist = 0
    for fi in prog.cls(S).methods.values():
        parents = {}
        for p_ in ast.walk(fi.node):
            for ch in ast.iter_child_nodes(p_):
                parents[id(ch)] = p_
        for st in walk_no_nested(fi.node):
            if not (isinstance(st, ast.Assign) and isinstance(st.targets[0], ast.Subscript) and unparse(st.targets[0].value) == "self.__rtp_history" and isinstance(st.value, ast.Name)):
                continue
            n_hist += 1
            var = st.value.id
            loop = st
            while id(loop) in parents and not isinstance(loop, (ast.For, ast.AsyncFor, ast.While)):
                loop = parents[id(loop)]
            scope = loop if isinstance(loop, (ast.For, ast.AsyncFor, ast.While)) else fi.node
            made_here = [a for b in scope.body for a in ast.walk(b) if isinstance(a, ast.Assign) and unparse(a.targets[0]) == var and isinstance(a.value, ast.Call)]
            what = f"{fi.qualname}: self.__rtp_history[...] = {var}"
            if made_here or scope is fi.node:
                rep.ok("C11-HISTORY", what, sample=f"{var} = {unparse(made_here[0].value.func) if made_here else '...'}(...) inside the same loop body")
            else:
                rep.fail(mk_finding(prog, PROP, "C11-HISTORY", fi, st, f"`{var}` is stored in the retransmission history inside a loop but created outside it: all the slots filled by this loop hold one object, "
                                    "which ends up carrying the last sequence number and payload; a NACK for any earlier packet finds a packet with another number and is not answered",
                                    construct=f"history stores a shared {var}"))
    if n_hist < 1:
        raise AnalysisError("C11-HISTORY: the store into the retransmission history was not found")

    # ---------------- C11-RTXPT: the sender retransmits with the RTX payload type that belongs to the codec it encodes with
    rep.rule("C11-RTXPT", "the RTX payload type chosen by RTCRtpSender.send is the one whose apt is the encoding codec's payload type", min_instances=5)
    from types import SimpleNamespace as _NS

    from engine.index import Unknown as _Unk
    from engine.peval import Evaluator as _Ev, Raised as _Rs

    from .objhook import make_hook as _mkh
    send_f = prog.func(S + ".send")
    sel = [n for n in ast.walk(send_f.node) if isinstance(n, ast.For) and any(isinstance(x, ast.Assign) and unparse(x.targets[0]) == "self.__rtx_payload_type" for x in ast.walk(n))]
    if len(sel) != 1:
        raise AnalysisError("RTCRtpSender.send: the loop selecting __rtx_payload_type was not found")
    run_rtp_calls = [n for n in ast.walk(send_f.node) if isinstance(n, ast.Call) and unparse(n.func).endswith("_run_rtp") and n.args]
    if not run_rtp_calls or unparse(run_rtp_calls[0].args[0]) != "parameters.codecs[0]":
        raise AnalysisError("RTCRtpSender.send: the encoding codec is no longer parameters.codecs[0]; the C11-RTXPT oracle does not apply")

    def cdc(name, pt, apt=None):
        return _NS(name=name, mimeType="video/" + name, payloadType=pt, clockRate=90000, parameters=({} if apt is None else {"apt": apt}))
    layouts = [
        ("[VP8 96, rtx 97 (apt 96)]", [cdc("VP8", 96), cdc("rtx", 97, 96)], 97),
        ("[VP8 96, rtx 97 (apt 96), H264 98, rtx 99 (apt 98)]", [cdc("VP8", 96), cdc("rtx", 97, 96), cdc("H264", 98), cdc("rtx", 99, 98)], 97),
        ("[VP8 96, H264 98, rtx 99 (apt 98), rtx 97 (apt 96)]", [cdc("VP8", 96), cdc("H264", 98), cdc("rtx", 99, 98), cdc("rtx", 97, 96)], 97),
        ("[H264 98, rtx 97 (apt 96), VP8 96, rtx 99 (apt 98)]", [cdc("H264", 98), cdc("rtx", 97, 96), cdc("VP8", 96), cdc("rtx", 99, 98)], 99),
        ("[VP8 96, H264 98, rtx 99 (apt 98)]", [cdc("VP8", 96), cdc("H264", 98), cdc("rtx", 99, 98)], None),
        ("[VP8 96]", [cdc("VP8", 96)], None),
    ]
    oh = _mkh(prog)
    for label, codecs, want in layouts:
        me = _NS(__cls__=send_f.cls)
        setattr(me, "__rtx_payload_type", None)
        ev5 = _Ev(prog, send_f.module, send_f.cls, {"self": me, "parameters": _NS(codecs=codecs)}, oh)
        try:
            ev5.exec_stmt(sel[0])
        except _Rs as ex:
            rep.fail(mk_finding(prog, PROP, "C11-RTXPT", send_f, sel[0], f"codecs {label}: selecting the RTX payload type raises {ex.name}", construct=f"rtx payload type raises {ex.name}"))
            continue
        except _Unk as ex:
            raise AnalysisError(f"C11-RTXPT cannot evaluate the selection loop for {label}: {ex}")
        got = getattr(me, "__rtx_payload_type")
        if got == want:
            rep.ok("C11-RTXPT", f"codecs {label}", sample=f"retransmissions use payload type {got}")
        else:
            rep.fail(mk_finding(prog, PROP, "C11-RTXPT", send_f, sel[0], f"codecs {label}: the sender encodes with payload type {codecs[0].payloadType} but retransmits with RTX payload type {got} "
                                f"(expected {want}): the receiver unwraps the retransmission as another codec, the hole is never filled and the decoder is handed a frame nobody sent",
                                construct="rtx payload type of the encoding codec"))

    loop_rule(rep, prog)
    nackflag_rule(rep, prog)


def loop_rule(rep: Report, prog: Program) -> None:
    """C11-LOOP: the NACK / RTX repair loop closed over the real code of both ends (AST level): the receiver's _handle_rtp_packet, NackGenerator and
    _send_rtcp_nack, the sender's _handle_rtcp_packet and _retransmit, wrap_rtx / unwrap_rtx.  Packets are delivered in order except a lost set; every
    feedback packet the receiver emits is handed to the sender, every retransmission back to the receiver.  At the end the jitter buffer must have been given
    every packet exactly once with its original numbers, and nothing that was not lost may have been asked for."""
    from types import SimpleNamespace as NS

    from engine.index import Unknown
    from engine.peval import Evaluator, Raised

    from .objhook import make_hook
    RULE = "C11-LOOP"
    rep.rule(RULE, "lost packets are asked for by NACK, retransmitted (RTX or verbatim) and reach the jitter buffer once, with their original numbers", min_instances=8)
    rh = prog.func(R + "._handle_rtp_packet")
    sh = prog.func(S + "._handle_rtcp_packet")
    world: dict = {}

    def extra(call: ast.Call, ev: Evaluator):
        name = unparse(call.func)
        me = ev.env.get("self")
        if name.endswith("__jitter_buffer.add"):
            world["added"].append(ev.ev(call.args[0]))
            return (False, None)
        if name.endswith("__log_debug") or name.endswith("__log_warning"):
            return None
        if name == "depayload":
            return b"D" + ev.ev(call.args[1])
        if name in ("clock.current_datetime", "current_datetime"):
            return 0
        if name == "time.time":
            return 100.0
        if name.endswith("_send_rtcp") and call.args and getattr(me, "role", None) == "receiver":
            world["feedback"].append(ev.ev(call.args[0]))
            return None
        if name.endswith("_send_rtcp_pli"):
            return None
        if name.endswith(".serialize") and len(call.args) == 1:
            return ev.ev(call.func.value)          # the packet object stands for its bytes
        if name.endswith("transport._send_rtp"):
            world["wire"].append(ev.ev(call.args[0]))
            return None
        if name == "isinstance" and len(call.args) == 2:
            v = ev.ev(call.args[0])
            names = [unparse(x).split(".")[-1] for x in (call.args[1].elts if isinstance(call.args[1], ast.Tuple) else [call.args[1]])]
            if isinstance(v, NS) and hasattr(v, "__cls__"):
                return v.__cls__.name in names
            py = {"int": int, "str": str, "bytes": bytes}
            return any(n in py and isinstance(v, py[n]) for n in names)
        return NotImplemented
    oh = make_hook(prog, extra)
    ev0 = Evaluator(prog, rh.module, None, {}, oh)
    pkt_cls = prog.cls("rtp.RtpPacket")

    def mk_packet(seq, ts, payload):
        return oh.instantiate(pkt_cls, [], dict(payload_type=96, sequence_number=seq, timestamp=ts, ssrc=1000, payload=payload), ev0)

    def receiver(rtx: bool):
        r = NS(__cls__=rh.cls, role="receiver", _enabled=True)
        codecs = {96: NS(name="VP8", mimeType="video/VP8", clockRate=90000, parameters={})}
        if rtx:
            codecs[97] = NS(name="rtx", mimeType="video/rtx", clockRate=90000, parameters={"apt": 96})
        for k, v in {"__remote_bitrate_estimator": None, "__rtcp_ssrc": 7, "__active_ssrc": {}, "__remote_streams": {}, "__rtx_ssrc": {2000: 1000} if rtx else {},
                     "__decoder_thread": None, "__jitter_buffer": NS(), "__kind": "video", "__codecs": codecs,
                     "__nack_generator": oh.instantiate(prog.cls("rtcrtpreceiver.NackGenerator"), [], {}, ev0)}.items():
            setattr(r, k, v)
        return r

    def sender(rtx: bool, rtx_seq0: int, history):
        s = NS(__cls__=sh.cls, role="sender", _ssrc=1000, _rtx_ssrc=2000, transport=NS())
        hsize = prog.const(prog.module("rtcrtpsender"), "RTP_HISTORY_SIZE")
        for k, v in {"__rtx_payload_type": 97 if rtx else None, "__rtx_sequence_number": rtx_seq0, "__rtp_history": {p.sequence_number % hsize: p for p in history},
                     "__rtp_header_extensions_map": NS()}.items():
            setattr(s, k, v)
        return s
    import itertools
    cases = [c + (False,) for c in itertools.product((True, False), (100, 65530), ((3,), (3, 4), (2, 7)), (5000, 65535))]
    # reordering instead of loss: the overtaken packet is asked for, and both the late original and the retransmission arrive
    cases += [(True, 100, (4,), 5000, True), (False, 65530, (4,), 5000, True), (True, 65530, (2, 6), 65535, True)]
    for rtx, seq0, lost, rtx_seq0, late in cases:
        if not rtx and rtx_seq0 != 5000:
            continue
        label = f"{'RTX' if rtx else 'no RTX'}, first sequence number {seq0}, {'overtaken by two packets' if late else 'lost'} {list(lost)}" + (f", RTX sequence numbers from {rtx_seq0}" if rtx else "")
        packets = [mk_packet((seq0 + i) % 65536, 3000 * i, bytes([i])) for i in range(10)]
        world.update(added=[], feedback=[], wire=[])
        r, s = receiver(rtx), sender(rtx, rtx_seq0, packets)
        asked: list = []
        rtx_seqs: list = []
        try:
            for i, p in enumerate(packets):
                if late and (i - 3) in lost:
                    q = packets[i - 3]
                    oh.run_method(rh, r, [mk_packet(q.sequence_number, q.timestamp, q.payload), 1000 + i], {})   # the late original
                if i in lost:
                    continue
                # a fresh copy travels: the receiver annotates what it gets
                oh.run_method(rh, r, [mk_packet(p.sequence_number, p.timestamp, p.payload), 1000 + i], {})
                while world["feedback"] or world["wire"]:
                    for fb in list(world["feedback"]):
                        world["feedback"].remove(fb)
                        if getattr(fb, "media_ssrc", None) != 1000:
                            raise _Problem(f"feedback {fb.__cls__.name} names media SSRC {getattr(fb, 'media_ssrc', None)}, the stream's SSRC is 1000: the router hands it to nobody")
                        asked.extend(getattr(fb, "lost", []))
                        oh.run_method(sh, s, [fb], {})
                    for w in list(world["wire"]):
                        world["wire"].remove(w)
                        if rtx:
                            if w.ssrc != 2000 or w.payload_type != 97:
                                raise _Problem(f"the retransmission travels with SSRC {w.ssrc} / payload type {w.payload_type}, negotiated RTX is 2000 / 97")
                            rtx_seqs.append(w.sequence_number)
                        oh.run_method(rh, r, [w, 2000], {})
            got = sorted((p.sequence_number, p.timestamp, getattr(p, "_data", None)) for p in world["added"])
            if late:
                got = sorted(set(got))      # a late original and its retransmission both arrive: the jitter buffer copes with the duplicate
            want = sorted((p.sequence_number, p.timestamp, b"D" + p.payload) for p in packets)
            lost_seqs = {packets[i].sequence_number for i in lost}
            problem = None
            if got != want:
                missing = [w for w in want if w not in got]
                extra_ = [g for g in got if g not in want or got.count(g) > 1]
                problem = f"the jitter buffer received {len(got)} packets; missing {missing[:3]}, unexpected or duplicated {extra_[:3]}"
            elif not set(asked) <= lost_seqs:
                problem = f"NACKs ask for {sorted(set(asked) - lost_seqs)}, which were never lost"
            elif rtx and [x for x in rtx_seqs] != [(rtx_seq0 + k) % 65536 for k in range(len(rtx_seqs))]:
                problem = f"RTX sequence numbers {rtx_seqs} are not consecutive from {rtx_seq0}"
        except _Problem as ex:
            problem = str(ex)
        except Raised as ex:
            rep.fail(mk_finding(prog, PROP, RULE, rh, getattr(ex, "node", None), f"[{label}] raises {ex.name}", construct=f"repair loop raises {ex.name}"))
            continue
        except Unknown as ex:
            raise AnalysisError(f"{RULE} cannot evaluate [{label}]: {ex}")
        if problem:
            rep.fail(mk_finding(prog, PROP, RULE, rh, rh.node, f"[{label}] {problem}", construct="repair loop: " + problem[:50]))
        else:
            rep.ok(RULE, label, sample=f"{len(lost)} lost packet(s) asked for, retransmitted and delivered; 10 packets reached the jitter buffer once")


class _Problem(Exception):
    pass


def nackflag_rule(rep: Report, prog: Program) -> None:
    """C11-NACKFLAG: NackGenerator.add() tells the receiver when to send a NACK.  Black box over arrival sequences (objects built by __init__): the call returns True exactly
    when the packet opened a gap (it is two or more ahead of the highest sequence number seen), whatever the generator is still tracking from earlier outages, and the
    set of missing numbers is the gap numbers of the last 128 that have not arrived."""
    from types import SimpleNamespace
    from engine.index import Unknown
    from engine.peval import Evaluator, Raised
    from .objhook import make_hook
    RULE = "C11-NACKFLAG"
    rep.rule(RULE, "NackGenerator.add() reports every new gap (also right after an outage longer than the history) and tracks exactly the unrepaired losses of the window", min_instances=8)
    ng = prog.cls("rtcrtpreceiver.NackGenerator")
    add = prog.func("rtcrtpreceiver.NackGenerator.add")
    oh = make_hook(prog)
    ev0 = Evaluator(prog, prog.modules["rtcrtpreceiver"], None, {}, oh)
    hist = prog.const(prog.modules["rtp"], "RTP_HISTORY_SIZE")
    seqs = {"single loss, late repair": [0, 1, 2, 4, 3, 5, 6],
            "outage longer than the history, then a single loss": [0, 201, 203, 204, 202],
            "outage of exactly the history size + 2, then a single loss": [0, hist + 2, hist + 4],
            "two gaps in a row": [0, 3, 7, 8],
            "duplicates and an old packet": [0, 1, 1, 3, 0, 3, 4]}
    for label, rel in seqs.items():
        for start in (1000, 65400):
            what = f"{label}, first sequence number {start}"
            try:
                g = oh.instantiate(ng, [], {}, ev0)
                top = None
                arrived = set()
                problem = None
                for k, r in enumerate(rel):
                    seq = (start + r) % 65536
                    got = oh.run_method(add, g, [SimpleNamespace(sequence_number=seq)], {})
                    arrived.add(r)
                    want = top is not None and r >= top + 2
                    top = r if top is None else max(top, r)
                    want_missing = {(start + x) % 65536 for x in range(max(rel[0], top - hist), top) if x not in arrived and x > rel[0]}
                    if bool(got) != want and problem is None:
                        problem = f"packet #{k} (sequence {seq}): add() returns {got!r}; it {'opened a gap, a NACK is due' if want else 'opened no gap'}"
                    if set(g.missing) != want_missing and problem is None:
                        extra, lack = sorted(set(g.missing) - want_missing)[:3], sorted(want_missing - set(g.missing))[:3]
                        problem = f"after packet #{k} (sequence {seq}) the missing set has {len(g.missing)} entries; unexpected {extra}, lacking {lack}"
                if problem:
                    rep.fail(mk_finding(prog, PROP, RULE, add, add.node, f"[{what}] {problem}", construct="nack flag: " + label))
                else:
                    rep.ok(RULE, what, sample=f"{len(rel)} arrivals")
            except Raised as ex:
                rep.fail(mk_finding(prog, PROP, RULE, add, getattr(ex, "node", None), f"[{what}] add() raises {ex.name}", construct=f"nack flag raises {ex.name}"))
            except Unknown as ex:
                raise AnalysisError(f"{RULE} cannot evaluate [{what}]: {ex}")
