"""C15 — receive-side bandwidth estimation never fails and stays within its safety bounds.

  C15-EXC     exception-escape analysis with root RemoteBitrateEstimator.add (all arguments wire-derived): every
              divisor, sqrt argument and index is discharged by facts / class invariants; nothing escapes
  C15-WINDOW  RateCounter: every change of a bucket is paired with the same change of _total in the same block;
              _total is only re-created together with the buckets
  C15-LATEST  the latest measured throughput is recorded whenever a measurement is available (no extra guard)
  C15-CLAMP   update() returns the value stored by _clamp_bitrate; _clamp_bitrate and the over-use cut, evaluated
              on a grid, respect  estimate <= max(1.5*measured + 10000, previous)  and  cut <= 0.85*measured
  C15-REMB    the SSRC list reported is the key list of `ssrcs`, which is keyed only by the ssrc argument and holds
              at most 255 entries at every return; the bookkeeping statements, evaluated on tables around the limit, keep the
              SSRC of the packet just received and evict the oldest
  C15-PIPE    the whole RemoteBitrateEstimator.add pipeline evaluated on packet histories at a small send-time origin and across the
              24-bit abs-send-time wrap: never raises, results REMB-encodable with exactly the SSRCs seen, identical estimates at both origins
Does not decide: the numeric behaviour of the Kalman/AIMD pipeline beyond these histories.
"""
from __future__ import annotations

import ast
from typing import Any, Dict, List, Optional

from engine.absint import Absint
from engine.events import EventsDomain, EvState
from engine.index import AnalysisError, Program, Unknown, unparse, walk_no_nested
from engine.invariants import Invariants
from engine.lin import Lin
from engine.peval import Evaluator, Ret
from engine.report import Report, mk_finding

from .common import origin_finding, receive_config, record_obligations

PROP = "C15"
RBE = "rate.RemoteBitrateEstimator"
RC = "rate.RateCounter"
AIMD = "rate.AimdRateControl"


def run(rep: Report, prog: Program, tier: str) -> None:
    rep.explanation = (
        "Arithmetic-safety obligations in rate.py are decided by abstract interpretation (intervals, float bounds, linear facts) under "
        "inductively checked class invariants; the window bookkeeping by a paired-update rule; the AIMD safety bounds by evaluating the "
        "clamp expressions over a grid of values against the bounds stated in the property."
    )
    rep.assumptions += ["bounds 1.5x + 10 kbit/s and 85 % are taken from the property statement"]
    mod = prog.module("rate")
    add = prog.func(RBE + ".add")

    # ---- C15-EXC
    rep.rule("C15-EXC", "nothing escapes RemoteBitrateEstimator.add", min_instances=25)
    cfg = receive_config(prog)
    cfg.taint_params[RBE + ".add"] = {"arrival_time_ms", "abs_send_time", "payload_size", "ssrc"}
    ai = Absint(prog, cfg)
    ai.invariants = Invariants(ai)
    at_returns: List[Any] = []

    def stmt_ob(s, st, a):
        if isinstance(s, ast.Return) and a.fi.qualname == add.qualname and s.value is not None and isinstance(s.value, ast.Tuple):
            at_returns.append((s, st))

    ai.stmt_observers = [stmt_ob]
    summ = ai.analyze_root(add)
    for exc_name, wits in summ.raises.items():
        for w in wits:
            o = w[0]
            rep.fail(origin_finding(prog, PROP, "C15-EXC", o, [str(x) for x in w[1:]],
                                    f"may raise {exc_name} ({o.message}) out of the bandwidth estimator, which runs inside the RTP receive path"))
    record_obligations(rep, ai, "C15-EXC", funcs={q for q in ai.analysed_funcs if q.startswith("rate.")})
    rep.analysed["class_invariants"] = {k: v.get("invariant", "")[:400] for k, v in ai.invariants.report.items()}

    # ---- C15-REMB
    rep.rule("C15-REMB", "reported SSRC list", min_instances=3)
    if not at_returns:
        raise AnalysisError("no `return bitrate, ssrcs` in RemoteBitrateEstimator.add")
    for s, st in at_returns:
        second = unparse(s.value.elts[1])
        if second != "list(self.ssrcs.keys())":
            rep.fail(mk_finding(prog, PROP, "C15-REMB", add, s, f"the reported SSRC list is `{second}`, not the SSRCs seen", construct="remb ssrc list"))
            continue
        ok = st.f.entails_ge(Lin.const(255) - Lin.atom("len(self.ssrcs)"))
        if ok:
            rep.ok("C15-REMB", "add(): len(self.ssrcs) <= 255 at the return", sample="fact from the pruning loop's exit condition")
        else:
            rep.fail(mk_finding(prog, PROP, "C15-REMB", add, s,
                                "nothing bounds the number of SSRCs reported: the REMB packet carries their count in one byte, so more than "
                                "255 SSRCs make pack_remb_fci raise struct.error in the receive path", construct="remb ssrc count"))
    keys = [unparse(n.targets[0]) for n in walk_no_nested(add.node) if isinstance(n, ast.Assign) and unparse(n.targets[0]).startswith("self.ssrcs[")]
    others = [fi.qualname for fi in prog.iter_functions(["rate"]) for n in walk_no_nested(fi.node)
              if isinstance(n, (ast.Assign, ast.AugAssign)) and "ssrcs[" in unparse(n.targets[0] if isinstance(n, ast.Assign) else n.target) and fi.qualname != add.qualname]
    if keys == ["self.ssrcs[ssrc]"] and not others:
        rep.ok("C15-REMB", "ssrcs is keyed only by the ssrc argument", sample=keys[0])
        rep.ok("C15-REMB", "no other writer of ssrcs entries in rate.py", sample="who-may-write scan")
    else:
        rep.fail(mk_finding(prog, PROP, "C15-REMB", add, add.node, f"ssrcs written as {keys} / elsewhere in {others}", construct="ssrcs writers"))

    # eviction policy: the statements of add() that maintain `ssrcs`, evaluated on tables around the 255 limit
    book = [st_ for st_ in add.node.body if any(isinstance(x, ast.Attribute) and x.attr == "ssrcs" for x in ast.walk(st_)) and not any(isinstance(x, ast.Return) for x in ast.walk(st_))]
    if not book:
        raise AnalysisError("statements maintaining self.ssrcs not found at the top level of add()")
    from types import SimpleNamespace as _NS

    from engine.peval import Evaluator as _Ev, Raised as _Raised

    def _xh(call, evl):
        nm = unparse(call.func)
        if nm == "iter" and len(call.args) == 1:
            return iter(list(evl.ev(call.args[0])))
        if nm == "next" and call.args:
            it = evl.ev(call.args[0])
            for x in it:
                return x
            raise _Raised("StopIteration", call)
        if isinstance(call.func, ast.Attribute) and call.func.attr in ("pop", "popitem") and isinstance(evl.ev(call.func.value), dict):
            d = evl.ev(call.func.value)
            try:
                return getattr(d, call.func.attr)(*[evl.ev(a) for a in call.args])
            except KeyError:
                raise _Raised("KeyError", call)
        return NotImplemented
    limit = prog.try_const(ast.Name(id="REMB_MAX_SSRCS", ctx=ast.Load()), add.module)
    if not isinstance(limit, int):
        raise AnalysisError("REMB_MAX_SSRCS cannot be folded")
    for n_old, new_known in ((0, False), (limit - 1, False), (limit, False), (limit, True), (limit + 40, False)):
        table = {1000 + i: i for i in range(n_old)}
        new = 1000 + n_old // 2 if new_known else 5
        me = _NS(ssrcs=dict(table))
        e6 = _Ev(prog, add.module, add.cls, {"self": me, "ssrc": new, "arrival_time_ms": 999999, "now_ms": 999999}, _xh)
        try:
            for st_ in book:
                e6.exec_stmt(st_)
        except Exception as ex:
            raise AnalysisError(f"cannot evaluate the SSRC bookkeeping of add(): {ex}")
        keys = list(me.ssrcs)
        expect = [k for k in table if k != new] + [new] if not new_known else list(table)
        expect = expect[-limit:] if len(expect) > limit else expect
        label = f"{n_old} known SSRCs, packet from {'a known' if new_known else 'a new'} SSRC"
        if new in me.ssrcs and len(keys) <= limit and set(keys) == set(expect):
            rep.ok("C15-REMB", f"bookkeeping: {label}", sample=f"{len(keys)} listed, newest kept, oldest dropped first")
        else:
            why = "the SSRC of the packet just received is not listed" if new not in me.ssrcs else (f"{len(keys)} SSRCs listed" if len(keys) > limit else "a recent SSRC was dropped instead of the oldest")
            rep.fail(mk_finding(prog, PROP, "C15-REMB", add, book[-1], f"bookkeeping with {label}: {why}", construct="ssrc eviction: " + why[:50]))

    # ---- C15-WINDOW
    rep.rule("C15-WINDOW", "bucket/total paired updates", min_instances=4)
    rc = prog.cls(RC)

    def blocks(stmts):
        yield stmts
        for s in stmts:
            for name in ("body", "orelse", "finalbody"):
                sub = getattr(s, name, None)
                if isinstance(sub, list) and sub and isinstance(sub[0], ast.stmt):
                    yield from blocks(sub)

    for m in rc.methods.values():
        for blk in blocks(m.node.body):
            texts = [unparse(s) for s in blk]
            for s in blk:
                t = unparse(s)
                # bucket increments
                if isinstance(s, ast.AugAssign) and ".count" in unparse(s.target) + "" and "_buckets[" in unparse(s.target):
                    pass
                if isinstance(s, ast.AugAssign) and unparse(s.target).startswith("self._buckets[") and isinstance(s.op, ast.Add):
                    field = unparse(s.target).rsplit(".", 1)[1]
                    want = f"self._total.{field} += {unparse(s.value)}"
                    if want in texts:
                        rep.ok("C15-WINDOW", f"{m.name}: {t}", sample=f"paired with `{want}` in the same block")
                    else:
                        rep.fail(mk_finding(prog, PROP, "C15-WINDOW", m, s, f"bucket update without the matching `{want}` in the same block: _total stops being the sum of the live buckets"))
                if isinstance(s, ast.AugAssign) and unparse(s.target).startswith("self._total.") and isinstance(s.op, ast.Sub):
                    field = unparse(s.target).rsplit(".", 1)[1]
                    src = unparse(s.value)  # bucket.count
                    want = f"{src} = 0"
                    if src.endswith("." + field) and want in texts:
                        rep.ok("C15-WINDOW", f"{m.name}: {t}", sample=f"the erased bucket is zeroed in the same block (`{want}`)")
                    else:
                        rep.fail(mk_finding(prog, PROP, "C15-WINDOW", m, s, f"`{t}` is not paired with zeroing `{src}` in the same block"))
                if isinstance(s, ast.Assign) and unparse(s.targets[0]) == "self._total":
                    if any(x.startswith("self._buckets = ") for x in texts):
                        rep.ok("C15-WINDOW", f"{m.name}: {t}", sample="re-created together with the buckets")
                    else:
                        rep.fail(mk_finding(prog, PROP, "C15-WINDOW", m, s,
                                            "_total is replaced without re-creating the buckets: stale bucket contents will later be subtracted "
                                            "from a total that no longer contains them"))
    er = prog.func(RC + "._erase_old")
    bound = [unparse(n.value) for n in walk_no_nested(er.node) if isinstance(n, ast.Assign) and unparse(n.targets[0]) == "new_origin_ms"]
    if bound == ["now_ms - self._window_size + 1"]:
        rep.ok("C15-WINDOW", "_erase_old: window is [now - window_size + 1, now]", sample=bound[0])
    else:
        rep.fail(mk_finding(prog, PROP, "C15-WINDOW", er, er.node, f"window bound is {bound}", construct="window bound"))
    ctor = [n for n in walk_no_nested(prog.func(RBE + ".__init__").node) if isinstance(n, ast.Call) and unparse(n.func) == "RateCounter"]
    if ctor and prog.try_const(ctor[0].args[0], mod) == 1000:
        rep.ok("C15-WINDOW", "incoming bitrate window is 1000 ms", sample=unparse(ctor[0]))
    else:
        rep.fail(mk_finding(prog, PROP, "C15-WINDOW", prog.func(RBE + ".__init__"), ctor[0] if ctor else None, "incoming bitrate window is not 1000 ms", construct="window size"))

    # ---- C15-LATEST
    rep.rule("C15-LATEST", "latest measurement recorded whenever available", min_instances=1)
    upd = prog.func(AIMD + ".update")
    seen = []

    def observe(node, st: EvState, f):
        if isinstance(node, ast.Assign) and unparse(node.targets[0]) == "self.latest_estimated_throughput":
            seen.append((node, {g for g, t in st.guards if t}, {g for g, t in st.guards if not t}))

    EventsDomain(prog, lambda n, f: [], observe).run(upd)
    if not seen:
        raise AnalysisError("store of latest_estimated_throughput not found")
    for node, pos, neg in seen:
        extra = (pos - {"estimated_throughput is not None"}) | neg
        if unparse(node.value) == "estimated_throughput" and "estimated_throughput is not None" in pos and not extra:
            rep.ok("C15-LATEST", f"update(): {unparse(node)}", sample="guarded only by `estimated_throughput is not None`")
        else:
            rep.fail(mk_finding(prog, PROP, "C15-LATEST", upd, node,
                                f"the latest measurement is only recorded under the additional condition(s) {sorted(extra)}: later updates without a "
                                f"fresh measurement then clamp against a stale throughput"))

    # ---- C15-CLAMP
    rep.rule("C15-CLAMP", "safety bounds of the estimate", min_instances=20)
    clamp = prog.func(AIMD + "._clamp_bitrate")
    rets = [n for n in walk_no_nested(upd.node) if isinstance(n, ast.Return) and n.value is not None and unparse(n.value) != "None"]
    stores = [unparse(n.value) for n in walk_no_nested(upd.node) if isinstance(n, ast.Assign) and unparse(n.targets[0]) == "self.current_bitrate"
              and "_clamp_bitrate" in unparse(n.value)]
    if rets and all(unparse(r.value) == "self.current_bitrate" for r in rets) and stores == ["self._clamp_bitrate(new_bitrate, estimated_throughput)"]:
        rep.ok("C15-CLAMP", "update() returns the value stored by _clamp_bitrate(new_bitrate, estimated_throughput)", sample=stores[0])
    else:
        rep.fail(mk_finding(prog, PROP, "C15-CLAMP", upd, upd.node, f"update() returns {[unparse(r.value) for r in rets]} / stores {stores}", construct="update return"))
    for new in (0, 1000, 500000, 3000000, 90000000):
        for est in (0, 1000, 200000, 2000000):
            for cur in (0, 30000, 2500000):
                obj = type("S", (), {})()
                obj.current_bitrate = cur
                ev = Evaluator(prog, mod, prog.cls(AIMD), {"self": obj, "new_bitrate": new, "estimated_throughput": est})
                try:
                    try:
                        ev.exec_block(clamp.node.body)
                        got = None
                    except Ret as r:
                        got = r.value
                except Unknown as u:
                    raise AnalysisError(f"cannot evaluate _clamp_bitrate: {u}")
                limit = max(1.5 * est + 10000, cur)
                cell = f"new={new}, measured={est}, previous={cur}"
                if got is None or got > limit or got > new:
                    rep.fail(mk_finding(prog, PROP, "C15-CLAMP", clamp, clamp.node, f"{cell}: clamp gives {got}, bound is min(new, {limit})", construct=f"clamp {cell}"))
                else:
                    rep.ok("C15-CLAMP", f"clamp {cell}", sample=f"-> {got} <= {limit}")
    cuts = []

    def ob2(node, st: EvState, f):
        if isinstance(node, ast.Assign) and unparse(node.targets[0]) == "new_bitrate" and any("DECREASE" in g for g, t in st.guards if t):
            cuts.append(node)

    EventsDomain(prog, lambda n, f: [], ob2).run(upd)
    if not cuts:
        raise AnalysisError("over-use cut of new_bitrate not found")
    for node in cuts:
        bad = None
        for est in (0, 1, 1000, 123457, 3000000):
            try:
                got = Evaluator(prog, mod, None, {"estimated_throughput": est}).ev(node.value)
            except Unknown as u:
                raise AnalysisError(f"cannot evaluate the over-use cut: {u}")
            if got > 0.85 * est + 0.5:
                bad = (est, got)
        if bad:
            rep.fail(mk_finding(prog, PROP, "C15-CLAMP", upd, node, f"on over-use the estimate is cut to {bad[1]} for a measured {bad[0]}: more than 85 %"))
        else:
            rep.ok("C15-CLAMP", f"over-use cut {unparse(node)}", sample="<= 0.85 x measured on the grid")

    # ---- C15-PIPE: the whole estimator pipeline evaluated on packet histories, at a small send-time origin and across the 24-bit wrap
    rep.rule("C15-PIPE", "RemoteBitrateEstimator.add on packet histories: never raises, REMB-encodable results, same estimates whatever the send-time origin", min_instances=1)
    import math as _math

    from engine.index import Unknown as _UnknownP
    from .objhook import make_hook as _mkhook

    def _px(call, evl):
        nm = unparse(call.func)
        if nm.startswith("math.") and hasattr(_math, nm.split(".", 1)[1]):
            try:
                return getattr(_math, nm.split(".", 1)[1])(*[evl.ev(a) for a in call.args])
            except ValueError:
                raise _Raised("ValueError", call)
        return _xh(call, evl)
    ph = _mkhook(prog, _px)
    pev = _Ev(prog, add.module, None, {}, ph)
    RBEC = prog.cls("rate.RemoteBitrateEstimator")

    def history(kind: str, n: int):
        out = []
        for i in range(n):
            send_ms = i * 10
            if kind == "over-use, then the queue drains (additive increase near the measured maximum)":
                # 3 s steady, 1.5 s of growing queueing delay, then the sender halves its packets and the queue drains within a second
                delay = 0 if i < 300 else ((i - 300) * 3) // 5 if i < 450 else max(0, 90 - (i - 450))
                arr = 1000 + i * 10 + delay
                size, ssrc = (600 if i < 450 else 300), 1234
            elif kind == "growing queueing delay (over-use)":
                arr = 1000 + i * 10 + (i * 3) // 7
                size, ssrc = 1200, 1234
            elif kind == "steady, two SSRCs, some empty packets":
                arr = 1000 + i * 10
                size, ssrc = (0 if i % 9 == 4 else 900), (1234 if i % 2 else 99)
            else:  # bursts
                arr = 1000 + (i // 5) * 50
                size, ssrc = 300 + (i % 4) * 250, 1234
            out.append((send_ms, arr, size, ssrc))
        if kind.startswith("sparse"):
            times = {"sparse: 0, 10, 3500 ms": (0, 10, 3500), "sparse: long pauses": (0, 2000, 2010, 5000, 9000, 9010, 14000),
                     "sparse: several packets in the same millisecond at the start and after a pause": (0, 0, 0, 1, 1, 40, 2500, 2500, 2500, 2501, 2600),
                     "sparse: 200 ms of packets, 1.6 s pause, resume": tuple(range(0, 200, 10)) + tuple(range(1800, 3400, 10))}[kind]
            out = [(t, 1000 + t, 1200, 1234) for t in times]
        return out
    scen = [("growing queueing delay (over-use)", 130), ("over-use, then the queue drains (additive increase near the measured maximum)", 800), ("sparse: 0, 10, 3500 ms", 0), ("sparse: long pauses", 0),
            ("sparse: several packets in the same millisecond at the start and after a pause", 0)]
    if tier == "thorough":
        scen = [("growing queueing delay (over-use)", 300), ("over-use, then the queue drains (additive increase near the measured maximum)", 1200), ("steady, two SSRCs, some empty packets", 420), ("bursts", 300),
                ("sparse: 0, 10, 3500 ms", 0), ("sparse: long pauses", 0), ("sparse: 200 ms of packets, 1.6 s pause, resume", 0)]
    for kind, n in scen:
        results = {}
        problem = None
        for origin in (0, (1 << 24) - 40 * 262):
            try:
                est = ph.instantiate(RBEC, [], {}, pev)
                outs = []
                seen = []
                for i, (send_ms, arr, size, ssrc) in enumerate(history(kind, n)):
                    if ssrc not in seen:
                        seen.append(ssrc)
                    r = ph.run_method(add, est, [], dict(abs_send_time=(origin + send_ms * 262) & 0xFFFFFF, arrival_time_ms=arr, payload_size=size, ssrc=ssrc))
                    # the measurement covers exactly the packets of the last window
                    W_ = est.incoming_bitrate._window_size
                    in_win = sum(sz for (_s, a_, sz, _x) in history(kind, n)[: i + 1] if arr - W_ < a_ <= arr)
                    if est.incoming_bitrate._total.value != in_win and problem is None:
                        problem = (f"packet #{i} (arrival {arr} ms): the rate counter holds {est.incoming_bitrate._total.value} bytes, the packets of the last {W_} ms carry {in_win}: "
                                   "the measurement does not cover exactly the packets of the window")
                    if r is not None:
                        br, ss = r
                        if not (isinstance(br, int) and not isinstance(br, bool) and 0 <= br < (0x3FFFF << 63)) or sorted(ss) != sorted(seen) or len(ss) > 255:
                            problem = f"packet #{i}: result {r!r} is not a non-negative integer bitrate with exactly the SSRCs seen {seen}"
                        outs.append((i, br, tuple(ss)))
                results[origin] = outs
            except _Raised as ex:
                problem = f"raises {ex.name} (send-time origin {origin})"
                break
            except _UnknownP as ex:
                raise AnalysisError(f"C15-PIPE cannot evaluate [{kind}]: {ex}")
        if problem is None and len(results) == 2:
            a, b = results.values()
            if a != b:
                k = next((i for i, (x, y) in enumerate(zip(a, b)) if x != y), min(len(a), len(b)))
                problem = f"estimates differ with the send-time origin (24-bit wrap inside the run): {a[k:k + 1]} vs {b[k:k + 1]}"
        label = f"{kind}, {n} packets"
        if problem:
            rep.fail(mk_finding(prog, PROP, "C15-PIPE", add, add.node, f"[{label}] {problem}", construct="estimator pipeline: " + problem.split(":")[0][:50]))
        else:
            rep.ok("C15-PIPE", label, sample=(f"{len(a)} estimates, last {a[-1][1]} bit/s" if a else "no estimate yet") + ", identical across the send-time wrap")

    # ---- C15-STALE: the detector's verdict used for the decision to update and handed to the rate controller is the one after detect() ran for this packet
    rep.rule("C15-STALE", "the over-use verdict that drives the estimate update is read after detect() has run for the packet", min_instances=2)
    from engine.events import EventsDomain as _ED
    fresh_sites = []

    def _is_state_call(x):
        return isinstance(x, ast.Call) and unparse(x.func) == "self.detector.state"

    def _ev_fresh(node, f):
        if isinstance(node, ast.Call) and unparse(node.func) == "self.detector.detect":
            return ["-fresh"]
        if isinstance(node, ast.Assign) and _is_state_call(node.value):
            return ["fresh"]
        return []
    state_vars = {unparse(n.targets[0]) for n in walk_no_nested(add.node) if isinstance(n, ast.Assign) and _is_state_call(n.value)}

    def _ob_fresh(node, st, f):
        uses = []
        if isinstance(node, ast.Call) and unparse(node.func) == "self.rate_control.update" and node.args:
            uses.append(("argument of rate_control.update", node.args[0], node))
        if isinstance(node, (ast.If, ast.Assign, ast.Expr, ast.Return)):
            hdr = node.test if isinstance(node, ast.If) else node
            for c in ast.walk(hdr):
                if isinstance(c, ast.Compare) and any("OVERUSING" in unparse(x) for x in c.comparators + [c.left]):
                    other = c.left if "OVERUSING" not in unparse(c.left) else c.comparators[0]
                    uses.append(("over-use test", other, c))
        for what, expr, site in uses:
            if _is_state_call(expr):
                fresh_sites.append((what, site, True))
            elif isinstance(expr, ast.Name) and expr.id in state_vars:
                fresh_sites.append((what, site, "fresh" in st.events))
    _ED(prog, _ev_fresh, _ob_fresh, kill_guards_on_call=False).run(add)
    seen_sites = set()
    for what, site, ok in fresh_sites:
        key = (what, getattr(site, "lineno", 0))
        if key in seen_sites:
            continue
        seen_sites.add(key)
        if ok:
            rep.ok("C15-STALE", f"add(): {what} @ line {getattr(site, 'lineno', 0)} uses the verdict after detect()", sample=unparse(site)[:70])
        else:
            rep.fail(mk_finding(prog, PROP, "C15-STALE", add, site, f"the {what} uses a detector verdict that was read before detect() ran for this packet: on the packet that first shows over-use the rate "
                                "controller still sees the previous state and no 85 % cut is applied although the detector says OVERUSING", construct=f"stale detector verdict in the {what}"))
    if len(seen_sites) < 2:
        raise AnalysisError(f"C15-STALE: only {len(seen_sites)} uses of the detector verdict found in RemoteBitrateEstimator.add")

    # ---- C15-RATE: RateCounter evaluated against "the bytes that arrived within the last window_size ms"
    rep.rule("C15-RATE", "RateCounter.rate equals the bytes of exactly the packets in the last window, zero-size packets included", min_instances=5)
    RCC = prog.cls("rate.RateCounter")
    r_add, r_rate = prog.func("rate.RateCounter.add"), prog.func("rate.RateCounter.rate")
    W = 100  # a small window keeps the evaluation cheap; the code is parametric in window_size
    streams = {
        "steady 50-byte packets every 2 ms": [(t, 50) for t in range(0, 400, 2)],
        "burst, silence longer than the window, burst": [(t, 80) for t in range(0, 60, 3)] + [(t, 80) for t in range(300, 360, 3)],
        "packets then only empty packets": [(t, 70) for t in range(0, 150, 2)] + [(t, 0) for t in range(150, 420, 2)],
        "only empty packets": [(t, 0) for t in range(0, 250, 5)],
        "several packets per millisecond": [(t // 3, 10 + t % 7) for t in range(0, 600)],
    }
    for label, pkts in streams.items():
        try:
            rc_ = ph.instantiate(RCC, [], dict(window_size=W), pev)
            bad = None
            checked = 0
            for i, (t, size) in enumerate(pkts):
                ph.run_method(r_add, rc_, [size, t], {})
                if i % 7 == 3 or i == len(pkts) - 1:
                    got = ph.run_method(r_rate, rc_, [t], {})
                    in_win = [(tt, ss) for tt, ss in pkts[: i + 1] if t - W < tt <= t]
                    first = min(tt for tt, _ in in_win)
                    # the counter measures from the start of its window (or from the first packet it has seen while the window is filling)
                    start_ms = max(t - W + 1, pkts[0][0]) if not any(pkts[j + 1][0] - pkts[j][0] >= W for j in range(i)) else None
                    if got is None:
                        if len(in_win) >= 1 and (t - first) >= 1 and start_ms is not None and t - start_ms + 1 > 1:
                            bad = f"at t={t} ms rate() is None although {len(in_win)} packet(s) ({sum(s_ for _, s_ in in_win)} bytes) arrived within the window"
                            break
                    else:
                        checked += 1
                        total = sum(s_ for _, s_ in in_win)
                        if start_ms is not None:
                            want = round(8000 * total / (t - start_ms + 1))
                            if got != want:
                                bad = f"at t={t} ms rate() is {got}, the bytes of the last {W} ms ({total}) give {want}"
                                break
                        elif total == 0 and got != 0:
                            bad = f"at t={t} ms rate() is {got} although only empty packets are in the window"
                            break
            if bad:
                rep.fail(mk_finding(prog, PROP, "C15-RATE", r_rate, r_rate.node, f"[{label}] {bad}", construct="rate counter: " + bad.split(" rate() is ")[1][:30] if " rate() is " in bad else "rate counter"))
            else:
                rep.ok("C15-RATE", label, sample=f"{checked} measurements equal the bytes of exactly the packets in the window")
        except _Raised as ex:
            rep.fail(mk_finding(prog, PROP, "C15-RATE", r_rate, getattr(ex, "node", None), f"[{label}] raises {ex.name}", construct=f"rate counter raises {ex.name}"))
        except _UnknownP as ex:
            raise AnalysisError(f"C15-RATE cannot evaluate [{label}]: {ex}")

    # ---------------- C15-FEED: the receiver hands every stamped packet to the estimator - stamp 0 (the tick at which the 24-bit clock wraps) included -
    # with its size, SSRC and arrival time, and forwards exactly what the estimator returns
    rep.rule("C15-FEED", "RTCRtpReceiver feeds the estimator for every packet carrying a send-time stamp (0 included) and forwards its result as REMB", min_instances=5)
    from types import SimpleNamespace as _NS

    from .objhook import make_hook as _mkh
    h = prog.func("rtcrtpreceiver.RTCRtpReceiver._handle_rtp_packet")
    fed: List[Any] = []
    rembs: List[Any] = []

    class _Stop(Exception):
        pass

    def _extra(call: ast.Call, ev: Any) -> Any:
        name = unparse(call.func)
        if name.endswith("__remote_bitrate_estimator.add"):
            kw = {k.arg: ev.ev(k.value) for k in call.keywords}
            pos = [ev.ev(a) for a in call.args]
            fed.append((pos, kw))
            return ev.env["self"].next_result
        if name == "pack_remb_fci":
            args = []
            for a in call.args:
                args.extend(ev.ev(a.value) if isinstance(a, ast.Starred) else [ev.ev(a)])
            return ("REMB",) + tuple(args)
        if name == "RtcpPsfbPacket":
            return _NS(kind_="psfb", **{k.arg: ev.ev(k.value) for k in call.keywords})
        if name.endswith("_send_rtcp"):
            rembs.append(ev.ev(call.args[0]))
            return None
        if name.endswith("__log_debug"):
            return None
        if name in ("clock.current_datetime", "current_datetime"):
            return 0
        return NotImplemented

    class _StopEval(Exception):
        pass
    oh5 = _mkh(prog, _extra)
    feed_cases = [("stamp 5", 5, 10, 2, (1000, [77])), ("stamp 0 (the 24-bit clock wraps)", 0, 10, 0, (2000, [77, 78])), ("stamp 0xFFFFFF", 0xFFFFFF, 0, 3, None),
                  ("stamp 0, empty payload", 0, 0, 0, None), ("no stamp", None, 10, 0, (1000, [1]))]
    for label, stamp, plen, pad, result in feed_cases:
        del fed[:]
        del rembs[:]
        me = _NS(__cls__=h.cls, _enabled=True, next_result=result)
        for k, v in {"__remote_bitrate_estimator": _NS(), "__rtcp_ssrc": 4242, "__active_ssrc": {}, "__codecs": {}}.items():
            setattr(me, k, v)
        pkt = _NS(ssrc=77, payload=b"p" * plen, padding_size=pad, payload_type=96, sequence_number=1, timestamp=1, extensions=_NS(abs_send_time=stamp))
        try:
            oh5.run_method(h, me, [pkt, 123456], {})
        except _StopEval:
            pass
        except _Raised as ex:
            rep.fail(mk_finding(prog, PROP, "C15-FEED", h, getattr(ex, "node", None), f"[{label}] raises {ex.name}", construct=f"feed raises {ex.name}"))
            continue
        except _UnknownP as ex:
            raise AnalysisError(f"C15-FEED cannot evaluate [{label}]: {ex}")
        want_fed = [] if stamp is None else [dict(abs_send_time=stamp, arrival_time_ms=123456, payload_size=plen + pad, ssrc=77)]
        got_fed = []
        for pos, kw in fed:
            d = dict(kw)
            for nm, v in zip(("abs_send_time", "arrival_time_ms", "payload_size", "ssrc"), pos):
                d[nm] = v
            got_fed.append(d)
        want_remb = [] if (stamp is None or result is None) else [("REMB", result[0], result[1])]
        got_remb = [getattr(r, "fci", None) for r in rembs]
        if got_fed != want_fed:
            rep.fail(mk_finding(prog, PROP, "C15-FEED", h, h.node, f"[{label}] the estimator is fed {got_fed}, expected {want_fed}: the packet's bytes / SSRC are missing from the measurement",
                                construct="estimator feed: " + label.split(",")[0]))
        elif got_remb != want_remb or any(getattr(r, "ssrc", None) != 4242 or getattr(r, "media_ssrc", None) != 0 for r in rembs):
            rep.fail(mk_finding(prog, PROP, "C15-FEED", h, h.node, f"[{label}] REMB feedback sent: {got_remb}, the estimator returned {result}", construct="estimator result not forwarded"))
        else:
            rep.ok("C15-FEED", label, sample=f"fed {got_fed}, REMB {got_remb}")
