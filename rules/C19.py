"""C19 — close() completes, is idempotent, leaves nothing running.

  C19-EVENTS  every asyncio.Event that somebody awaits is set on every exit of the function that sets it
              (for task bodies: on exceptional exits too, any await may raise)
  C19-STOP    stop() handshakes: wait-for-started precedes cancel(), cancel() precedes wait-for-exited
  C19-SPAWN   every owned handle (task / timer / thread stored in a field) has a release (cancel / await / join)
              reachable in the call graph from its owner's stop()/close()
  C19-CLOSE   RTCPeerConnection.close() stops an object of every stoppable class it owns, then updates the three
              states, drops listeners and resolves the close future; transceiver.stop() stops receiver and sender
  C19-STATES  with the closed latch set, __updateIceConnectionState / __updateConnectionState evaluate to `closed` for every combination
              of transport states and emit nothing once closed
  C19-CHANNELS (= C13-CLOSEALL) closing the association closes the channels in every container that can hold one
  C19-TRACK   RTCRtpReceiver.stop() signals end-of-track on every path on which a remote track exists (started or not)
Does not decide: bounded-time completion under every interleaving, absence of events after close.
"""
from __future__ import annotations

import ast
import itertools
from types import SimpleNamespace
from typing import Any, Dict, List, Optional, Set, Tuple

from engine.callgraph import CallGraph
from engine.events import EventsDomain, EvState, call_name
from engine.index import AnalysisError, FuncInfo, Program, Unknown, mangle, unparse, walk_no_nested
from engine.peval import Raised
from engine.report import Report, mk_finding
from engine.types import Types, members

PROP = "C19"
MODULES = ["rtcpeerconnection", "rtcrtpreceiver", "rtcrtpsender", "rtcdtlstransport", "rtcicetransport", "rtcsctptransport",
           "rtcrtptransceiver"]
SPAWNERS = {"ensure_future", "create_task", "call_later", "call_soon", "call_at", "Thread", "run_in_executor"}
EXEMPT_HANDLES = {
    ("rtcpeerconnection.RTCPeerConnection", "__closeTask"):
        "the handle of the automatic close() itself: it is the teardown, there is nothing to release",
}


def _self_attr(e: ast.AST) -> Optional[str]:
    if isinstance(e, ast.Attribute) and isinstance(e.value, ast.Name) and e.value.id == "self":
        return e.attr
    return None


def run(rep: Report, prog: Program, tier: str) -> None:
    rep.explanation = (
        "Ownership and pairing rules over the six lifecycle modules: must-event analysis on every path (normal and, for task "
        "bodies, exceptional: each await may raise) shows that exit/started events are always set and that stop() orders "
        "wait/cancel/wait; the call graph shows that each stored task/timer/thread handle has a release reachable from its "
        "owner's stop()/close(); resolved receiver types show that close() stops every stoppable object class it owns."
    )
    rep.assumptions += ["synchronous calls between an event's creation and its set() do not raise (only awaits and explicit raise do)",
                        "reachability in the call graph is path-insensitive"]
    types = Types(prog)
    cg = CallGraph(prog, types)
    funcs = [f for f in prog.iter_functions(MODULES)]

    # ---------- task bodies: functions passed to ensure_future/create_task
    task_bodies: Set[str] = set()
    for fi in funcs:
        for n in walk_no_nested(fi.node):
            if isinstance(n, ast.Call) and unparse(n.func).split(".")[-1] in ("ensure_future", "create_task"):
                for a in n.args:
                    if isinstance(a, ast.Call):
                        for tg in cg.resolve_call(a, fi).targets:
                            task_bodies.add(tg.qualname)
    rep.analysed["task_bodies"] = sorted(task_bodies)

    # ---------- C19-EVENTS
    rep.rule("C19-EVENTS", "awaited events are set on every exit of their setter", min_instances=7)
    event_fields: Dict[Tuple[str, str], FuncInfo] = {}
    for fi in funcs:
        if fi.cls is None:
            continue
        for n in walk_no_nested(fi.node):
            if isinstance(n, (ast.Assign, ast.AnnAssign)) and n.value is not None and unparse(n.value) in ("asyncio.Event()", "Event()"):
                for t in (n.targets if isinstance(n, ast.Assign) else [n.target]):
                    a = _self_attr(t)
                    if a:
                        event_fields[(fi.cls.qualname, a)] = fi
    waited: Set[Tuple[str, str]] = set()
    for fi in funcs:
        if fi.cls is None:
            continue
        for n in walk_no_nested(fi.node):
            if isinstance(n, ast.Call) and isinstance(n.func, ast.Attribute) and n.func.attr == "wait":
                a = _self_attr(n.func.value)
                if a and (fi.cls.qualname, a) in event_fields:
                    waited.add((fi.cls.qualname, a))
    if len(event_fields) < 7:
        raise AnalysisError(f"only {len(event_fields)} asyncio.Event fields found; expected >= 7")
    for (cq, attr), creator in sorted(event_fields.items()):
        if (cq, attr) not in waited:
            continue
        setters = []
        for fi in prog.cls(cq).methods.values():
            for n in walk_no_nested(fi.node):
                if isinstance(n, ast.Call) and isinstance(n.func, ast.Attribute) and n.func.attr == "set" and _self_attr(n.func.value) == attr:
                    setters.append(fi)
                    break
        if not setters:
            rep.fail(mk_finding(prog, PROP, "C19-EVENTS", creator, creator.node, f"event self.{attr} is awaited but never set",
                                construct=f"event {attr}: no setter"))
            continue
        for fi in setters:
            is_task = fi.qualname in task_bodies
            created_here = creator.qualname == fi.qualname

            def event_of(node, f, attr=attr):
                if isinstance(node, ast.Call) and isinstance(node.func, ast.Attribute) and node.func.attr == "set" \
                        and _self_attr(node.func.value) == attr:
                    return ["set"]
                if isinstance(node, (ast.Assign, ast.AnnAssign)) and node.value is not None and unparse(node.value) in ("asyncio.Event()", "Event()"):
                    tg = node.targets if isinstance(node, ast.Assign) else [node.target]
                    if any(_self_attr(t) == attr for t in tg):
                        return ["created"]
                return []

            def may_raise(node, f, is_task=is_task):
                if is_task and isinstance(node, ast.Await):
                    return ["Exception", "asyncio.CancelledError"]
                return []

            dom = EventsDomain(prog, event_of, None, may_raise)
            act = dom.run(fi, EvState(frozenset() if created_here else frozenset({"created"})))
            bad: List[str] = []
            for st, node in act.returns:
                if "created" in st.events and "set" not in st.events:
                    bad.append(f"normal exit at line {getattr(node, 'lineno', None) or 'end of function'}")
            if is_task:
                for exc, st, node, _w in act.escapes:
                    if "created" in st.events and "set" not in st.events:
                        bad.append(f"{exc} escaping from line {getattr(node, 'lineno', 0)}")
            what = f"{fi.qualname}: self.{attr}.set() on every {'exit (incl. exceptional)' if is_task else 'normal exit'}"
            if bad:
                rep.fail(mk_finding(prog, PROP, "C19-EVENTS", fi, fi.node,
                                    f"self.{attr} is awaited elsewhere (stop()/start() wait on it) but is not set on: {sorted(set(bad))[:4]}; "
                                    f"the waiter then blocks forever", construct=f"{fi.name}: {attr}.set() on all exits"))
            else:
                rep.ok("C19-EVENTS", what, sample=f"{len(act.returns)} normal exits, {len(act.escapes) if is_task else 0} exceptional exits examined")

    # ---------- C19-STOP ordering
    rep.rule("C19-STOP", "stop(): wait started -> cancel -> wait exited", min_instances=2)
    for cq in ("rtcrtpreceiver.RTCRtpReceiver", "rtcrtpsender.RTCRtpSender"):
        stop = prog.func(cq + ".stop")
        problems: List[str] = []
        seen = {"cancel": 0, "exited": 0}

        def event_of(node, f):
            t = unparse(node) if isinstance(node, (ast.Call, ast.Await)) else ""
            evs = []
            if "started.wait()" in t and isinstance(node, ast.Await):
                evs.append("waited-started")
            if isinstance(node, ast.Call) and t.endswith("_task.cancel()"):
                evs.append("cancelled")
            return evs

        def observe(node, st, f):
            t = unparse(node) if isinstance(node, (ast.Call, ast.Await)) else ""
            if isinstance(node, ast.Call) and t.endswith("_task.cancel()"):
                seen["cancel"] += 1
                if "waited-started" not in st.events:
                    problems.append(f"{t} is not preceded by waiting for the task to have started")
            if isinstance(node, ast.Await) and "exited.wait()" in t:
                seen["exited"] += 1
                if "cancelled" not in st.events:
                    problems.append(f"{t} is not preceded by cancelling the task")

        EventsDomain(prog, event_of, observe).run(stop)
        if not seen["cancel"] or not seen["exited"]:
            raise AnalysisError(f"{cq}.stop(): cancel/exited handshake not found")
        if problems:
            rep.fail(mk_finding(prog, PROP, "C19-STOP", stop, stop.node, "; ".join(sorted(set(problems))), construct=f"{stop.name} handshake order"))
        else:
            rep.ok("C19-STOP", f"{cq}.stop()", sample="started.wait() dominates cancel(); cancel() dominates exited.wait()")

    # ---------- C19-SPAWN
    rep.rule("C19-SPAWN", "every owned handle has a release reachable from stop()/close()", min_instances=9)
    handles: Dict[Tuple[str, str], Tuple[FuncInfo, ast.AST]] = {}
    for fi in funcs:
        if fi.cls is None:
            continue
        for n in walk_no_nested(fi.node):
            if isinstance(n, (ast.Assign, ast.AnnAssign)) and n.value is not None and isinstance(n.value, ast.Call):
                if unparse(n.value.func).split(".")[-1] in SPAWNERS:
                    for t in (n.targets if isinstance(n, ast.Assign) else [n.target]):
                        a = _self_attr(t)
                        if a:
                            handles.setdefault((fi.cls.qualname, a), (fi, n))
    if len(handles) < 9:
        raise AnalysisError(f"only {len(handles)} owned task/timer/thread handles found; expected >= 9: {sorted(handles)}")
    for (cq, attr), (fi, node) in sorted(handles.items()):
        if (cq, attr) in EXEMPT_HANDLES:
            rep.ok("C19-SPAWN", f"{cq}.{attr}", sample="exempt: " + EXEMPT_HANDLES[(cq, attr)])
            continue
        ci = prog.cls(cq)
        releasers: List[FuncInfo] = []
        for m in ci.methods.values():
            for n in walk_no_nested(m.node):
                if isinstance(n, ast.Call) and isinstance(n.func, ast.Attribute) and n.func.attr in ("cancel", "join") and _self_attr(n.func.value) == attr:
                    releasers.append(m)
                elif isinstance(n, ast.Await) and _self_attr(n.value) == attr:
                    releasers.append(m)
        roots = [m for name, m in ci.methods.items() if name in ("stop", "close")]
        if not roots:
            raise AnalysisError(f"{cq} owns handle {attr} but has no stop()/close()")
        reach = cg.reachable(roots)
        hit = [m.qualname for m in releasers if m.qualname in reach]
        if hit:
            rep.ok("C19-SPAWN", f"{cq}.{attr} (created in {fi.name})", sample=f"released in {hit[0]} via {' -> '.join(reach[hit[0]][-3:])}")
        else:
            rep.fail(mk_finding(prog, PROP, "C19-SPAWN", fi, node,
                                f"handle self.{attr} is stored by {fi.name} but no cancel()/join()/await of it is reachable from "
                                f"{[r.qualname for r in roots]}" + (f" (releasers exist in {[m.name for m in releasers]} but are not reached)" if releasers else "")
                                + ": it outlives stop()", construct=f"owned handle {attr}"))

    # ---------- C19-CLOSE
    rep.rule("C19-CLOSE", "close() reaches every owner and finishes the state update", min_instances=8)
    pc = "rtcpeerconnection.RTCPeerConnection"
    close = prog.func(pc + ".close")
    env = types.env(close)
    stopped: Dict[str, str] = {}
    for n in walk_no_nested(close.node):
        if isinstance(n, ast.Await) and isinstance(n.value, ast.Call) and isinstance(n.value.func, ast.Attribute) and n.value.func.attr == "stop":
            t = types.type_of(n.value.func.value, close, env)
            for m in members(t):
                if m[0] == "inst":
                    stopped[m[1].qualname] = unparse(n.value)
    want = ["rtcrtptransceiver.RTCRtpTransceiver", "rtcsctptransport.RTCSctpTransport", "rtcdtlstransport.RTCDtlsTransport",
            "rtcicetransport.RTCIceTransport"]
    for w in want:
        prog.cls(w)
        if w in stopped:
            rep.ok("C19-CLOSE", f"close() stops {w}", sample=stopped[w])
        else:
            rep.fail(mk_finding(prog, PROP, "C19-CLOSE", close, close.node, f"close() never awaits stop() on an object of class {w}",
                                construct=f"close stops {w.split('.')[-1]}"))
    tstop = prog.func("rtcrtptransceiver.RTCRtpTransceiver.stop")
    tenv = types.env(tstop)
    tstopped = set()
    for n in walk_no_nested(tstop.node):
        if isinstance(n, ast.Await) and isinstance(n.value, ast.Call) and isinstance(n.value.func, ast.Attribute) and n.value.func.attr == "stop":
            for m in members(types.type_of(n.value.func.value, tstop, tenv)):
                if m[0] == "inst":
                    tstopped.add(m[1].qualname)
    for w in ("rtcrtpreceiver.RTCRtpReceiver", "rtcrtpsender.RTCRtpSender"):
        if w in tstopped:
            rep.ok("C19-CLOSE", f"RTCRtpTransceiver.stop() stops {w}", sample="awaited stop()")
        else:
            rep.fail(mk_finding(prog, PROP, "C19-CLOSE", tstop, tstop.node, f"transceiver.stop() does not stop its {w.split('.')[-1]}",
                                construct=f"transceiver stops {w.split('.')[-1]}"))
    # final state update on the normal exit of close()
    finals = {"self.__updateIceGatheringState": "gathering", "self.__updateIceConnectionState": "ice", "self.__updateConnectionState": "conn",
              "self.remove_all_listeners": "listeners", "self.__isClosed.set_result": "resolved"}

    def ev3(node, f):
        if isinstance(node, ast.Call) and call_name(node) in finals:
            return [finals[call_name(node)]]
        if isinstance(node, (ast.Assign, ast.AnnAssign)):
            tg = node.targets if isinstance(node, ast.Assign) else [node.target]
            if any(_self_attr(t) == "__isClosed" for t in tg):
                return ["latched"]
        return []

    act = EventsDomain(prog, ev3).run(close)
    missing: Set[str] = set()
    for st, node in act.returns:
        if "latched" in st.events:
            missing |= set(finals.values()) - st.events
    if missing:
        rep.fail(mk_finding(prog, PROP, "C19-CLOSE", close, close.node, f"the teardown path of close() can finish without {sorted(missing)}",
                            construct="close final state update"))
    else:
        rep.ok("C19-CLOSE", "close(): state updates, listener removal and future resolution on the teardown exit", sample=sorted(finals.values()))
    # the three state functions evaluate to 'closed' once latched: first branch tests __isClosed
    for name in ("__updateConnectionState", "__updateIceConnectionState"):
        fi = prog.func(f"{pc}.{name}")
        ok = False
        for n in walk_no_nested(fi.node):
            if isinstance(n, ast.If) and unparse(n.test) == "self.__isClosed":
                body = unparse(n.body[0]) if n.body else ""
                ok = ok or body.replace('"', "'") == "state = 'closed'"
        if ok:
            rep.ok("C19-CLOSE", f"{name}: closed latch wins", sample="if self.__isClosed: state = 'closed'")
        else:
            rep.fail(mk_finding(prog, PROP, "C19-CLOSE", fi, fi.node, f"{name} does not map the closed latch to state 'closed' first", construct=f"{name} closed branch"))
    rep.analysed["event_fields"] = sorted(f"{c}.{a}" for c, a in event_fields)
    rep.analysed["owned_handles"] = sorted(f"{c}.{a}" for c, a in handles)

    # ---------------- C19-REACH: close() evaluated on object graphs - whatever the bundling flags say, every transceiver, the SCTP transport and every
    # DTLS / ICE transport reachable from them is stopped
    rep.rule("C19-REACH", "close() stops every transceiver, the SCTP transport and every DTLS / ICE transport reachable from them, for every bundling layout", min_instances=6)
    from types import SimpleNamespace as _NS

    from engine.index import Unknown as _Unk
    from engine.peval import Evaluator as _Ev, Raised as _Rs

    from .objhook import make_hook as _mkh
    stopped_objs: List[Any] = []

    def _extra(call: ast.Call, ev: Any) -> Any:
        f = call.func
        name = unparse(f)
        if isinstance(f, ast.Attribute) and f.attr == "stop" and not call.args:
            stopped_objs.append(ev.ev(f.value))
            return None
        if name.startswith("self.__update") or name in ("self.__setSignalingState", "self.remove_all_listeners", "self.emit", "self.__log_debug"):
            return None
        if name == "asyncio.Future":
            return _NS(result=None)
        if name.endswith(".set_result"):
            return None
        return NotImplemented
    oh6 = _mkh(prog, _extra)

    def graph(layout):
        """layout: list of (kind, bundled flag, transport key); returns (self object, owners, transports)"""
        dtls: Dict[str, Any] = {}
        owners = []
        me = _NS(__cls__=close.cls)
        trs = []
        sctp = None
        for kind, bundled, key in layout:
            if key not in dtls:
                dtls[key] = _NS(name=f"dtls-{key}", state="connected", transport=_NS(name=f"ice-{key}", state="completed"))
            if kind == "transceiver":
                t = _NS(name=f"transceiver-{len(trs)}", _bundled=bundled, stopped=False, _transport=dtls[key], receiver=_NS(transport=dtls[key]), sender=_NS(transport=dtls[key]))
                trs.append(t)
                owners.append(t)
            else:
                sctp = _NS(name="sctp", _bundled=bundled, transport=dtls[key])
                owners.append(sctp)
        for k, v in {"__isClosed": None, "__transceivers": trs, "__sctp": sctp, "__iceTransports": {d.transport for d in dtls.values()} if False else [d.transport for d in dtls.values()],
                     "__dtlsTransports": list(dtls.values())}.items():
            setattr(me, k, v)
        return me, owners, list(dtls.values())
    T_, S_ = "transceiver", "sctp"
    layouts = [
        ("two transceivers on their own transports", [(T_, False, "a"), (T_, False, "b")]),
        ("two transceivers and SCTP on their own transports", [(T_, False, "a"), (T_, False, "b"), (S_, False, "c")]),
        ("audio is the bundle primary; video and SCTP bundled onto it", [(T_, False, "a"), (T_, True, "a"), (S_, True, "a")]),
        ("max-bundle, data channel first: every user of the single transport is flagged bundled", [(T_, True, "a"), (S_, True, "a")]),
        ("SCTP only", [(S_, False, "a")]),
        ("bundled transceiver whose primary was removed, SCTP elsewhere", [(T_, True, "a"), (S_, False, "b")]),
    ]
    for label, layout in layouts:
        me, owners, transports = graph(layout)
        del stopped_objs[:]
        try:
            oh6.run_method(close, me, [], {})
        except _Rs as ex:
            rep.fail(mk_finding(prog, PROP, "C19-REACH", close, getattr(ex, "node", None), f"[{label}] close() raises {ex.name}", construct=f"close raises {ex.name}"))
            continue
        except _Unk as ex:
            raise AnalysisError(f"C19-REACH cannot evaluate close() for [{label}]: {ex}")
        need = owners + transports + [d.transport for d in transports]
        left = [o.name for o in need if not any(o is x for x in stopped_objs)]
        if left:
            rep.fail(mk_finding(prog, PROP, "C19-REACH", close, close.node, f"[{label}] close() returns without having stopped {left}: their tasks (DTLS receive loop, ICE monitor, "
                                "consent checks) keep running on a connection that reports `closed`", construct="close leaves " + left[0].split("-")[0] + " running"))
        else:
            rep.ok("C19-REACH", label, sample=f"{len(need)} objects stopped")

    # ---------------- C19-SSLERR: close() awaits RTCDtlsTransport.stop(); an OpenSSL error escaping from it (shutdown during the handshake raises a plain
    # SSL.Error, not WantReadError) leaves close() unfinished: the ICE transport is never stopped and the close future never resolves
    rep.rule("C19-SSLERR", "pyOpenSSL calls on the stop() path of the DTLS transport are guarded by a handler for SSL.Error (the whole family)", min_instances=2)
    dstop = prog.func("rtcdtlstransport.RTCDtlsTransport.stop")
    SSL_RAISING = {"shutdown", "do_handshake", "recv", "send", "bio_read", "bio_write", "read", "write"}
    todo = [dstop]
    seen_f = set()
    n_ssl = 0
    while todo:
        fi = todo.pop()
        if fi.qualname in seen_f:
            continue
        seen_f.add(fi.qualname)
        pm: Dict[int, ast.AST] = {}
        for p_ in ast.walk(fi.node):
            for ch in ast.iter_child_nodes(p_):
                pm[id(ch)] = p_
        for n in walk_no_nested(fi.node):
            if not isinstance(n, ast.Call) or not isinstance(n.func, ast.Attribute):
                continue
            if unparse(n.func.value) == "self._ssl" and n.func.attr in SSL_RAISING:
                n_ssl += 1
                cur: Any = n
                guarded = False
                while id(cur) in pm:
                    par = pm[id(cur)]
                    if isinstance(par, ast.Try) and any(cur is b for b in par.body):
                        for hd in par.handlers:
                            names = [unparse(x) for x in (hd.type.elts if isinstance(hd.type, ast.Tuple) else [hd.type])] if hd.type is not None else ["*"]
                            if any(x in ("*", "SSL.Error", "Error", "Exception", "BaseException") for x in names):
                                guarded = True
                    cur = par
                if guarded:
                    rep.ok("C19-SSLERR", f"{fi.qualname}: self._ssl.{n.func.attr}()", sample="inside try/except SSL.Error")
                else:
                    rep.fail(mk_finding(prog, PROP, "C19-SSLERR", fi, n, f"`{unparse(n)}` on the stop() path is not inside a handler for SSL.Error: OpenSSL raises a plain SSL.Error for a shutdown "
                                        "during the handshake; the exception escapes stop(), close() never stops the ICE transport nor resolves its future, a later close() hangs",
                                        construct=f"unguarded self._ssl.{n.func.attr}() on the stop path"))
            # follow self.<method>() calls of the same class
            if isinstance(n.func.value, ast.Name) and n.func.value.id == "self":
                m = prog.find_method(fi.cls, n.func.attr)
                if m is not None:
                    todo.append(m)
    if n_ssl < 2:
        raise AnalysisError(f"C19-SSLERR: only {n_ssl} pyOpenSSL calls found on the stop() path of the DTLS transport")

    # ---------------- C19-STATES: once closed, the aggregated states are `closed` whatever the transports report, and nothing is emitted again
    rep.rule("C19-STATES", "after close() the ICE / connection state computations latch on `closed` and stay silent", min_instances=40)
    import itertools as _it
    from types import SimpleNamespace as _NS

    from engine.index import Unknown as _Unknown
    from engine.peval import Evaluator as _Ev, Raised as _Raised
    PCQ = "rtcpeerconnection.RTCPeerConnection"
    ice_vals = ("new", "checking", "completed", "failed", "closed")
    dtls_vals = ("new", "connecting", "connected", "closed", "failed")
    for fn, field in (("__updateIceConnectionState", "__iceConnectionState"), ("__updateConnectionState", "__connectionState")):
        fi_ = prog.func(f"{PCQ}.{fn}")
        for ices in _it.chain(_it.combinations_with_replacement(ice_vals, 1), _it.combinations(ice_vals, 2)):
            for dtls in (("closed",), ("failed",), ("connected", "closed")):
                for before in ("connected" if "Connection" in fn and "Ice" not in fn else "completed", "closed"):
                    emitted = []

                    def hk(call, ev, emitted=emitted):
                        nm = unparse(call.func)
                        if nm == "self.emit":
                            emitted.append(ev.ev(call.args[0]))
                            return None
                        if nm == "self.__log_debug":
                            return None
                        if nm == "map" and len(call.args) == 2 and isinstance(call.args[0], ast.Lambda):
                            lam = call.args[0]
                            out = []
                            for x in ev.ev(call.args[1]):
                                sub = _Ev(prog, ev.module, ev.cls, dict(ev.env), hk)
                                sub.env[lam.args.args[0].arg] = x
                                out.append(sub.ev(lam.body))
                            return out
                        if nm == "asyncio.ensure_future":
                            emitted.append("<task started>")
                            return None
                        return NotImplemented
                    me = _NS(**{"__isClosed": "closed-future", "__iceTransports": [_NS(state=s, iceGatherer=_NS(state="completed")) for s in ices],
                               "__dtlsTransports": [_NS(state=s) for s in dtls], field: before, "__closeTask": None})
                    ev5 = _Ev(prog, fi_.module, fi_.cls, {"self": me}, hk)
                    try:
                        ev5.exec_block(fi_.node.body)
                    except (_Raised, _Unknown) as ex:
                        raise AnalysisError(f"C19-STATES cannot evaluate {fn}: {ex}")
                    got = getattr(me, field)
                    label = f"{fn.strip('_')}: closed, ICE transports {list(ices)}, DTLS transports {list(dtls)}, previous state {before}"
                    want_events = [] if before == "closed" else None
                    if got == "closed" and (want_events is None or emitted == want_events) and "<task started>" not in emitted:
                        rep.ok("C19-STATES", label, sample=f"state closed, events {emitted}")
                    else:
                        rep.fail(mk_finding(prog, PROP, "C19-STATES", fi_, fi_.node,
                                            f"{label}: the state becomes {got!r} and {emitted or 'nothing'} is emitted; after close() it must stay `closed` with no further events",
                                            construct=f"{fn.strip('_')} after close: {got}"))

    # ---------------- C19-CHANNELS (shared with C13)
    rep.rule("C19-CHANNELS", "every data channel is closed when the association is closed", min_instances=2)
    from .common import close_all_channels_rule
    close_all_channels_rule(rep, prog, PROP, "C19-CHANNELS")

    # ---------------- C19-TRACK: stopping a receiver always tells its remote track that it has ended
    rep.rule("C19-TRACK", "RTCRtpReceiver.stop() signals end-of-track on every path on which a remote track exists", min_instances=1)
    rstop = prog.func("rtcrtpreceiver.RTCRtpReceiver.stop")

    def ev_track(node, f):
        if isinstance(node, ast.Call):
            nm = unparse(node.func)
            if nm == "self.__stop_decoder":
                return ["end-signal"]
            if nm in ("self._track._queue.put_nowait", "self._track._queue.put") and node.args and isinstance(node.args[0], ast.Constant) and node.args[0].value is None:
                return ["end-signal"]
            if nm == "self._track.stop":
                return ["end-signal"]
        return []
    dom = EventsDomain(prog, ev_track)
    # a path on which there is no track has nothing to signal (path-sensitive: recorded as an event so that it survives joins)
    dom.on_refine = lambda text, truth: ["end-signal"] if (text, truth) in (("self._track is not None", False), ("self._track is None", True), ("self._track", False)) else []
    act = dom.run(rstop)
    bad = [st for st, _n in act.returns if "end-signal" not in st.events]
    sd = prog.func("rtcrtpreceiver.RTCRtpReceiver.__stop_decoder")
    feeds = any(isinstance(n, ast.Call) and unparse(n.func).endswith("__decoder_queue.put") and n.args and isinstance(n.args[0], ast.Constant) and n.args[0].value is None
                for n in walk_no_nested(sd.node))
    if bad or not act.returns or not feeds:
        rep.fail(mk_finding(prog, PROP, "C19-TRACK", rstop, rstop.node, "stop() can return without anything telling the remote track that it has ended (a receiver that was never started "
                            "has no decoder thread to do it): after close() the received track stays live and recv() blocks for ever", construct="end-of-track on every path"))
    else:
        rep.ok("C19-TRACK", "RTCRtpReceiver.stop: end-of-track signalled whether or not the receiver had been started", sample=f"{len(act.returns)} exit(s)")

    # ---------------- C19-APIGUARD: nothing new is created on a closed connection - every public method that creates a transceiver, a transport or a data channel
    # checks the closed latch first (or validates a description, which rejects `closed`); sibling agreement over the public API
    rep.rule("C19-APIGUARD", "public RTCPeerConnection methods that create transceivers / transports / data channels are fenced by __assertNotClosed() or the description validation", min_instances=4)
    pc_cls = prog.cls(pc)
    creators = ("self.__createTransceiver", "self.__createSctpTransport", "self.__createDtlsTransport", "RTCDataChannel", "RTCRtpTransceiver")
    n_guarded = 0
    for fi in pc_cls.methods.values():
        if fi.name.startswith("_") or fi.name == "__init__":
            continue
        sites: List[Any] = []

        def _ev_g(node, f):
            if isinstance(node, ast.Call) and unparse(node.func) in ("self.__assertNotClosed", "self.__validate_description"):
                return ["fenced"]
            return []

        def _ob_g(node, st, f, sites=sites):
            if isinstance(node, ast.Call) and unparse(node.func) in creators:
                sites.append((node, "fenced" in st.events))
        EventsDomain(prog, _ev_g, _ob_g).run(fi)
        for node, ok in sites:
            n_guarded += 1
            if ok:
                rep.ok("C19-APIGUARD", f"{fi.name}: `{unparse(node.func)}` after the closed check", sample=f"line {node.lineno}")
            else:
                rep.fail(mk_finding(prog, PROP, "C19-APIGUARD", fi, node, f"{fi.name}() reaches `{unparse(node.func)}(...)` without __assertNotClosed() (its sibling methods have it): called on a closed connection it "
                                    "creates an object that close() will never tear down - a data channel that stays `connecting`, transports that are never stopped", construct=f"{fi.name} creates objects on a closed connection"))
    if n_guarded < 4:
        raise AnalysisError(f"C19-APIGUARD: only {n_guarded} creation sites found in the public API")

    # ---------------- C19-ICECLOSED: `closed` is final for the ICE transport, and a connectivity check that completes after stop() does not leave aioice running
    rep.rule("C19-ICECLOSED", "RTCIceTransport: no state change out of `closed`; start() closes the connection again when connect() returns after stop()", min_instances=3)
    from types import SimpleNamespace as _NSi

    from engine.index import Unknown as _UnkI
    from engine.peval import Evaluator as _EvI, Raised as _RsI

    from .objhook import make_hook as _mkhI
    ice_cls = prog.cls("rtcicetransport.RTCIceTransport")
    set_state = prog.find_method(ice_cls, "__setState")
    ice_start = prog.func("rtcicetransport.RTCIceTransport.start")
    if set_state is None:
        raise AnalysisError("RTCIceTransport.__setState not found")
    emitted: List[Any] = []
    closed_calls: List[Any] = []

    def _ix(call, evl):
        nm = unparse(call.func)
        if nm in ("self.emit", "self.__log_debug", "self.iceGatherer.remove_all_listeners", "self.remove_all_listeners"):
            if nm == "self.emit":
                emitted.append(evl.ev(call.args[0]))
            return None
        if nm == "self._connection.connect":
            # stop() runs while the checks are completing, then connect() reports success
            evl.env["self"].__dict__["__state"] = "closed" if evl.env["self"].stop_during_connect else evl.env["self"].__dict__["__state"]
            return None
        if nm == "self._connection.close":
            closed_calls.append(True)
            return None
        if nm == "asyncio.Event":
            return _NSi(is_set=False)
        if nm in ("self.__start.set", "self.__start.wait"):
            return None
        if nm == "asyncio.ensure_future":
            return _NSi()
        if nm == "self._monitor":
            return None
        return NotImplemented
    ihk = _mkhI(prog, _ix)
    for new_state in ("checking", "completed", "failed", "new"):
        del emitted[:]
        me = _NSi(__cls__=ice_cls, role="controlling", iceGatherer=_NSi())
        setattr(me, "__state", "closed")
        try:
            ihk.run_method(set_state, me, [new_state], {})
        except (_RsI, _UnkI) as ex:
            raise AnalysisError(f"C19-ICECLOSED cannot evaluate __setState: {ex}")
        if getattr(me, "__state") == "closed" and not emitted:
            rep.ok("C19-ICECLOSED", f"__setState({new_state!r}) on a closed transport: ignored")
        else:
            rep.fail(mk_finding(prog, PROP, "C19-ICECLOSED", set_state, set_state.node, f"a closed ICE transport becomes {getattr(me, '__state')!r} (events {emitted}) when __setState({new_state!r}) runs: start() resumes after "
                                "stop() and reports the outcome of the connectivity checks, the transport leaves `closed` after close() has returned", construct="ICE transport leaves closed"))
    for stop_during in (True, False):
        del closed_calls[:]
        me = _NSi(__cls__=ice_cls, role="controlling", iceGatherer=_NSi(), stop_during_connect=stop_during,
                  _connection=_NSi(remote_is_lite=False, remote_username=None, remote_password=None))
        for k_, v_ in {"__state": "new", "__start": None, "__monitor_task": None}.items():
            setattr(me, k_, v_)
        try:
            ihk.run_method(ice_start, me, [_NSi(iceLite=False, usernameFragment="u", password="p")], {})
        except (_RsI, _UnkI) as ex:
            raise AnalysisError(f"C19-ICECLOSED cannot evaluate start(): {ex}")
        state_now = getattr(me, "__state")
        if stop_during:
            if state_now == "closed" and closed_calls:
                rep.ok("C19-ICECLOSED", "start(): connect() succeeds after stop(): the connection is closed again, the state stays closed")
            else:
                rep.fail(mk_finding(prog, PROP, "C19-ICECLOSED", ice_start, ice_start.node, f"stop() ran while connect() was completing and connect() then succeeded: the transport ends {state_now!r} and the "
                                    f"connection is {'closed again' if closed_calls else 'not closed again'}: aioice has started its consent checks for a connection nobody will ever close",
                                    construct="connect() completing after stop() is not undone"))
        elif state_now != "completed":
            rep.fail(mk_finding(prog, PROP, "C19-ICECLOSED", ice_start, ice_start.node, f"after a successful connect() the transport is {state_now!r}", construct="ICE start does not complete"))
        else:
            rep.ok("C19-ICECLOSED", "start(): successful connect() ends in `completed`")

    # ---------------- C19-SCTPSTOP: stop() of the SCTP transport always runs the CLOSED transition - that is what closes channels which were created after the
    # association had already ended (they live only in the pending-message queue)
    rep.rule("C19-SCTPSTOP", "RTCSctpTransport.stop() reaches _set_state(CLOSED) on every normal exit", min_instances=1)
    sstop = prog.func("rtcsctptransport.RTCSctpTransport.stop")

    def _ev_ss(node, f):
        if isinstance(node, ast.Call) and unparse(node.func) == "self._set_state" and node.args and unparse(node.args[0]).endswith("State.CLOSED"):
            return ["closed-transition"]
        return []
    act_ss = EventsDomain(prog, _ev_ss).run(sstop)
    bad_ss = [getattr(n_, "lineno", None) or "end of function" for st_, n_ in act_ss.returns if "closed-transition" not in st_.events]
    if not act_ss.returns:
        raise AnalysisError("RTCSctpTransport.stop has no normal exit?")
    if bad_ss:
        rep.fail(mk_finding(prog, PROP, "C19-SCTPSTOP", sstop, sstop.node, f"stop() can return (line {bad_ss}) without _set_state(CLOSED): a data channel created after the peer ended the association "
                            "(it has no id and lives only in the pending-message queue) stays `connecting` after close()", construct="SCTP stop() skips the CLOSED transition"))
    else:
        rep.ok("C19-SCTPSTOP", "stop(): _set_state(CLOSED) on every normal exit", sample=f"{len(act_ss.returns)} exit(s)")
    # __connect() may resume after close(): it starts media / SCTP only over a DTLS transport that is connected (rule C03-STARTED)
    from .common import import_rules as _imp
    _imp(rep, prog, tier, PROP, "C19-CONNECT", "C03", ["C03-STARTED"],
         "__connect() starts senders, receivers and SCTP only under `dtlsTransport.state == 'connected'`: resumed after a close() it starts nothing on the closed connection (rule C03-STARTED)", 4)

    # ---------------- C19-SIGNALING (= C14-ABSORB): a negotiation call resumed after close() cannot move signalingState away from closed
    from .common import import_rules
    import_rules(rep, prog, tier, PROP, "C19-SIGNALING", "C14", ["C14-ABSORB", "C14-CLOSED"],
                 "signalingState is closed before close() first suspends (a description arriving during the teardown is refused, so no transceiver or track escapes it) and stays closed "
                 "afterwards (rules C14-CLOSED, C14-ABSORB)", 5)

    # ---------------- C19-LATCH: RTCIceTransport.stop() marks the transport closed before it suspends, so that a start() racing with it is refused
    rep.rule("C19-LATCH", "RTCIceTransport.stop() sets the closed state before its first await", min_instances=1)
    istop = prog.func("rtcicetransport.RTCIceTransport.stop")
    sets = [n for n in walk_no_nested(istop.node) if isinstance(n, ast.Call) and unparse(n.func).endswith("__setState") and n.args and isinstance(n.args[0], ast.Constant) and n.args[0].value == "closed"]
    awaits_ = [n for n in walk_no_nested(istop.node) if isinstance(n, ast.Await)]
    istart = prog.func("rtcicetransport.RTCIceTransport.start")
    refuses = any(isinstance(n, ast.If) and "closed" in unparse(n.test) and any(isinstance(b, ast.Raise) for b in n.body) for n in walk_no_nested(istart.node))
    if sets and awaits_ and min(x.lineno for x in sets) < min(x.lineno for x in awaits_) and refuses:
        rep.ok("C19-LATCH", "RTCIceTransport.stop: closed before the first await; start() refuses a closed transport", sample=unparse(sets[0]))
    else:
        rep.fail(mk_finding(prog, PROP, "C19-LATCH", istop, sets[0] if sets else istop.node, "the ICE transport only becomes `closed` after stop() has suspended (or start() does not refuse a closed transport): "
                            "the connection's __connect() task, which is never cancelled, can start ICE on a transport that is being torn down and is left running after close()",
                            construct="closed state latched before suspending"))

    # ---------------- C19-LIVEITER: no suspension inside a loop over a live set / dict of the object
    # (close() and the stop() methods run concurrently with negotiation calls and receive loops; if another coroutine adds to or removes from the collection while the
    #  loop is suspended, the next step of the loop raises RuntimeError: close() ends with an exception and its future is never resolved.  Lists only grow / shrink under
    #  the iterator and do not raise; a copy - list(...), sorted(...), tuple(...) - is safe.)
    rep.rule("C19-LIVEITER", "loops that suspend iterate over a copy of any set / dict attribute that other methods mutate", min_instances=10)
    MUT = {"add", "discard", "remove", "pop", "popitem", "clear", "update", "setdefault"}
    for ci_ in prog.classes.values():
        if ci_.module.name not in ("rtcpeerconnection", "rtcrtpreceiver", "rtcrtpsender", "rtcdtlstransport", "rtcicetransport", "rtcsctptransport", "rtcrtptransceiver"):
            continue
        init_ = ci_.methods.get("__init__")
        if init_ is None:
            continue
        kinds: Dict[str, str] = {}
        for n in walk_no_nested(init_.node):
            tgt = n.targets[0] if isinstance(n, ast.Assign) else (n.target if isinstance(n, ast.AnnAssign) else None)
            val = getattr(n, "value", None)
            if isinstance(tgt, ast.Attribute) and unparse(tgt.value) == "self" and val is not None:
                txt = unparse(val)
                ann = unparse(n.annotation).lower() if isinstance(n, ast.AnnAssign) else ""
                if txt in ("set()", "{}") or isinstance(val, (ast.Set, ast.Dict, ast.SetComp, ast.DictComp)) or txt.startswith(("dict(", "set(")) or ann.startswith(("set[", "dict[", "typing.set", "typing.dict")):
                    kinds[tgt.attr] = "dict" if (txt == "{}" or isinstance(val, (ast.Dict, ast.DictComp)) or txt.startswith("dict(") or "dict" in ann) else "set"
        mutated: Dict[str, List[str]] = {}
        for m_ in ci_.methods.values():
            for n in walk_no_nested(m_.node):
                if isinstance(n, ast.Call) and isinstance(n.func, ast.Attribute) and n.func.attr in MUT and isinstance(n.func.value, ast.Attribute) and unparse(n.func.value.value) == "self":
                    mutated.setdefault(n.func.value.attr, []).append(m_.name)
                for t in (n.targets if isinstance(n, ast.Assign) else [n.target] if isinstance(n, (ast.AugAssign,)) else (n.targets if isinstance(n, ast.Delete) else [])):
                    if isinstance(t, ast.Subscript) and isinstance(t.value, ast.Attribute) and unparse(t.value.value) == "self":
                        mutated.setdefault(t.value.attr, []).append(m_.name)
        for m_ in ci_.methods.values():
            for loop in [n for n in walk_no_nested(m_.node) if isinstance(n, (ast.For, ast.AsyncFor))]:
                if not any(isinstance(x, (ast.Await, ast.Yield, ast.YieldFrom)) for b in loop.body for x in ast.walk(b)):
                    continue
                it = loop.iter
                if isinstance(it, ast.Call) and isinstance(it.func, ast.Attribute) and it.func.attr in ("items", "values", "keys") and not it.args:
                    it = it.func.value
                if not (isinstance(it, ast.Attribute) and unparse(it.value) == "self" and it.attr in kinds):
                    copy_ = any(isinstance(x, ast.Attribute) and unparse(x.value) == "self" and x.attr in kinds for x in ast.walk(loop.iter))
                    rep.ok("C19-LIVEITER", f"{m_.qualname}: suspending loop over `{unparse(loop.iter)[:60]}`" + (" (a copy of a set / dict attribute)" if copy_ else " (not a set / dict attribute)"), nontrivial=copy_)
                    continue
                others = sorted(set(mutated.get(it.attr, [])))
                if others:
                    rep.fail(mk_finding(prog, PROP, "C19-LIVEITER", m_, loop.iter, f"the loop suspends (await) while iterating directly over the {kinds[it.attr]} self.{it.attr}, which {', '.join(others[:4])} "
                                        f"change: when one of them runs during the suspension the loop raises RuntimeError ({kinds[it.attr]} changed size during iteration) and "
                                        f"{m_.name}() never completes", construct=f"live iteration over self.{it.attr} in {m_.name}"))
                else:
                    rep.ok("C19-LIVEITER", f"{m_.qualname}: self.{it.attr} is never changed after __init__")

    # ---------------- C19-LATESPAWN: a task that stop() / close() cancels is not created after a suspension without re-checking the state
    # (stop() may have run during the suspension: it found no task to cancel, so a task created afterwards is never cancelled - on a closed aioice connection the
    #  monitor loop does not even suspend and spins for ever)
    rep.rule("C19-LATESPAWN", "tasks held in attributes that stop() cancels are created before the method first suspends, or behind a state guard that follows the last suspension", min_instances=4)
    SPAWN = ("ensure_future", "create_task")

    def _has_await(st: ast.AST) -> bool:
        return any(isinstance(x, (ast.Await, ast.AsyncFor, ast.AsyncWith)) for x in walk_no_nested(st)) or isinstance(st, (ast.AsyncFor, ast.AsyncWith))

    def _flows_await(st: ast.AST) -> bool:
        """a suspension inside `st` can be followed by the statement after `st` (branches that always return / raise do not count)"""
        if isinstance(st, ast.If):
            if any(isinstance(x, ast.Await) for x in ast.walk(st.test)):
                return True
            return any(not isinstance(blk[-1], (ast.Return, ast.Raise)) and any(_flows_await(b) for b in blk) for blk in (st.body, st.orelse) if blk)
        return _has_await(st)

    def _is_guard(st: ast.AST) -> bool:
        if not isinstance(st, ast.If) or st.orelse:
            return False
        reads_state = any(isinstance(x, ast.Attribute) and unparse(x.value) == "self" and ("state" in x.attr.lower() or "closed" in x.attr.lower()) for x in ast.walk(st.test))
        return reads_state and isinstance(st.body[-1], (ast.Return, ast.Raise)) and not _has_await(st)
    for ci_ in prog.classes.values():
        if ci_.module.name not in ("rtcpeerconnection", "rtcrtpreceiver", "rtcrtpsender", "rtcdtlstransport", "rtcicetransport", "rtcsctptransport"):
            continue
        # attributes that stop() / close() cancel or wait for
        cancelled = {n.attr for name_ in ("stop", "close") if name_ in ci_.methods for n in walk_no_nested(ci_.methods[name_].node)
                     if isinstance(n, ast.Attribute) and unparse(n.value) == "self"}
        for m_ in ci_.methods.values():
            from .C06 import parents_of as _parents_of
            pm_ = _parents_of(m_.node)
            for sp in [n for n in walk_no_nested(m_.node) if isinstance(n, ast.Assign) and isinstance(n.value, ast.Call) and unparse(n.value.func).split(".")[-1] in SPAWN
                       and isinstance(n.targets[0], ast.Attribute) and unparse(n.targets[0].value) == "self" and n.targets[0].attr in cancelled]:
                verdict = None          # "guard" / "await" / None (reached the start of the method)
                cur: ast.AST = sp
                while verdict is None and cur is not m_.node:
                    par = pm_.get(id(cur))
                    if par is None:
                        break
                    before: List[ast.AST] = []
                    for fld in ("body", "orelse", "finalbody"):
                        blk = getattr(par, fld, None)
                        if isinstance(blk, list) and any(x is cur for x in blk):
                            before = list(reversed(blk[:next(i for i, x in enumerate(blk) if x is cur)]))
                            if isinstance(par, ast.Try) and fld in ("orelse", "finalbody"):
                                before += list(reversed(par.body))
                    if isinstance(par, ast.ExceptHandler):
                        pass
                    if isinstance(par, ast.Try) and any(cur is h for h in par.handlers):
                        before = list(reversed(par.body))
                    for st in before:
                        if _is_guard(st):
                            verdict = "guard"
                            break
                        if _flows_await(st):
                            verdict = "await"
                            break
                    if verdict is None and isinstance(par, (ast.If, ast.While)) and _has_await(par.test):
                        verdict = "await"
                    cur = par
                what = f"{m_.qualname}: self.{sp.targets[0].attr} = {unparse(sp.value)[:50]}"
                if verdict == "await":
                    rep.fail(mk_finding(prog, PROP, "C19-LATESPAWN", m_, sp, f"{what} runs after the method has suspended, with no state guard in between: a stop() that ran during the suspension found "
                                        f"no task to cancel, so this task is left running after close()", construct=f"task self.{sp.targets[0].attr} created after a suspension"))
                else:
                    rep.ok("C19-LATESPAWN", what, sample="before the first suspension" if verdict is None else "behind a state guard that follows the last suspension")

    # ---------------- C19-SIM: close() between negotiation calls, through the negotiation simulator (rules/pcnego.py)
    from .pcnego import c19_sim
    c19_sim(rep, prog, tier)

    # ---------------- C19-STOPEVAL: stop() of a started sender / receiver, evaluated for every combination of "its loops have already ended on their own"
    # (a source track that ended, a peer that went away): every task the object started is cancelled - or known to have exited - and the object is unregistered
    rep.rule("C19-STOPEVAL", "stop() of a started sender / receiver cancels every task it started whichever of them already ended, and unregisters from the transport", min_instances=6)
    from .objhook import make_hook as _mk_se

    class _Evt:
        def __init__(self, is_set_: bool) -> None:
            self._set = is_set_

    for qn, tasks, unreg in (("rtcrtpsender.RTCRtpSender", [("__rtp_task", "__rtp_exited"), ("__rtcp_task", "__rtcp_exited")], "_unregister_rtp_sender"),
                             ("rtcrtpreceiver.RTCRtpReceiver", [("__rtcp_task", "__rtcp_exited")], "_unregister_rtp_receiver")):
        stop_f = prog.func(qn + ".stop")
        for combo in itertools.product((False, True), repeat=len(tasks)):
            log: List[str] = []

            def _sx(call, evl, log=log):
                nm = unparse(call.func)
                if isinstance(call.func, ast.Attribute):
                    try:
                        base = evl.ev(call.func.value)
                    except Unknown:
                        base = None
                    if isinstance(base, _Evt):
                        if call.func.attr == "is_set":
                            return base._set
                        if call.func.attr in ("wait", "set", "clear"):
                            return None
                    if isinstance(base, SimpleNamespace) and getattr(base, "task_name", None) and call.func.attr == "cancel":
                        log.append("cancel " + base.task_name)
                        return None
                    if call.func.attr == unreg:
                        log.append("unregister")
                        return None
                if nm == "asyncio.gather":
                    for a in call.args:
                        evl.ev(a)
                    return None
                if nm.endswith("__stop_decoder") or nm.endswith("__log_debug"):
                    return None
                return NotImplemented
            sh = _mk_se(prog, _sx)
            me = SimpleNamespace(__cls__=stop_f.cls, _track=None)
            setattr(me, "__started", True)
            setattr(me, "__transport", SimpleNamespace(name="transport"))
            for (tname, ename), ended in zip(tasks, combo):
                setattr(me, tname, SimpleNamespace(task_name=tname))
                setattr(me, ename, _Evt(ended))
                setattr(me, ename.replace("_exited", "_started"), _Evt(True))
            what = f"{qn.split('.')[-1]}.stop(): " + ", ".join(f"{t.strip('_')} {'already ended' if e else 'running'}" for (t, _e), e in zip(tasks, combo))
            try:
                sh.run_method(stop_f, me, [], {})
            except Raised as ex:
                rep.fail(mk_finding(prog, PROP, "C19-STOPEVAL", stop_f, getattr(ex, "node", None), f"{what}: raises {ex.name}", construct=f"stop raises {ex.name}"))
                continue
            except Unknown as ex:
                # (a supplementary evaluation on a minimal stand-in object; the structural rules C19-STOP / C19-EVENTS decide the ordering for code this stand-in cannot run)
                rep.ok("C19-STOPEVAL", f"{what}: not decided ({str(ex)[:60]})", nontrivial=False)
                continue
            left = [t for (t, _e), ended in zip(tasks, combo) if not ended and "cancel " + t not in log]
            problems = []
            if left:
                problems.append(f"{', '.join(x.strip('_') for x in left)} still running and not cancelled")
            if "unregister" not in log:
                problems.append("not unregistered from the transport")
            if problems:
                rep.fail(mk_finding(prog, PROP, "C19-STOPEVAL", stop_f, stop_f.node, f"{what}: " + "; ".join(problems) + ": the task outlives close()", construct="stop leaves " + (left[0].strip("_") if left else "registration")))
            else:
                rep.ok("C19-STOPEVAL", what, sample=", ".join(log))
