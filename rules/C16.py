"""C16 — H.264 / VP8 packetisation.

  C16-VP8      VpxPayloadDescriptor.__bytes__ and .parse agree for every combination of optional fields and both
               PictureID widths (finite-domain evaluation of the two bodies over the descriptor's flag space):
               same field values back, payload bytes verbatim
  C16-VP8-PKT  Vp8Encoder._packetize: first descriptor has partition_start=1 and it is cleared after the first
               packet; slice width == cursor stride; payload length <= PACKET_MAX by construction (min lemma);
               picture id advances modulo 2^15
  C16-STAP     _packetize_stap_a: the size budget is decremented by exactly the number of bytes appended
               (linear length forms), STAP-A length prefix is len() of the very bytes appended, reader uses the same
               2-byte prefix
  C16-FUA      FU-A: indicator/header bit constants agree between writer and reader
  C16-SEQ      H264Encoder._packetize over sequences of NAL sizes around every budget boundary (single / STAP-A / FU-A mixes): every payload
               <= 1300 bytes and the depacketised concatenation equals the bitstream
  C16-SINGLE   single NAL unit packets of every type 1..23 and NRI are depacketised to start code + unit
  C16-DISPATCH depayload dispatches VP8 and H264 payloads to their descriptor parsers
Does not decide: the <= 1300 bound of STAP-A totals for all size sequences (FU-A: decided on the boundary size classes k*1297..1300 +-1),
bit-exact reconstruction for all inputs.
"""
from __future__ import annotations

import ast
import itertools
import struct
from types import SimpleNamespace
from typing import Any, Dict, List, Optional

from engine.index import AnalysisError, Program, Unknown, unparse, walk_no_nested
from engine.peval import Evaluator, Raised, Ret
from engine.report import Report, mk_finding

PROP = "C16"
VPX = "codecs.vpx.VpxPayloadDescriptor"


def _hook(call: ast.Call, ev: Evaluator) -> Any:
    name = unparse(call.func)
    if name == "pack":
        args = [ev.ev(a) for a in call.args]
        try:
            return struct.pack(*args)
        except struct.error as e:
            raise Raised("struct.error", call)
    if name == "unpack_from":
        args = [ev.ev(a) for a in call.args]
        try:
            return struct.unpack_from(*args)
        except struct.error:
            raise Raised("struct.error", call)
    if name == "cls":
        return SimpleNamespace(**{k.arg: ev.ev(k.value) for k in call.keywords})
    if name == "bytes" and not call.args:
        return b""
    return NotImplemented


def run(rep: Report, prog: Program, tier: str) -> None:
    rep.explanation = (
        "Writer/reader agreement of the payload descriptors decided by evaluating both function bodies (AST level, pure fragment) over "
        "the complete flag space of the VP8 descriptor; budget/length pairing in the STAP-A packetiser decided by comparing linear "
        "length forms of the appended bytes and the budget decrement; bit constants and dispatch checked structurally."
    )
    rep.assumptions += ["struct.pack/unpack_from of the standard library are used to interpret the format strings in the evaluated bodies"]
    vpx = prog.module("codecs.vpx")
    ci = prog.cls(VPX)
    to_bytes = prog.func(VPX + ".__bytes__")
    parse = prog.func(VPX + ".parse")

    # ---- C16-VP8
    rep.rule("C16-VP8", "descriptor writer/reader agreement over the flag space", min_instances=100)
    payload = b"\x9d\x01\x2a\x55"
    n = 0
    for ps, pid, pic, tl0, tid, key in itertools.product([0, 1], [0, 5], [None, 0, 127, 128, 32767], [None, 0, 9], [None, (2, 1), (0, 0)], [None, 0, 17]):
        n += 1
        obj = SimpleNamespace(partition_start=ps, partition_id=pid, picture_id=pic, tl0picidx=tl0, tid=tid, keyidx=key)
        desc = f"S={ps} PID={pid} picture_id={pic} tl0picidx={tl0} tid={tid} keyidx={key}"
        try:
            ev = Evaluator(prog, vpx, ci, {"self": obj}, _hook)
            try:
                ev.exec_block(to_bytes.node.body)
                raw = None
            except Ret as r:
                raw = r.value
            ev2 = Evaluator(prog, vpx, ci, {"data": raw + payload, "cls": "cls"}, _hook)
            try:
                ev2.exec_block(parse.node.body)
                back = None
            except Ret as r:
                back = r.value
        except Unknown as u:
            raise AnalysisError(f"C16-VP8: cannot evaluate descriptor code: {u}")
        except Raised as r:
            rep.fail(mk_finding(prog, PROP, "C16-VP8", parse, r.node, f"descriptor {desc} serialises to {raw!r} but parsing it raises {r.name}",
                                construct=f"vp8 descriptor {desc}"))
            continue
        got, rest = back
        want = dict(vars(obj))
        # absent optional fields come back as None; T/K share one octet: an absent half reads as its zero bits only if the other half is present
        ok = rest == payload and got.partition_start == ps and got.partition_id == pid and got.picture_id == pic and got.tl0picidx == tl0 \
            and got.tid == tid and got.keyidx == key
        if ok:
            rep.ok("C16-VP8", f"vp8 descriptor {desc}", sample=f"bytes {raw.hex()} parse back to the same fields; payload verbatim")
        else:
            rep.fail(mk_finding(prog, PROP, "C16-VP8", parse, parse.node,
                                f"descriptor {desc} -> {raw.hex()} parses back as {vars(got)} with payload {rest!r} (expected {payload!r})",
                                construct=f"vp8 descriptor {desc}"))
    rep.analysed["vp8_descriptor_cases"] = n

    # ---- C16-VP8-PKT (evaluation of _packetize over boundary length classes)
    rep.rule("C16-VP8-PKT", "Vp8Encoder._packetize over boundary buffer lengths", min_instances=8)
    pk = prog.func("codecs.vpx.Vp8Encoder._packetize")
    pmax = prog.const(vpx, "PACKET_MAX")
    if pmax != 1300 or prog.const(prog.module("codecs.h264"), "PACKET_MAX") != 1300:
        rep.fail(mk_finding(prog, PROP, "C16-VP8-PKT", pk, pk.node, "PACKET_MAX is not 1300", construct="PACKET_MAX"))

    def vp8_hook(call: ast.Call, ev: Evaluator) -> Any:
        name = unparse(call.func)
        if name == "VpxPayloadDescriptor":
            d = dict(partition_start=None, partition_id=None, picture_id=None, tl0picidx=None, tid=None, keyidx=None)
            d.update({k.arg: ev.ev(k.value) for k in call.keywords})
            return SimpleNamespace(**d)
        if name == "bytes" and len(call.args) == 1:
            v = ev.ev(call.args[0])
            if isinstance(v, SimpleNamespace):
                sub = Evaluator(prog, vpx, ci, {"self": v}, _hook)
                try:
                    sub.exec_block(to_bytes.node.body)
                except Ret as r:
                    return r.value
                return None
            return bytes(v)
        return _hook(call, ev)

    def vp8_parse(raw: bytes):
        ev2 = Evaluator(prog, vpx, ci, {"data": raw, "cls": "cls"}, _hook)
        try:
            ev2.exec_block(parse.node.body)
        except Ret as r:
            return r.value
        return None

    for pic in (5, 128, 32767):
        lengths = (0, 1, pmax - 5, pmax - 4, pmax - 3, pmax - 2, pmax, 2 * pmax, 2 * (pmax - 4), 3000)
        if tier == "thorough":
            lengths += tuple(k * (pmax - d) + e for k in (1, 2, 3, 5) for d in (0, 1, 2, 3, 4, 5, 6) for e in (-1, 0, 1)) + (10 * pmax + 7,)
        for length in sorted(set(x for x in lengths if x >= 0)):
            buf = bytes((i * 7 + 3) % 256 for i in range(length))
            desc = f"buffer of {length} bytes, picture id {pic}"
            try:
                ev = Evaluator(prog, vpx, prog.cls("codecs.vpx.Vp8Encoder"), {"buffer": buf, "picture_id": pic, "cls": "cls"}, vp8_hook)
                try:
                    ev.exec_block(pk.node.body)
                    payloads = None
                except Ret as r:
                    payloads = r.value
                problems = []
                out = b""
                for i, pl in enumerate(payloads):
                    if len(pl) > 1300:
                        problems.append(f"payload {i} is {len(pl)} bytes")
                    d, rest = vp8_parse(pl)
                    out += rest
                    if d.partition_start != (1 if i == 0 else 0):
                        problems.append(f"payload {i} has partition_start={d.partition_start}")
                    if d.picture_id != pic:
                        problems.append(f"payload {i} carries picture id {d.picture_id}")
                if out != buf:
                    problems.append("depacketised bytes differ from the buffer")
            except Unknown as u:
                raise AnalysisError(f"C16-VP8-PKT: cannot evaluate _packetize: {u}")
            except Raised as r:
                problems = [f"raises {r.name}"]
            if problems:
                rep.fail(mk_finding(prog, PROP, "C16-VP8-PKT", pk, pk.node, f"{desc}: {problems[:3]}", construct=f"vp8 packetize {desc}"))
            else:
                rep.ok("C16-VP8-PKT", f"vp8 packetize {desc}", sample=f"{len(payloads)} payloads, each <= 1300, S bit only on the first, bytes verbatim")
    for fn in ("codecs.vpx.Vp8Encoder.encode", "codecs.vpx.Vp8Encoder.pack"):
        f = prog.func(fn)
        adv = [s_.value for s_ in walk_no_nested(f.node) if isinstance(s_, ast.Assign) and unparse(s_.targets[0]) == "self.picture_id"]
        good = len(adv) == 1
        if good:
            for cur in (0, 5, 32766, 32767):
                try:
                    nxt = Evaluator(prog, vpx, None, {"self.picture_id": cur}).ev(adv[0])
                except Unknown:
                    nxt = None
                good = good and nxt == (cur + 1) % 32768
        if good:
            rep.ok("C16-VP8-PKT", f"{fn}: picture id advances modulo 2^15", sample=unparse(adv[0]))
        else:
            rep.fail(mk_finding(prog, PROP, "C16-VP8-PKT", f, f.node, "picture id does not advance by one modulo 2^15", construct="picture id advance"))

    # ---- C16-STAP
    rep.rule("C16-STAP", "STAP-A budget decrement equals bytes appended", min_instances=3)
    h264 = prog.module("codecs.h264")
    stap = prog.func("codecs.h264.H264Encoder._packetize_stap_a")

    def lin(e: ast.AST) -> Optional[Dict[str, int]]:
        """linear length form: {'#': const, 'len(x)': coef}"""
        c = prog.try_const(e, h264, None)
        if isinstance(c, int):
            return {"#": c}
        if isinstance(e, ast.BinOp) and isinstance(e.op, ast.Add):
            a, b = lin(e.left), lin(e.right)
            if a is None or b is None:
                return None
            out = dict(a)
            for k, v in b.items():
                out[k] = out.get(k, 0) + v
            return out
        if isinstance(e, ast.Call) and unparse(e.func) == "len" and len(e.args) == 1:
            return {f"len({unparse(e.args[0])})": 1}
        return None

    def length_of(e: ast.AST) -> Optional[Dict[str, int]]:
        if isinstance(e, ast.BinOp) and isinstance(e.op, ast.Add):
            a, b = length_of(e.left), length_of(e.right)
            if a is None or b is None:
                return None
            out = dict(a)
            for k, v in b.items():
                out[k] = out.get(k, 0) + v
            return out
        if isinstance(e, ast.Call) and unparse(e.func) == "pack" and e.args:
            f = prog.try_const(e.args[0], h264, None)
            if isinstance(f, str):
                return {"#": struct.calcsize(f)}
        if isinstance(e, ast.Call) and isinstance(e.func, ast.Attribute) and e.func.attr == "pack" and isinstance(e.func.value, ast.Name):
            # NAME.pack(...) where NAME = Struct("fmt") at module level
            v = h264.assigns.get(e.func.value.id)
            if isinstance(v, ast.Call) and unparse(v.func) in ("Struct", "struct.Struct") and v.args:
                f = prog.try_const(v.args[0], h264, None)
                if isinstance(f, str):
                    return {"#": struct.calcsize(f)}
        if isinstance(e, ast.Name):
            return {f"len({e.id})": 1}
        return None

    loop = next((x for x in walk_no_nested(stap.node) if isinstance(x, ast.While)), None)
    if loop is None:
        raise AnalysisError("_packetize_stap_a: loop not found")
    dec = app = None
    for s in loop.body:
        if isinstance(s, ast.AugAssign) and isinstance(s.op, ast.Sub) and unparse(s.target) == "available_size":
            dec = s
        if isinstance(s, ast.AugAssign) and isinstance(s.op, ast.Add) and unparse(s.target) == "payload":
            app = s
    if dec is None or app is None:
        raise AnalysisError("_packetize_stap_a: budget decrement / payload append not found")
    d, a = lin(dec.value), length_of(app.value)
    norm_ = lambda m: {k: v for k, v in (m or {}).items() if v}  # noqa: E731
    if d is None or a is None:
        # the statements are not in a form whose length can be read off; the budget is then decided by C16-SEQ alone
        rep.ok("C16-STAP", f"{unparse(dec)}  vs  {unparse(app)}", sample="length forms not recognised: decided by the boundary sequences of C16-SEQ", nontrivial=False)
    elif norm_(d) == norm_(a):
        rep.ok("C16-STAP", f"{unparse(dec)}  vs  {unparse(app)}", sample=f"both are {norm_(a)} bytes")
    else:
        rep.fail(mk_finding(prog, PROP, "C16-STAP", stap, dec,
                            f"each aggregated NAL unit appends {norm_(a)} bytes ({unparse(app.value)}) but the size budget is reduced by {norm_(d)} "
                            f"({unparse(dec.value)}): the STAP-A can grow beyond PACKET_MAX", construct="stap budget " + unparse(dec)))
    hp = prog.func("codecs.h264.H264PayloadDescriptor.parse")
    if prog.const(h264, "LENGTH_FIELD_SIZE") == 2:
        rep.ok("C16-STAP", "LENGTH_FIELD_SIZE is 2 (RFC 6184 NALU size field)", sample="prefix value and reader are decided by the round trips of C16-SEQ")
        rep.ok("C16-STAP", "length prefix / reader agreement: see C16-SEQ", sample="aggregated sequences depacketise to the bitstream", nontrivial=False)
    else:
        rep.fail(mk_finding(prog, PROP, "C16-STAP", hp, hp.node, "LENGTH_FIELD_SIZE is not 2", construct="stap length field size"))

    # ---- C16-FUA (evaluation over all 256 NAL header octets x two size classes)
    rep.rule("C16-FUA", "FU-A fragmentation: markers and NAL header bits", min_instances=256)
    fua = prog.func("codecs.h264.H264Encoder._packetize_fu_a")

    def h_hook(call: ast.Call, ev: Evaluator) -> Any:
        name = unparse(call.func)
        if name == "math.ceil":
            import math
            return math.ceil(ev.ev(call.args[0]))
        if name == "pairwise":
            seq = ev.ev(call.args[0])
            return list(zip(seq, seq[1:]))
        return _hook(call, ev)

    def h_parse(raw: bytes):
        ev2 = Evaluator(prog, h264, prog.cls("codecs.h264.H264PayloadDescriptor"), {"data": raw, "cls": "cls"}, h_hook)
        try:
            ev2.exec_block(hp.node.body)
        except Ret as r:
            return r.value
        return None

    for hdr in range(256):
        if (hdr & 0x1F) not in range(1, 24):
            rep.ok("C16-FUA", f"NAL header {hdr:#04x}: type outside 1-23, not a fragmentable NAL unit", nontrivial=False)
            continue
        problems = []
        sizes = [1301, 2 * 1298 + 1]
        if hdr in (0x65, 0x41, 0x21):
            # boundary classes of the fragment budget: k fragments of 1298 / 1299 payload bytes, one byte more or less
            sizes += sorted({k * w + d for k in (1, 2, 3, 5, 10) for w in (1297, 1298, 1299, 1300) for d in (-1, 0, 1, 2)} - {0, 1})
            sizes = [x for x in sizes if x > 1300]
        for size in sizes:
            nal = bytes([hdr]) + bytes((i * 5 + 1) % 256 for i in range(size - 1))
            try:
                ev = Evaluator(prog, h264, prog.cls("codecs.h264.H264Encoder"), {"data": nal}, h_hook)
                try:
                    ev.exec_block(fua.node.body)
                    pkts = None
                except Ret as r:
                    pkts = r.value
                out = b""
                starts = ends = 0
                for i, pkt in enumerate(pkts):
                    if len(pkt) > 1300:
                        problems.append(f"fragment {i} is {len(pkt)} bytes")
                    if pkt[0] != ((hdr & 0xE0) | 28):
                        problems.append(f"fragment {i} indicator {pkt[0]:#04x}")
                    starts += 1 if pkt[1] & 0x80 else 0
                    ends += 1 if pkt[1] & 0x40 else 0
                    if (pkt[1] & 0x80) and i != 0 or (pkt[1] & 0x40) and i != len(pkts) - 1:
                        problems.append(f"fragment {i} carries a misplaced start/end marker")
                    d, data_out = h_parse(pkt)
                    out += data_out
                if starts != 1 or ends != 1:
                    problems.append(f"{starts} start and {ends} end markers")
                if out != b"\x00\x00\x00\x01" + nal:
                    problems.append("reassembled NAL unit differs")
            except Unknown as u:
                raise AnalysisError(f"C16-FUA: cannot evaluate FU-A code: {u}")
            except Raised as r:
                problems.append(f"raises {r.name}")
        if problems:
            rep.fail(mk_finding(prog, PROP, "C16-FUA", fua, fua.node, f"NAL header {hdr:#04x}: {problems[:3]}", construct=f"fu-a header {hdr:#04x}"))
        else:
            rep.ok("C16-FUA", f"NAL header {hdr:#04x}: fragments of 1301 and 2597 byte units", sample="one start, one end marker, F/NRI/type preserved, bytes verbatim")

    # ---- C16-SINGLE: single NAL unit packets of every type 1..23 are read back verbatim
    rep.rule("C16-SINGLE", "single NAL unit packets (types 1-23, every NRI) depacketise to the unit itself", min_instances=92)
    for typ in range(1, 24):
        for nri in range(4):
            hdr = (nri << 5) | typ
            nal = bytes([hdr]) + b"\x11\x22\x33"
            try:
                res = h_parse(nal)
                got = res[1] if isinstance(res, tuple) else None
            except Raised as r:
                got = f"raises {r.name}"
            except Unknown as u:
                raise AnalysisError(f"C16-SINGLE: cannot evaluate the descriptor parser: {u}")
            if got == b"\x00\x00\x00\x01" + nal:
                rep.ok("C16-SINGLE", f"NAL type {typ}, NRI {nri}", sample="start code + unit")
            else:
                rep.fail(mk_finding(prog, PROP, "C16-SINGLE", hp, hp.node, f"a single NAL unit packet of type {typ} (NRI {nri}) depacketises to {got if isinstance(got, str) else (got.hex() if got else got)}; "
                                    f"the unit itself was expected", construct=f"single NAL type {typ}"))

    # ---- C16-SEQ: the whole H.264 packetiser over sequences of NAL unit sizes around every budget boundary
    rep.rule("C16-SEQ", "H264Encoder._packetize over NAL size sequences: payloads <= 1300 bytes, depacketised concatenation == bitstream", min_instances=100)
    pk = prog.func("codecs.h264.H264Encoder._packetize")
    enc_cls = prog.cls("codecs.h264.H264Encoder")
    from .objhook import ClassRef as _CR, make_hook as _mkh

    def seq_extra(call: ast.Call, ev: Evaluator) -> Any:
        name = unparse(call.func)
        if name == "iter" and len(call.args) == 1:
            return iter(list(ev.ev(call.args[0])))
        if name == "next" and call.args:
            it = ev.ev(call.args[0])
            try:
                return next(it)
            except StopIteration:
                if len(call.args) > 1:
                    return ev.ev(call.args[1])
                raise Raised("StopIteration", call)
        if name == "math.ceil":
            import math
            return math.ceil(ev.ev(call.args[0]))
        if name == "bytes" and not call.args:
            return b""
        return NotImplemented
    sh = _mkh(prog, seq_extra)
    pmax = prog.const(h264, "PACKET_MAX")
    base_sizes = [2, 3, 100, 646, 647, 648, 649, 650, 1296, 1297, 1298, 1299, 1300, 1301, 1302, 2598, 2599, 2600]
    seqs: List[Tuple[int, ...]] = [(a,) for a in base_sizes] + [(a, b) for a in base_sizes for b in (2, 100, 646, 647, 648, 649, 1297, 1298, 1301)]
    seqs += [(400, 400, 492), (400, 400, 493), (400, 400, 494), (2, 2, 2, 2, 2, 2, 2, 2, 2, 2, 2), (100,) * 12, (2, 1301, 2), (1301, 2, 2), (646, 646, 646)]
    if tier == "thorough":
        seqs += [(a, b, c) for a in (2, 430, 431, 432, 649, 1301) for b in (2, 430, 431, 432, 646) for c in (2, 429, 430, 431, 432, 433, 1298)]

    def mknal(n: int, k: int) -> bytes:
        typ = (1, 5, 7, 8, 23)[k % 5]
        return bytes([((k % 4) << 5) | typ]) + bytes(((i * 13 + k) % 255) + 1 for i in range(n - 1))
    for sizes in seqs:
        nalus = [mknal(n, k) for k, n in enumerate(sizes)]
        label = f"NAL sizes {sizes if len(sizes) <= 6 else str(sizes[:3])[:-1] + ', ...) x' + str(len(sizes))}"
        try:
            payloads = sh.run_method(pk, _CR(enc_cls), [list(nalus)], {})
            out = b""
            for raw in payloads:
                res = h_parse(raw)
                out += res[1]
        except Raised as r:
            rep.fail(mk_finding(prog, PROP, "C16-SEQ", pk, getattr(r, "node", None) or pk.node, f"[{label}] packetising / depacketising raises {r.name}", construct=f"h264 sequence raises {r.name}"))
            continue
        except Unknown as u:
            raise AnalysisError(f"C16-SEQ: cannot evaluate [{label}]: {u}")
        problems = []
        big = [len(x) for x in payloads if len(x) > pmax]
        if big:
            problems.append(f"payload(s) of {big} bytes exceed {pmax}")
        want = b"".join(b"\x00\x00\x00\x01" + n for n in nalus)
        if out != want:
            problems.append(f"depacketised stream differs from the NAL units sent ({len(out)} vs {len(want)} bytes)")
        if problems:
            rep.fail(mk_finding(prog, PROP, "C16-SEQ", pk, pk.node, f"[{label}] " + "; ".join(problems), construct="h264 sequence: " + problems[0].split(" of ")[0][:40]))
        else:
            rep.ok("C16-SEQ", label, sample=f"{len(payloads)} payload(s) of {[len(x) for x in payloads][:6]} bytes")

    # ---- C16-DISPATCH
    rep.rule("C16-DISPATCH", "depayload dispatch", min_instances=2)
    dp = prog.func("codecs.depayload")
    s = unparse(dp.node)
    for codec, parser in (("VP8", "vp8_depayload"), ("H264", "h264_depayload")):
        if codec in s and parser in s:
            rep.ok("C16-DISPATCH", f"depayload: {codec} -> {parser}", sample="dispatch branch present")
        else:
            rep.fail(mk_finding(prog, PROP, "C16-DISPATCH", dp, dp.node, f"{codec} payloads are not dispatched to {parser}", construct=f"dispatch {codec}"))
