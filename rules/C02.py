"""C02 — data channel traffic always drains (structural necessary conditions only).

Liveness over all fault histories is not decidable statically; what is decided are the pairing / ordering rules whose
violation leaves an association that reports itself connected but can never make progress again:

  C02-FS    flight-size accounting is balanced: `_flight_size` is written only by the two helpers, the constructor and a
            reset to 0; at every `_flight_size_increase(c)` site `c._acked` is False (fresh chunk from the outbound queue,
            or cleared in the same block), so the cumulative-ack path — which decreases only for chunks that are not
            `_acked` — undoes it; the cumulative-ack pop loop decreases under exactly `not c._acked`; the T3 expiry, which
            marks every outstanding chunk lost, leaves nothing counted
  C02-T3    the retransmission timer: _t3_start/_t3_restart arm the timer on every path, _t3_expired clears the handle and
            schedules _transmit on every path, every data (re)transmission in _transmit is followed by arming T3, T3 is only
            cancelled when nothing is outstanding (or the association closes), the SACK handler restarts it when the earliest
            outstanding chunk was acknowledged
  C02-KICK  every producer kicks its consumer: each function that appends to _outbound_queue / _data_channel_queue /
            _reconfig_queue reaches the matching drain (_transmit, _data_channel_flush, _transmit_reconfig) afterwards on
            every normal exit; the SACK handler reaches _data_channel_flush and _transmit on every path past the stale-SACK
            return; entering ESTABLISHED flushes the data-channel queue; a reset response re-kicks the reconfig queue
  C02-CWND  the congestion window never drops below one MTU (assignments are constants >= MTU, ssthresh — itself max(...,
            4 MTU) — or non-negative increments)
  C02-RX-TIMER / C02-RX-SIGN  (shared with C05) the association's receive loop cannot be killed by a repeated chunk tripping a
            timer assert or by a negative receive window reaching an unsigned pack
  C02-SERIAL  serial-number discipline (C17 rule set) in rtcsctptransport.py: TSNs and stream sequence numbers only through
            wrap-safe helpers (a counter that does not wrap leaves messages queued forever)
  C02-REINIT the cumulative TSN is only (re)initialised from INIT / INIT-ACK under an association-state guard (a duplicated
            handshake datagram must not rewind the acknowledgements)
  C02-ABANDON (rules C06-WHOLE / RECV / ITER) abandonment and FORWARD-TSN handling leave every other message alone
  C02-HANDSHAKE INIT, COOKIE-ECHO and HEARTBEAT are answered whatever the association state (a lost answer is recovered by the peer's
            retransmission of the request)
  C02-DELIVER (rule C01-REASM) for every arrival order of interleaved messages on two streams nothing complete stays queued
Does not decide: delivery within bounded time, absence of stalls (abandoned fragments of partially reliable messages are
outside these rules, see C06).
"""
from __future__ import annotations

import ast
from typing import Any, Dict, List, Optional, Set, Tuple

from engine.events import EventsDomain, EvState
from engine.index import AnalysisError, Program, unparse, walk_no_nested
from engine.report import Report, mk_finding

PROP = "C02"
T = "rtcsctptransport.RTCSctpTransport"
QUEUES = {
    "_outbound_queue": ("_transmit", "outbound data"),
    "_data_channel_queue": ("_data_channel_flush", "data-channel messages"),
    "_reconfig_queue": ("_transmit_reconfig", "stream resets"),
}


def parents_of(root: ast.AST) -> Dict[int, ast.AST]:
    out: Dict[int, ast.AST] = {}
    for p in ast.walk(root):
        for ch in ast.iter_child_nodes(p):
            out[id(ch)] = p
    return out


def block_of(node: ast.AST, parents: Dict[int, ast.AST]) -> Tuple[List[ast.stmt], int]:
    """Statement list containing the statement that contains `node`, and its index there."""
    cur = node
    while not isinstance(cur, ast.stmt):
        cur = parents[id(cur)]
    par = parents[id(cur)]
    for name in ("body", "orelse", "finalbody"):
        lst = getattr(par, name, None)
        if isinstance(lst, list) and any(x is cur for x in lst):
            return lst, next(i for i, x in enumerate(lst) if x is cur)
    for h in getattr(par, "handlers", []) or []:
        if any(x is cur for x in h.body):
            return h.body, next(i for i, x in enumerate(h.body) if x is cur)
    raise AnalysisError("statement block not found")


def iterates(it: ast.AST, what: str) -> bool:
    """`for x in <what>` directly or over a snapshot / reversed view of it."""
    if unparse(it) == what:
        return True
    return isinstance(it, ast.Call) and unparse(it.func) in ("list", "tuple", "reversed", "sorted") and len(it.args) >= 1 and unparse(it.args[0]) == what


def is_call_to(n: ast.AST, name: str) -> bool:
    return isinstance(n, ast.Call) and unparse(n.func) == name


def mentions_call(node: ast.AST, name: str) -> bool:
    return any(is_call_to(x, name) for x in ast.walk(node))


def run(rep: Report, prog: Program, tier: str) -> None:
    rep.explanation = (
        "Static pairing / ordering rules over rtcsctptransport.py: who-may-write and guard rules for the flight-size counter, "
        "must-event (all-paths) analysis for timer arming and producer-kicks-consumer, guard rules for timer cancellation."
    )
    ci = prog.cls(T)
    meth = lambda n: prog.func(f"{T}.{n}")

    # ================================================================ C02-FS
    rep.rule("C02-FS", "flight-size accounting is balanced", min_instances=8)
    inc_name, dec_name = "self._flight_size_increase", "self._flight_size_decrease"
    # (a) who may write
    for fi in prog.functions.values():
        for n in walk_no_nested(fi.node):
            tg = []
            if isinstance(n, ast.Assign):
                tg = n.targets
            elif isinstance(n, (ast.AugAssign, ast.AnnAssign)):
                tg = [n.target]
            for t in tg:
                if isinstance(t, ast.Attribute) and t.attr == "_flight_size":
                    where = fi.qualname
                    ok = where in (f"{T}._flight_size_increase", f"{T}._flight_size_decrease", f"{T}.__init__") or \
                        (isinstance(n, ast.Assign) and isinstance(n.value, ast.Constant) and n.value.value == 0)
                    if ok:
                        rep.ok("C02-FS", f"{where}: {unparse(n)[:70]}", sample="permitted writer")
                    else:
                        rep.fail(mk_finding(prog, PROP, "C02-FS", fi, n, "_flight_size is modified outside its two helpers / a reset to 0: the counter can drift from the "
                                            "bytes actually in flight until the window looks permanently full", construct="write to _flight_size"))
    # (b) _acked writers: True only for elements of the sent queue
    acked_true_ok = True
    for fi in ci.methods.values():
        pm = parents_of(fi.node)
        for n in walk_no_nested(fi.node):
            if isinstance(n, ast.Assign) and any(isinstance(t, ast.Attribute) and t.attr == "_acked" for t in n.targets) \
                    and isinstance(n.value, ast.Constant) and n.value.value is True:
                t = next(t for t in n.targets if isinstance(t, ast.Attribute) and t.attr == "_acked")
                var = unparse(t.value)
                cur: Any = n
                from_sent = False
                while id(cur) in pm:
                    cur = pm[id(cur)]
                    if isinstance(cur, ast.For) and unparse(cur.target) == var and iterates(cur.iter, "self._sent_queue"):
                        from_sent = True
                if not from_sent:
                    acked_true_ok = False
                    rep.fail(mk_finding(prog, PROP, "C02-FS", fi, n, "_acked is set on a chunk that is not an element of the sent queue", construct="_acked = True outside sent queue"))
    # outbound queue holds only fresh chunks (_acked False)
    fresh_ok = True
    n_app = 0
    for fi in ci.methods.values():
        pm = parents_of(fi.node)
        for n in walk_no_nested(fi.node):
            if is_call_to(n, "self._outbound_queue.append") or is_call_to(n, "self._outbound_queue.appendleft"):
                n_app += 1
                var = unparse(n.args[0])
                blk, idx = block_of(n, pm)
                if not any(isinstance(s, ast.Assign) and unparse(s.targets[0]) == f"{var}._acked" and isinstance(s.value, ast.Constant) and s.value.value is False
                           for s in blk[:idx]):
                    fresh_ok = False
                    rep.fail(mk_finding(prog, PROP, "C02-FS", fi, n, "a chunk is queued for transmission without `_acked = False` being set in the same block", construct="outbound chunk not fresh"))
    if n_app == 0:
        raise AnalysisError("no append to _outbound_queue found")
    # (b) increase sites
    n_inc = 0
    for fi in ci.methods.values():
        pm = parents_of(fi.node)
        for n in walk_no_nested(fi.node):
            if not is_call_to(n, inc_name):
                continue
            n_inc += 1
            var = unparse(n.args[0])
            blk, idx = block_of(n, pm)
            cleared = any(isinstance(s, ast.Assign) and unparse(s.targets[0]) == f"{var}._acked" and isinstance(s.value, ast.Constant) and s.value.value is False for s in blk)
            popped = any(isinstance(s, ast.Assign) and unparse(s.targets[0]) == var and is_call_to(s.value, "self._outbound_queue.popleft") for s in blk[:idx])
            if cleared:
                rep.ok("C02-FS", f"{fi.qualname}: {unparse(n)} @ line {n.lineno}", sample=f"{var}._acked = False in the same block")
            elif popped and fresh_ok and acked_true_ok:
                rep.ok("C02-FS", f"{fi.qualname}: {unparse(n)} @ line {n.lineno}", sample=f"{var} popped from _outbound_queue, which only holds chunks with _acked False")
            else:
                rep.fail(mk_finding(prog, PROP, "C02-FS", fi, n,
                                    f"`{var}` is added to the flight size while `{var}._acked` may still be True (a gap-acked chunk retransmitted after a time-out): the "
                                    f"cumulative SACK skips the decrease for acked chunks, the residue accumulates and the window ends up permanently full with nothing in flight",
                                    construct="flight size increase without _acked = False"))
    if n_inc < 2:
        raise AnalysisError("flight size increase sites not found")
    # (c) cumulative-ack pop loop
    sack = meth("_receive_sack_chunk")
    pm = parents_of(sack.node)
    pops = [n for n in walk_no_nested(sack.node) if isinstance(n, ast.Assign) and is_call_to(n.value, "self._sent_queue.popleft")]
    if len(pops) != 1:
        raise AnalysisError("cumulative-ack pop of _sent_queue not found in _receive_sack_chunk")
    var = unparse(pops[0].targets[0])
    blk, idx = block_of(pops[0], pm)
    good = False
    for s in blk[idx + 1:]:
        if isinstance(s, ast.If) and unparse(s.test) == f"not {var}._acked" and any(mentions_call(b, dec_name) for b in s.body) and not s.orelse:
            good = True
    if good:
        rep.ok("C02-FS", f"_receive_sack_chunk: cumulative ack of {var}", sample=f"if not {var}._acked: _flight_size_decrease({var})")
    else:
        rep.fail(mk_finding(prog, PROP, "C02-FS", sack, pops[0], f"a chunk removed by the cumulative ack is not taken out of the flight size under exactly `not {var}._acked`",
                            construct="cumulative ack decrease"))
    # gap-ack: decrease and mark together
    for n in walk_no_nested(sack.node):
        if isinstance(n, ast.Assign) and any(isinstance(t, ast.Attribute) and t.attr == "_acked" for t in n.targets) and isinstance(n.value, ast.Constant) and n.value.value is True:
            v = unparse(n.targets[0].value)
            blk, idx = block_of(n, pm)
            par = pm[id(n)]
            guarded = isinstance(par, ast.If) and f"not {v}._acked" in unparse(par.test)
            if guarded and any(mentions_call(s, dec_name) for s in blk):
                rep.ok("C02-FS", f"_receive_sack_chunk: gap ack of {v}", sample="guarded by not _acked, decreases and marks in one block")
            else:
                rep.fail(mk_finding(prog, PROP, "C02-FS", sack, n, "a gap-acked chunk is marked acked without a guarded decrease of the flight size in the same block", construct="gap ack pairing"))
    # (d) T3 expiry leaves nothing counted
    t3e = meth("_t3_expired")
    marks = [n for n in walk_no_nested(t3e.node) if isinstance(n, ast.For) and iterates(n.iter, "self._sent_queue")
             and any(isinstance(x, ast.Assign) and unparse(x.targets[0]).endswith("._retransmit") and getattr(x.value, "value", None) is True for x in ast.walk(n))]
    if len(marks) != 1:
        raise AnalysisError("_t3_expired: loop marking the outstanding chunks for retransmission not found")
    loop = marks[0]
    lv = unparse(loop.target)
    reset = any(isinstance(s, ast.Assign) and unparse(s.targets[0]) == "self._flight_size" and isinstance(s.value, ast.Constant) and s.value.value == 0 for s in t3e.node.body)
    first = loop.body[0] if loop.body else None
    exact = isinstance(first, ast.If) and not first.orelse and len(first.body) == 1 and mentions_call(first.body[0], dec_name) \
        and isinstance(first.test, ast.BoolOp) and isinstance(first.test.op, ast.And) \
        and {unparse(v) for v in first.test.values} == {f"not {lv}._acked", f"not {lv}._retransmit"}
    if reset:
        rep.ok("C02-FS", "_t3_expired: every outstanding chunk is marked lost and _flight_size is reset to 0", sample="self._flight_size = 0")
    elif exact:
        rep.ok("C02-FS", "_t3_expired: chunks that were counted (not acked, not already lost) are taken out one by one before being marked", sample=unparse(first.test))
    else:
        rep.fail(mk_finding(prog, PROP, "C02-FS", t3e, loop, "after a T3 expiry every outstanding chunk is marked lost, but the flight size is neither reset to 0 nor decreased "
                            "for exactly the chunks that were counted: the stale count can exceed the collapsed window and block every retransmission", construct="flight size after T3 expiry"))

    # ================================================================ C02-T3
    rep.rule("C02-T3", "retransmission timer discipline", min_instances=9)

    def t3_events(node: ast.AST, f) -> List[str]:
        if isinstance(node, ast.Assign) and any(unparse(t) == "self._t3_handle" for t in node.targets):
            v = node.value
            if isinstance(v, ast.Call) and unparse(v.func).endswith(".call_later") and len(v.args) >= 2 and unparse(v.args[1]) == "self._t3_expired":
                return ["armed", "-cleared"]
            if isinstance(v, ast.Constant) and v.value is None:
                return ["-armed", "cleared"]
            return ["-armed", "-cleared"]
        if isinstance(node, ast.Call):
            nm = unparse(node.func)
            if nm == "asyncio.ensure_future" and node.args and is_call_to(node.args[0], "self._transmit"):
                return ["kick-transmit"]
            if nm == "self._t3_handle.cancel":
                return ["cancelled"]
        return []

    for name in ("_t3_start", "_t3_restart"):
        fi = meth(name)
        act = EventsDomain(prog, t3_events).run(fi)
        bad = [st for st, _n in act.returns if "armed" not in st.events]
        if bad or not act.returns:
            rep.fail(mk_finding(prog, PROP, "C02-T3", fi, fi.node, f"{name}() can return without the T3 timer being armed: outstanding data would never be retransmitted",
                                construct=f"{name} arms on every path"))
        else:
            rep.ok("C02-T3", f"{name}: armed on every path", sample=f"{len(act.returns)} exit(s)")
    act = EventsDomain(prog, t3_events).run(t3e)
    bad = [st for st, _n in act.returns if not ({"cleared", "kick-transmit"} <= st.events)]
    if bad or not act.returns:
        rep.fail(mk_finding(prog, PROP, "C02-T3", t3e, t3e.node, "_t3_expired() can return without clearing the expired handle and scheduling _transmit()",
                            construct="_t3_expired clears and kicks"))
    else:
        rep.ok("C02-T3", "_t3_expired: clears the handle and schedules _transmit on every path", sample=f"{len(act.returns)} exit(s)")
    t3c = meth("_t3_cancel")
    good = False
    for s0 in t3c.node.body:
        if isinstance(s0, ast.If) and unparse(s0.test) in ("self._t3_handle is not None", "self._t3_handle") and not s0.orelse:
            acts = EventsDomain(prog, t3_events)
            body_events: Set[str] = set()
            for b in s0.body:
                for x in ast.walk(b):
                    body_events.update(e for e in t3_events(x, t3c) if not e.startswith("-"))
            good = {"cleared", "cancelled"} <= body_events
    others = [x for s0 in t3c.node.body if not isinstance(s0, ast.If) for x in ast.walk(s0) if t3_events(x, t3c) and "armed" in t3_events(x, t3c)]
    if good and not others:
        rep.ok("C02-T3", "_t3_cancel: cancels and clears whenever a handle is set", sample="if self._t3_handle is not None: cancel(); handle = None")
    else:
        rep.fail(mk_finding(prog, PROP, "C02-T3", t3c, t3c.node, "_t3_cancel() can return with a live handle still recorded", construct="_t3_cancel"))
    # call sites of _t3_cancel
    n_sites = 0
    for fi in ci.methods.values():
        pmf = parents_of(fi.node)
        for n in walk_no_nested(fi.node):
            if not is_call_to(n, "self._t3_cancel"):
                continue
            n_sites += 1
            tests = []
            cur = n
            while id(cur) in pmf:
                par = pmf[id(cur)]
                if isinstance(par, ast.If):
                    in_body = any(cur is b for b in par.body)
                    tests.append((unparse(par.test), in_body))
                cur = par
            ok = any(t == "not self._sent_queue" and b for t, b in tests) or \
                (fi.name == "_set_state" and any("State.CLOSED" in t and b for t, b in tests))
            if ok:
                rep.ok("C02-T3", f"{fi.qualname}: _t3_cancel() @ line {n.lineno}", sample="; ".join(t for t, b in tests if b)[:80])
            else:
                rep.fail(mk_finding(prog, PROP, "C02-T3", fi, n, "T3 is cancelled although data may be outstanding (not under `not self._sent_queue`, not on association close)",
                                    construct="_t3_cancel while outstanding"))
    if n_sites < 2:
        raise AnalysisError("_t3_cancel call sites not found")
    # SACK handler: restart when the earliest outstanding chunk was acked
    good = False
    for n in walk_no_nested(sack.node):
        if isinstance(n, ast.If) and unparse(n.test) == "not self._sent_queue" and n.orelse and isinstance(n.orelse[0], ast.If):
            e = n.orelse[0]
            if unparse(e.test) == "done" and any(mentions_call(b, "self._t3_restart") for b in e.body):
                good = True
    if good:
        rep.ok("C02-T3", "_receive_sack_chunk: T3 restarted when the cumulative ack advanced and data stays outstanding", sample="elif done: self._t3_restart()")
    else:
        rep.fail(mk_finding(prog, PROP, "C02-T3", sack, sack.node, "the SACK handler does not restart T3 when the earliest outstanding chunk was acknowledged", construct="SACK restarts T3"))
    # _transmit: every data send is followed by arming
    tx = meth("_transmit")
    pmt = parents_of(tx.node)
    n_send = 0
    for n in walk_no_nested(tx.node):
        if isinstance(n, ast.Await) and is_call_to(n.value, "self._send_chunk"):
            arg = unparse(n.value.args[0])
            blk, idx = block_of(n, pmt)
            n_send += 1
            after = blk[idx + 1:]
            armed = False
            from .common import timer_armers
            armers3 = timer_armers(prog, "3")
            for s in after:
                if isinstance(s, ast.If) and unparse(s.test) in ("not self._t3_handle", "self._t3_handle is None") and any(mentions_call(b, "self._t3_start") for b in s.body):
                    armed = True
                if isinstance(s, ast.Expr) and isinstance(s.value, ast.Call) and armers3.get(unparse(s.value.func)) == "guarded":
                    armed = True   # an "ensure running" wrapper / restart
                if isinstance(s, ast.If) and any(mentions_call(b, "self._t3_restart") for b in s.body) and isinstance(s.test, ast.Name):
                    # accepted idiom: restart only for the earliest outstanding chunk; the flag must start True and be cleared after the first element
                    flag = s.test.id
                    inits = [x for x in walk_no_nested(tx.node) if isinstance(x, ast.Assign) and unparse(x.targets[0]) == flag]
                    if any(getattr(x.value, "value", None) is True for x in inits) and any(getattr(x.value, "value", None) is False for x in inits):
                        armed = True
                if isinstance(s, ast.Expr) and (mentions_call(s, "self._t3_restart") or mentions_call(s, "self._t3_start")):
                    armed = True
            if armed:
                rep.ok("C02-T3", f"_transmit: send of {arg} @ line {n.lineno} is followed by arming T3", sample=unparse(after[0])[:70] if after else "")
            else:
                rep.fail(mk_finding(prog, PROP, "C02-T3", tx, n, f"`{arg}` is transmitted without T3 being armed afterwards: if it is lost nothing ever retransmits it",
                                    construct=f"send of {arg} arms T3"))
    if n_send < 3:
        raise AnalysisError("_transmit: data send sites not found")

    # ================================================================ C02-KICK
    rep.rule("C02-KICK", "every producer kicks its consumer", min_instances=8)
    for q, (drain, what) in QUEUES.items():
        producers = [fi for fi in ci.methods.values()
                     if any(is_call_to(n, f"self.{q}.append") or is_call_to(n, f"self.{q}.extend") or is_call_to(n, f"self.{q}.appendleft") for n in walk_no_nested(fi.node))]
        if not producers:
            raise AnalysisError(f"no producer of {q} found")

        # accepted idiom: `if len(self.<q>) == 1: <kick>` — the queue was non-empty before, so an earlier producer (or the
        # completion handler checked below) has a drain pending; evaluating that test counts as the kick
        idiom_calls: Set[int] = set()
        for fi in producers:
            for n in walk_no_nested(fi.node):
                if isinstance(n, ast.If) and isinstance(n.test, ast.Compare) and unparse(n.test) == f"len(self.{q}) == 1" and not n.orelse \
                        and any(isinstance(x, ast.Call) and (unparse(x.func) == f"self.{drain}" or (unparse(x.func) == "asyncio.ensure_future" and x.args and is_call_to(x.args[0], f"self.{drain}")))
                                for b in n.body for x in ast.walk(b)):
                    idiom_calls.add(id(n.test.left))

        def ev_of(node: ast.AST, f, q=q, drain=drain, idiom_calls=idiom_calls) -> List[str]:
            if id(node) in idiom_calls:
                return ["clean"]
            if isinstance(node, ast.Call):
                nm = unparse(node.func)
                if nm in (f"self.{q}.append", f"self.{q}.extend", f"self.{q}.appendleft"):
                    return ["-clean"]
                if nm == f"self.{drain}":
                    return ["clean"]
                if nm == "asyncio.ensure_future" and node.args and is_call_to(node.args[0], f"self.{drain}"):
                    return ["clean"]
                # transitively: a callee of this class that ends clean after producing (e.g. _send -> _transmit)
            return []
        for fi in producers:
            act = EventsDomain(prog, ev_of).run(fi, EvState(frozenset({"clean"})))
            bad = [st for st, _n in act.returns if "clean" not in st.events]
            if bad:
                rep.fail(mk_finding(prog, PROP, "C02-KICK", fi, fi.node,
                                    f"{fi.name}() can return after queueing {what} on {q} without starting {drain}(): the queue is only drained by the next unrelated event, "
                                    f"or never", construct=f"{q} producer kicks {drain}"))
            else:
                rep.ok("C02-KICK", f"{fi.qualname}: {q} -> {drain}", sample=f"{len(act.returns)} normal exit(s) end with the consumer started"
                       + (" (or the queue was already non-empty)" if idiom_calls else ""))

    # SACK handler reaches both consumers past the stale return
    def ev_sack(node: ast.AST, f) -> List[str]:
        if isinstance(node, ast.Call):
            nm = unparse(node.func)
            if nm == "self._data_channel_flush":
                return ["flush"]
            if nm == "self._transmit":
                return ["transmit"]
            if nm == "self._transmit_reconfig":
                return ["reconfig"]
            if nm == "asyncio.ensure_future" and node.args and isinstance(node.args[0], ast.Call):
                inner = unparse(node.args[0].func)
                return {"self._data_channel_flush": ["flush"], "self._transmit": ["transmit"], "self._transmit_reconfig": ["reconfig"]}.get(inner, [])
        if isinstance(node, ast.Assign) and any(unparse(t) == "self._last_sacked_tsn" for t in node.targets):
            return ["accepted"]
        return []
    act = EventsDomain(prog, ev_sack).run(sack)
    bad = [st for st, _n in act.returns if "accepted" in st.events and not ({"flush", "transmit"} <= st.events)]
    n_acc = sum(1 for st, _n in act.returns if "accepted" in st.events)
    if n_acc == 0:
        raise AnalysisError("_receive_sack_chunk: no exit past the stale-SACK return")
    if bad:
        rep.fail(mk_finding(prog, PROP, "C02-KICK", sack, sack.node, "a path through the SACK handler past the stale-SACK test does not reach both _data_channel_flush() and _transmit(): "
                            "freed window space is not used until some other event", construct="SACK handler kicks"))
    else:
        rep.ok("C02-KICK", "_receive_sack_chunk: every accepted SACK reaches _data_channel_flush and _transmit", sample=f"{n_acc} exit(s)")
    # ESTABLISHED flushes the data channel queue
    ss = meth("_set_state")
    est = [n for n in walk_no_nested(ss.node) if isinstance(n, ast.If) and "State.ESTABLISHED" in unparse(n.test)]
    if est and any(x for b in est[0].body for x in ast.walk(b) if isinstance(x, ast.Call) and ev_sack(x, ss) == ["flush"]):
        rep.ok("C02-KICK", "_set_state(ESTABLISHED) starts _data_channel_flush", sample="messages queued while connecting are sent")
    else:
        rep.fail(mk_finding(prog, PROP, "C02-KICK", ss, est[0] if est else ss.node, "entering ESTABLISHED does not start _data_channel_flush(): messages queued while connecting stay queued",
                            construct="ESTABLISHED flush"))
    # reset response re-kicks the reconfig queue (shared with C13)
    from .common import reset_rekick_rule
    reset_rekick_rule(rep, prog, PROP, "C02-KICK")
    # T3 expiry kick is part of C02-T3

    # ================================================================ C02-CWND
    rep.rule("C02-CWND", "the congestion window never drops below one MTU", min_instances=4)
    mod = prog.modules["rtcsctptransport"]
    mtu = prog.try_const(ast.Name(id="USERDATA_MAX_LENGTH", ctx=ast.Load()), mod)
    if not isinstance(mtu, int):
        raise AnalysisError("USERDATA_MAX_LENGTH cannot be folded")

    def lower_bound(e: ast.AST) -> Optional[int]:
        v = prog.try_const(e, mod, ci)
        if isinstance(v, int):
            return v
        if isinstance(e, ast.Call) and unparse(e.func) == "max":
            bs = [lower_bound(a) for a in e.args]
            bs = [b for b in bs if b is not None]
            return max(bs) if bs else None
        if isinstance(e, ast.Attribute) and unparse(e) == "self._ssthresh":
            return ss_lb[0]
        return None
    ss_lb: List[Optional[int]] = [None]
    ss_assigns = [n for fi in ci.methods.values() if fi.name != "__init__" for n in walk_no_nested(fi.node)
                  if isinstance(n, ast.Assign) and unparse(n.targets[0]) == "self._ssthresh"]
    bounds = [lower_bound(n.value) for n in ss_assigns]
    ss_lb[0] = min(bounds) if bounds and all(b is not None for b in bounds) else None
    for fi in ci.methods.values():
        for n in walk_no_nested(fi.node):
            if isinstance(n, ast.Assign) and unparse(n.targets[0]) == "self._cwnd":
                lb = lower_bound(n.value)
                if lb is None and unparse(n.value) == "self._ssthresh":
                    # flow-sensitive: the statement just before in the same block assigns _ssthresh
                    blk, idx = block_of(n, parents_of(fi.node))
                    if idx > 0 and isinstance(blk[idx - 1], ast.Assign) and unparse(blk[idx - 1].targets[0]) == "self._ssthresh":
                        lb = lower_bound(blk[idx - 1].value)
                if fi.name == "__init__" and lb is None:
                    continue
                if lb is not None and lb >= mtu:
                    rep.ok("C02-CWND", f"{fi.qualname}: {unparse(n)}", sample=f"lower bound {lb} >= MTU {mtu}")
                else:
                    rep.fail(mk_finding(prog, PROP, "C02-CWND", fi, n, f"_cwnd is assigned a value whose lower bound ({lb}) is not provably >= one MTU ({mtu}): a window below one "
                                        f"chunk can never send", construct="cwnd assignment " + unparse(n.value)[:40]))
            if isinstance(n, ast.AugAssign) and unparse(n.target) == "self._cwnd":
                neg = not isinstance(n.op, ast.Add) or any(isinstance(x, ast.USub) for x in ast.walk(n.value))
                if neg:
                    rep.fail(mk_finding(prog, PROP, "C02-CWND", fi, n, "_cwnd is decreased in place; only max()-bounded assignments may shrink the window", construct="cwnd in-place decrease"))
                else:
                    rep.ok("C02-CWND", f"{fi.qualname}: {unparse(n)}", sample="non-negative increment")

    # ================================================================ C02-RX / C02-SERIAL (shared rules)
    # a receive loop that dies or a stream that waits for a sequence number that never comes are stalls too
    from .common import serial_subrule, sign_rule, timer_rule
    timer_rule(rep, prog, PROP, "C02-RX-TIMER")
    from engine.callgraph import CallGraph
    reach = CallGraph(prog).reachable([meth("_handle_data")])
    sign_rule(rep, prog, PROP, "C02-RX-SIGN", sorted(q for q in reach if q.startswith("rtcsctptransport.")))
    serial_subrule(rep, prog, tier, PROP, "C02-SERIAL", ["rtcsctptransport"], 30, "serial-number discipline (C17 rule set) in rtcsctptransport.py")
    from .common import import_rules
    import_rules(rep, prog, tier, PROP, "C02-DELIVER", "C01", ["C01-REASM", "C01-PPID"],
                 "once every chunk has arrived, every complete message has been delivered and the reassembly queues are empty (rule C01-REASM); an acknowledged user message is handed to "
                 "its channel whatever the channel's ready state (rule C01-PPID)", 100)

    # ================================================================ C02-REINIT
    rep.rule("C02-REINIT", "the receive state is (re)initialised from an INIT / INIT-ACK only under an association-state guard", min_instances=2)
    rc = meth("_receive_chunk")

    def reinit_sites(fi_):
        return [n for n in walk_no_nested(fi_.node) if isinstance(n, ast.Assign) and unparse(n.targets[0]) == "self._last_received_tsn" and "initial_tsn" in unparse(n.value)]

    def state_guard(node: ast.AST, fi_) -> Optional[str]:
        pm_ = parents_of(fi_.node)
        cur: Any = node
        guard = None
        while id(cur) in pm_:
            par = pm_[id(cur)]
            if isinstance(par, ast.If) and any(cur is b for b in par.body) and "self._association_state ==" in unparse(par.test):
                guard = unparse(par.test)
            cur = par
        return guard
    # the initialisation may sit in _receive_chunk itself or in a helper it calls with the chunk: then the guard must hold at the call
    sites = [(rc, n, n) for n in reinit_sites(rc)]
    for m_ in ci.methods.values():
        if m_ is rc or not reinit_sites(m_):
            continue
        calls_ = [c for c in walk_no_nested(rc.node) if isinstance(c, ast.Call) and unparse(c.func) == f"self.{m_.name}"]
        for c in calls_:
            for n in reinit_sites(m_):
                sites.append((rc, c, n) if state_guard(n, m_) is None else (m_, n, n))
    if len(sites) < 2:
        raise AnalysisError("_receive_chunk: initialisation of _last_received_tsn from INIT / INIT-ACK not found")
    for fn_, where, n in sites:
        guard = state_guard(where, fn_)
        if guard:
            rep.ok("C02-REINIT", f"{fn_.name}: {unparse(where)[:70]}", sample="only when " + guard[:90])
        else:
            rep.fail(mk_finding(prog, PROP, "C02-REINIT", fn_, where, "the cumulative TSN is reset from the peer's initial TSN whatever the association state: a duplicated INIT datagram "
                                "arriving later makes this side acknowledge from the start again, the peer discards those SACKs as stale and its data stays outstanding for ever",
                                construct="unguarded receive-state reset"))

    # ================================================================ C02-HANDSHAKE
    # handshake requests are retransmitted when their answer is lost: they must be answered whatever state this side is already in
    rep.rule("C02-HANDSHAKE", "INIT, COOKIE-ECHO and HEARTBEAT are answered in every association state", min_instances=3)
    rc2 = meth("_receive_chunk")
    pairs = (("InitChunk", "init_ack", "InitAckChunk"), ("CookieEchoChunk", "cookie_ack", "CookieAckChunk"), ("HeartbeatChunk", "heartbeat_ack", "HeartbeatAckChunk"))
    branches = [n for n in ast.walk(rc2.node) if isinstance(n, ast.If)]
    for req, var, resp in pairs:
        br = [n for n in branches if f"isinstance(chunk, {req})" in unparse(n.test)]
        if len(br) != 1:
            raise AnalysisError(f"_receive_chunk: branch for {req} not found")
        b = br[0]
        problems = []
        if "_association_state" in unparse(b.test):
            problems.append(f"the {req} branch is only taken in some association states ({unparse(b.test)[:90]})")
        sends = [x for s_ in b.body for x in ast.walk(s_) if isinstance(x, ast.Await) and isinstance(x.value, ast.Call) and unparse(x.value.func) == "self._send_chunk"
                 and x.value.args and unparse(x.value.args[0]) == var]
        top = [s_ for s_ in b.body if isinstance(s_, ast.Expr) and any(x is s_.value for x in sends)]
        builds = [x for s_ in b.body for x in ast.walk(s_) if isinstance(x, ast.Assign) and unparse(x.targets[0]) == var and isinstance(x.value, ast.Call) and unparse(x.value.func) == resp]
        if not builds or not top:
            # the response must be sent at the top level of the branch; the only accepted early exits are validation failures of the request itself
            problems.append(f"the {resp} is not sent unconditionally at the end of the branch")
        pm2 = parents_of(b)
        for x in sends:
            cur: Any = x
            while id(cur) in pm2 and pm2[id(cur)] is not b:
                cur = pm2[id(cur)]
                if isinstance(cur, ast.If) and "_association_state" in unparse(cur.test):
                    problems.append(f"the {resp} is only sent under `{unparse(cur.test)[:70]}`")
        if problems:
            rep.fail(mk_finding(prog, PROP, "C02-HANDSHAKE", rc2, b, f"{'; '.join(problems)}: when the answer to a {req} is lost the peer retransmits the request, gets nothing back and never "
                                f"finishes the handshake while this side reports itself connected", construct=f"{req} answered in every state"))
        else:
            rep.ok("C02-HANDSHAKE", f"_receive_chunk: {req} -> {resp} whatever the association state", sample=unparse(b.test)[:80])

    # ================================================================ C02-ABANDON (rules of C06)
    import_rules(rep, prog, tier, PROP, "C02-ABANDON", "C06", ["C06-WHOLE", "C06-RECV", "C06-ITER"],
                 "abandoning a partially reliable message never abandons, loses or blocks chunks of other messages (rules C06-WHOLE / C06-RECV / C06-ITER)", 100)

    leak_rule(rep, prog, PROP, "C02-LEAK", tier)
    from .sctploop import loop_rule
    loop_rule(rep, prog, PROP, "C02-LOOP", tier)
    # a reliable message that inherits another channel's lifetime / retransmission limit is abandoned at the first loss and never delivered
    from .C13life import run_policy
    run_policy(rep, prog, PROP, "C02-POLICY")
    from .sctpsetup import setup_rule
    setup_rule(rep, prog, PROP, "C02-SETUP")


def leak_rule(rep: Report, prog: Program, PROP: str, RULE: str, tier: str) -> None:
    """Flight-size conservation by evaluation: the sender's real _transmit / _receive_sack_chunk / _t3_expired / _maybe_abandon /
    _update_advanced_peer_ack_point are run (AST level, collaborators stubbed) on loss scenarios with reliable and partially reliable
    messages.  After every event the bytes counted in _flight_size must not exceed the bytes of the chunks that are really outstanding
    (in the sent queue, neither acknowledged nor abandoned); once everything is acknowledged a new message must go out at once.
    An over-count never goes away without a T3 expiry - and no timer runs when nothing is outstanding: the association stalls."""
    from collections import deque
    from types import SimpleNamespace

    from engine.index import Unknown
    from engine.peval import Raised

    from .sctpmodel import build
    rep.rule(RULE, "bytes counted as in flight never exceed the bytes really outstanding; a fully acknowledged sender can always send", min_instances=8)
    T_ = "rtcsctptransport.RTCSctpTransport"
    ci = prog.cls(T_)
    wire: List[Any] = []

    def st_send(call, ev):
        wire.append(ev.ev(call.args[0]))
        return None

    def st_t3(kind):
        def f(call, ev):
            me = ev.env["self"]
            me._t3_handle = None if kind == "cancel" else "timer"
            return None
        return f
    noop = lambda call, ev: None  # noqa: E731
    stubs = {"self._send_chunk": st_send, "self._t3_start": st_t3("start"), "self._t3_restart": st_t3("restart"), "self._t3_cancel": st_t3("cancel"),
             "self._data_channel_flush": noop, "self._update_rto": noop, "asyncio.ensure_future": lambda call, ev: [ev.ev(a) for a in call.args] and None}
    hook, chunk, message = build(prog, stubs)
    m = lambda n: prog.func(f"{T_}.{n}")  # noqa: E731
    transmit, sackf, t3x = m("_transmit"), m("_receive_sack_chunk"), m("_t3_expired")
    MTU = 1200

    def sender(cwnd):
        return SimpleNamespace(__cls__=ci, _sent_queue=deque(), _outbound_queue=deque(), _last_sacked_tsn=99, _advanced_peer_ack_tsn=99, _forward_tsn_chunk=None,
                               _forward_tsn_pending=None, _forward_tsn_streams={}, _flight_size=0, _cwnd=cwnd, _ssthresh=131072, _partial_bytes_acked=0,
                               _fast_recovery_exit=None, _fast_recovery_transmit=False, _t3_handle=None, _rto=3.0, _srtt=None, _rttvar=None, _local_tsn=100, delivered=[])

    def queue(me, first_tsn, stream, seq, nfrag, policy):
        me._local_tsn = (first_tsn + nfrag) % (1 << 32)
        msg = message(first_tsn, stream, seq, nfrag, False, policy, "x", 0)
        for c in msg:
            c.user_data = b"d" * MTU
            c._book_size = MTU
            c._sent_count = 0
            c._sent_time = None
            me._outbound_queue.append(c)
        return msg

    def sack(cum, gaps=()):
        return SimpleNamespace(cumulative_tsn=cum, gaps=list(gaps), duplicates=[], advertised_rwnd=1 << 20)

    def outstanding(me):
        return sum(c._book_size for c in me._sent_queue if not c._acked and not c._abandoned)
    scenarios = []
    for policy, label in ((0, "partially reliable (maxRetransmits=0)"), (None, "reliable")):
        # first fragment lost, the next three reported one by one while later fragments are still on their way
        scenarios.append((f"{label} message of 8 fragments, first fragment lost, fast-retransmit path", policy,
                          [("tx",), ("sack", 99, [(2, 2)]), ("sack", 99, [(2, 3)]), ("sack", 99, [(2, 4)]), ("ackall",)]))
        scenarios.append((f"{label} message of 8 fragments, a middle fragment lost, fast-retransmit path", policy,
                          [("tx",), ("sack", 101, []), ("sack", 102, [(2, 2)]), ("sack", 102, [(2, 3)]), ("sack", 102, [(2, 4)]), ("ackall",)]))
        scenarios.append((f"{label} message of 8 fragments, everything lost, T3 path", policy, [("tx",), ("t3",), ("ackall",)]))
        scenarios.append((f"{label} message of 8 fragments, gap-acked chunks then T3", policy, [("tx",), ("sack", 99, [(2, 3)]), ("t3",), ("sack", 99, [(2, 3)]), ("ackall",)]))
    for label, policy, events in scenarios:
        me = sender(8 * MTU)
        queue(me, 100, 1, 0, 8, policy)
        problem = None
        try:
            for i, evn in enumerate(events):
                if evn[0] == "tx":
                    hook.run_method(transmit, me, [], {})
                elif evn[0] == "sack":
                    hook.run_method(sackf, me, [sack(evn[1], evn[2])], {})
                elif evn[0] == "t3":
                    me._t3_handle = None
                    hook.run_method(t3x, me, [], {})
                elif evn[0] == "ackall":
                    # the peer acknowledges whatever is outstanding (retransmissions / FORWARD-TSN arrived), possibly in several rounds
                    for _ in range(12):
                        top = max([c.tsn for c in me._sent_queue] + [me._advanced_peer_ack_tsn, me._last_sacked_tsn])
                        hook.run_method(sackf, me, [sack(top)], {})
                        if not me._sent_queue and not me._outbound_queue:
                            break
                if me._flight_size > outstanding(me):
                    problem = (f"after event #{i} {evn}: _flight_size is {me._flight_size} but only {outstanding(me)} bytes are outstanding "
                               f"(sent queue {[c.tsn for c in me._sent_queue]}): the surplus is never released")
                    break
            if problem is None:
                if me._sent_queue or me._outbound_queue:
                    problem = f"the peer acknowledged everything it was sent, yet chunks {[c.tsn for c in me._sent_queue]} / {[c.tsn for c in me._outbound_queue]} remain"
                else:
                    del wire[:]
                    nxt = queue(me, 200, 2, 0, 1, None)
                    hook.run_method(transmit, me, [], {})
                    if nxt[0] not in wire:
                        problem = (f"nothing is outstanding, _flight_size={me._flight_size}, cwnd={me._cwnd}, T3 {'armed' if me._t3_handle else 'not armed'}: "
                                   "a new message on another channel is not transmitted - the association is stalled")
        except Raised as ex:
            rep.fail(mk_finding(prog, PROP, RULE, sackf, getattr(ex, "node", None), f"[{label}] raises {ex.name}", construct=f"flight raises {ex.name}"))
            continue
        except Unknown as ex:
            raise AnalysisError(f"{RULE} cannot evaluate [{label}]: {ex}")
        if problem:
            rep.fail(mk_finding(prog, PROP, RULE, m("_maybe_abandon") if policy is not None else sackf, None, f"[{label}] {problem}", construct="flight size: " + label.split(",")[0] + ", " + label.split(", ")[-1]))
        else:
            rep.ok(RULE, label, sample=f"{len(events)} events: never over-counted; new data goes out after the last ack")
    # a SACK that acknowledges TSNs which were never assigned is nonsense, not an acknowledgement
    for first, bogus, label in ((100, 100000, "cumulative TSN far beyond the last TSN assigned"), (100, 108, "cumulative TSN one beyond the last TSN assigned"),
                                ((1 << 32) - 3, 5000, "the same across the TSN wrap")):
        me = sender(8 * MTU)
        me._last_sacked_tsn = me._advanced_peer_ack_tsn = (first - 1) % (1 << 32)
        msg = queue(me, first, 1, 0, 8, None)
        try:
            hook.run_method(transmit, me, [], {})
            sent_before = len(me._sent_queue)
            hook.run_method(sackf, me, [sack(bogus % (1 << 32))], {})
            after_bogus = (me._last_sacked_tsn, [c.tsn for c in me._sent_queue])
            for _ in range(6):
                top = max([c.tsn for c in me._sent_queue], key=lambda t: (t - first) % (1 << 32), default=None)
                if top is None:
                    break
                hook.run_method(sackf, me, [sack(top)], {})
        except Raised as ex:
            rep.fail(mk_finding(prog, PROP, RULE, sackf, getattr(ex, "node", None), f"[bogus SACK, {label}] raises {ex.name}", construct=f"bogus sack raises {ex.name}"))
            continue
        except Unknown as ex:
            raise AnalysisError(f"{RULE} cannot evaluate [bogus SACK, {label}]: {ex}")
        if after_bogus[0] != (first - 1) % (1 << 32) or len(after_bogus[1]) != sent_before:
            rep.fail(mk_finding(prog, PROP, RULE, sackf, sackf.node, f"[SACK with {label}] accepted: _last_sacked_tsn became {after_bogus[0]}, outstanding {after_bogus[1]}: outstanding data is dropped as "
                                "acknowledged and every genuine SACK that follows is discarded as stale", construct="SACK beyond the TSNs assigned is accepted"))
        elif me._sent_queue or me._outbound_queue:
            rep.fail(mk_finding(prog, PROP, RULE, sackf, sackf.node, f"[SACK with {label}] afterwards genuine SACKs no longer drain the sender: outstanding {[c.tsn for c in me._sent_queue]}",
                                construct="sender stuck after a bogus SACK"))
        else:
            rep.ok(RULE, f"SACK with {label} is ignored; genuine SACKs still drain the sender")
