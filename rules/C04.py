"""C04 — DTLS connects only to the fingerprinted peer; both sides derive mirrored keys.

  C04-START    start(): handshake, identity check and SRTP setup each followed by `return if FAILED`, all before
               CONNECTED and before the data pump starts; only start() sets CONNECTED
  C04-DELIVER  every hand-over of decrypted bytes in RTCDtlsTransport is guarded by a condition that holds only in state
               CONNECTED (or by the SRTP session, which only _setup_srtp creates, which only start() calls after validation)
  C04-SEND     _send_data/_send_rtp touch OpenSSL/libsrtp only after the `!= CONNECTED -> raise` check
  C04-FP       _validate_peer_identity, evaluated over fingerprint lists (supported/unsupported algorithms, matching /
               corrupted / differently-cased values, every order up to length 3): FAILED iff no supported fingerprint or a
               supported one mismatches
  C04-KEYS     _setup_srtp / get_key_and_salt evaluated for the three profiles and both roles: tx/rx keys are the RFC 5764
               client/server slices, mirrored between roles; exported length 2*(key+salt); profile constants
  C04-DROP     SRTP authentication failures deliver nothing
  C04-DEMUX    the first-byte demultiplexer of _recv_next, evaluated for all 256 byte values, implements RFC 7983 (20-63 DTLS,
               128-191 SRTP/SRTCP incl. padding/extension bits); is_rtcp classifies the six RTCP types as RTCP and no RTP packet
               with a negotiable payload type as RTCP
Does not decide: that OpenSSL/libsrtp behave as documented; end-to-end payload integrity.
"""
from __future__ import annotations

import ast
import itertools
from types import SimpleNamespace
from typing import Any, Dict, List, Optional, Set, Tuple

from engine.events import EventsDomain, EvState
from engine.index import AnalysisError, Program, Unknown, unparse, walk_no_nested
from engine.peval import Evaluator, Raised, Ret
from engine.report import Report, mk_finding

PROP = "C04"
D = "rtcdtlstransport.RTCDtlsTransport"
STATES = ["NEW", "CONNECTING", "CONNECTED", "CLOSED", "FAILED"]


def _state_env(cur: str) -> Dict[str, Any]:
    env = {f"State.{s}": s for s in STATES}
    env["self._state"] = cur
    return env


def run(rep: Report, prog: Program, tier: str) -> None:
    rep.explanation = (
        "Ordering and guarded-delivery clauses decided structurally and by must-event guards evaluated over the five transport states; "
        "the fingerprint policy and the key slicing decided by evaluating the two function bodies over enumerated fingerprint lists / "
        "profiles x roles against the policy stated in the property and the RFC 5764 key layout."
    )
    mod = prog.module("rtcdtlstransport")
    dcls = prog.cls(D)
    start = prog.func(D + ".start")

    # ---------------- C04-START
    rep.rule("C04-START", "handshake, identity, SRTP, then CONNECTED", min_instances=5)
    body = [s for s in start.node.body]
    texts = [unparse(s) for s in body]

    def idx(pred) -> int:
        for i, t in enumerate(texts):
            if pred(t):
                return i
        return -1

    steps = [("handshake", idx(lambda t: t == "await self._do_handshake()")),
             ("identity check", idx(lambda t: t.startswith("self._validate_peer_identity("))),
             ("SRTP setup", idx(lambda t: t == "self._setup_srtp()"))]
    i_conn = idx(lambda t: t.replace(" ", "") == "self._set_state(State.CONNECTED)")
    i_run = idx(lambda t: "ensure_future(self.__run())" in t)
    if i_conn < 0 or i_run < 0:
        raise AnalysisError("start(): CONNECTED transition / data pump start not found at top level")
    last = -1
    for name, i in steps:
        ok = i > last and i + 1 < len(body) and i < i_conn
        chk = body[i + 1] if i >= 0 and i + 1 < len(body) else None
        ok = ok and isinstance(chk, ast.If) and unparse(chk.test) == "self._state == State.FAILED" and len(chk.body) == 1 and isinstance(chk.body[0], ast.Return)
        if ok:
            rep.ok("C04-START", f"start(): {name} then `if self._state == State.FAILED: return`", sample=f"statement {i} of start()")
        else:
            rep.fail(mk_finding(prog, PROP, "C04-START", start, body[i] if i >= 0 else start.node,
                                f"the {name} step is missing, out of order, or not followed by the FAILED check before CONNECTED", construct=f"start step {name}"))
        last = max(last, i)
    if i_conn < i_run and all(i < i_conn for _n, i in steps):
        rep.ok("C04-START", "CONNECTED and the data pump come after all three steps", sample=f"statements {i_conn}, {i_run}")
    else:
        rep.fail(mk_finding(prog, PROP, "C04-START", start, body[i_conn], "CONNECTED / data pump start is not after handshake, identity check and SRTP setup", construct="start order"))
    setters = sorted({fi.qualname for fi in prog.iter_functions(["rtcdtlstransport"]) for n in walk_no_nested(fi.node)
                      if isinstance(n, ast.Call) and unparse(n.func).endswith("_set_state") and n.args and unparse(n.args[0]) == "State.CONNECTED"})
    if setters == [D + ".start"]:
        rep.ok("C04-START", "only start() sets CONNECTED", sample=str(setters))
    else:
        rep.fail(mk_finding(prog, PROP, "C04-START", start, None, f"CONNECTED is set in {setters}", construct="connected setters"))

    # ---------------- C04-DELIVER / C04-SEND
    rep.rule("C04-DELIVER", "guarded delivery", min_instances=3)
    rep.rule("C04-SEND", "guarded sending", min_instances=3)
    recv = prog.func(D + "._recv_next")
    deliveries = []

    def ob(node, st: EvState, f):
        if isinstance(node, ast.Call) and unparse(node.func) in ("self._data_receiver._handle_data", "self._handle_rtp_data", "self._handle_rtcp_data"):
            deliveries.append((node, set(st.guards)))

    # _recv_next and the helpers of the class it hands the datagram to (each analysed under the guards of its call site)
    work = [(recv, EvState())]
    seen_fns = set()
    while work:
        fn_, init = work.pop()
        if fn_.qualname in seen_fns:
            continue
        seen_fns.add(fn_.qualname)
        calls = []

        def ob_calls(node, st: EvState, f, calls=calls):
            ob(node, st, f)
            if isinstance(node, ast.Call) and isinstance(node.func, ast.Attribute) and unparse(node.func.value) == "self":
                tgt = prog.find_method(dcls, node.func.attr)
                if tgt is not None and tgt.name not in ("_handle_rtp_data", "_handle_rtcp_data") and any(unparse(a) == "data" for a in node.args):
                    calls.append((tgt, st))
        EventsDomain(prog, lambda n, f: [], ob_calls).run(fn_, init)
        work.extend(calls)
    if len(deliveries) < 3:
        raise AnalysisError(f"only {len(deliveries)} delivery sites found in _recv_next and its helpers")
    rx_writers = sorted({fi.qualname for fi in prog.iter_functions(["rtcdtlstransport"]) for n in walk_no_nested(fi.node)
                         if isinstance(n, ast.Attribute) and isinstance(n.ctx, ast.Store) and n.attr == "_rx_srtp"})
    setup_callers = sorted({fi.qualname for fi in prog.iter_functions() for n in walk_no_nested(fi.node)
                            if isinstance(n, ast.Call) and unparse(n.func).endswith("._setup_srtp")})
    srtp_ok = rx_writers == [D + ".__init__", D + "._setup_srtp"] and setup_callers == [D + ".start"]
    for node, guards in deliveries:
        allowed: Set[str] = set(STATES)
        state_guard = False
        for g, t in guards:
            if "self._state" in g:
                state_guard = True
                keep = set()
                for s in allowed:
                    try:
                        v = Evaluator(prog, mod, dcls, _state_env(s)).ev(ast.parse(g, mode="eval").body)
                    except (Unknown, SyntaxError):
                        v = t
                    if bool(v) == t:
                        keep.add(s)
                allowed = keep
        via_srtp = ("self._rx_srtp", True) in guards and srtp_ok
        what = f"_recv_next: {unparse(node.func)}"
        if state_guard and allowed == {"CONNECTED"}:
            rep.ok("C04-DELIVER", what, sample="guard holds only in state CONNECTED")
        elif via_srtp:
            rep.ok("C04-DELIVER", what, sample="guarded by the SRTP session, created only by _setup_srtp, called only from start() after validation")
        else:
            rep.fail(mk_finding(prog, PROP, "C04-DELIVER", recv, node,
                                f"decrypted data is handed over in state(s) {sorted(allowed)}: before CONNECTED the peer's certificate has not been "
                                f"checked against the signalled fingerprints", construct="delivery " + unparse(node.func)))
    for fname, sinks in (("_send_data", ("self._ssl.send",)), ("_send_rtp", ("self._tx_srtp.protect_rtcp", "self._tx_srtp.protect"))):
        fi = prog.func(f"{D}.{fname}")
        sites = []

        def ob2(node, st: EvState, f, sinks=sinks):
            if isinstance(node, ast.Call) and unparse(node.func) in sinks:
                sites.append((node, ("self._state != State.CONNECTED", False) in st.guards))

        EventsDomain(prog, lambda n, f: [], ob2).run(fi)
        if not sites:
            raise AnalysisError(f"{fname}: send sink not found")
        for node, ok in sites:
            if ok:
                rep.ok("C04-SEND", f"{fname}: {unparse(node.func)}", sample="after `if self._state != State.CONNECTED: raise ConnectionError`")
            else:
                rep.fail(mk_finding(prog, PROP, "C04-SEND", fi, node, "data is encrypted/sent without the CONNECTED check"))

    # ---------------- C04-FP
    rep.rule("C04-FP", "fingerprint policy", min_instances=100)
    vpi = prog.func(D + "._validate_peer_identity")
    algos = {"sha-256": True, "SHA-256": True, "sha-384": True, "md5": False, "sha-1": False}

    def digest(algorithm: str) -> str:
        return "AB:CD:" + algorithm.upper().replace("-", "")

    def fp_hook(call: ast.Call, ev: Evaluator) -> Any:
        name = unparse(call.func)
        if name == "self._ssl.get_peer_certificate":
            return "CERT"
        if name == "certificate_digest":
            return digest(ev.ev(call.args[1]))
        if name == "self.__log_debug":
            return None
        if name == "self._set_state":
            ev.env.setdefault("@states", []).append(unparse(call.args[0]))
            return None
        return NotImplemented

    cases = []
    for a, sup in algos.items():
        good = digest(a.lower())
        for val, match in ((good, True), (good.lower(), True), (good[:-1] + "0", False)):
            cases.append((a, val, sup, match))
    n = 0
    for k in (1, 2, 3):
        for combo in itertools.product(cases, repeat=k):
            if k == 3 and n > 900:
                break
            n += 1
            fps = [SimpleNamespace(algorithm=a, value=v) for a, v, _s, _m in combo]
            supported = [m for _a, _v, s, m in combo if s]
            want_failed = (not supported) or (not all(supported))
            env = {"remoteParameters": SimpleNamespace(fingerprints=fps), "X509_DIGEST_ALGORITHMS": {"sha-256": 1, "sha-384": 1, "sha-512": 1}}
            ev = Evaluator(prog, mod, dcls, env, fp_hook)
            try:
                try:
                    ev.exec_block(vpi.node.body)
                except Ret:
                    pass
            except Unknown as u:
                raise AnalysisError(f"C04-FP: cannot evaluate _validate_peer_identity: {u}")
            failed = "State.FAILED" in ev.env.get("@states", [])
            desc = ", ".join(f"{a}:{'ok' if m else 'BAD'}" + ("" if s else "(unsupported)") for a, _v, s, m in combo)
            if failed == want_failed:
                rep.ok("C04-FP", f"fingerprints [{desc}]", sample=f"-> {'failed' if failed else 'accepted'}")
            else:
                rep.fail(mk_finding(prog, PROP, "C04-FP", vpi, vpi.node,
                                    f"fingerprints [{desc}] are {'rejected' if failed else 'ACCEPTED'}; the policy requires "
                                    f"{'rejection' if want_failed else 'acceptance'} (at least one supported hash, every supported hash must match, case-insensitively)",
                                    construct=f"fingerprints [{desc}]"))
    rep.analysed["fingerprint_lists"] = n

    # ---------------- C04-KEYS
    rep.rule("C04-KEYS", "SRTP key derivation", min_instances=9)
    setup = prog.func(D + "._setup_srtp")
    gks = prog.func("rtcdtlstransport.SRTPProtectionProfile.get_key_and_salt")
    rfc = {"SRTP_AEAD_AES_256_GCM": (32, 12), "SRTP_AEAD_AES_128_GCM": (16, 12), "SRTP_AES128_CM_SHA1_80": (16, 14)}
    profiles = []
    for name, (k, s) in rfc.items():
        call = mod.assigns.get(name)
        if not isinstance(call, ast.Call):
            raise AnalysisError(f"profile constant {name} not found")
        kw = {x.arg: prog.try_const(x.value, mod) for x in call.keywords}
        if kw.get("key_length") == k and kw.get("salt_length") == s and kw.get("openssl_profile") == name.encode():
            rep.ok("C04-KEYS", f"{name}: key {k} / salt {s} bytes", sample="RFC 5764 / 7714 lengths")
        else:
            rep.fail(mk_finding(prog, PROP, "C04-KEYS", setup, call, f"{name} has key/salt lengths {kw.get('key_length')}/{kw.get('salt_length')}, RFC says {k}/{s}", construct=f"profile {name}"))
        profiles.append(SimpleNamespace(openssl_profile=name.encode(), key_length=kw.get("key_length"), salt_length=kw.get("salt_length"), libsrtp_profile=name))

    def key_hook(call: ast.Call, ev: Evaluator) -> Any:
        name = unparse(call.func)
        if name == "self._ssl.get_selected_srtp_profile":
            return ev.env["@selected"]
        if name == "self._ssl.export_keying_material":
            n_ = ev.ev(call.args[1])
            ev.env["@exported"] = n_
            return bytes(range(n_))
        if name == "srtp_profile.get_key_and_salt":
            sub = Evaluator(prog, mod, None, {"self": ev.ev(call.func.value), "src": ev.ev(call.args[0]), "idx": ev.ev(call.args[1])}, key_hook)
            try:
                sub.exec_block(gks.node.body)
            except Ret as r:
                return r.value
            return None
        if name in ("self.__log_debug", "srtp_profile.openssl_profile.decode"):
            return None
        if name == "Policy":
            return SimpleNamespace(**{k.arg: ev.ev(k.value) for k in call.keywords})
        if name == "Session":
            return SimpleNamespace(policy=ev.ev(call.args[0]))
        if name == "self._set_state":
            ev.env.setdefault("@states", []).append(unparse(call.args[0]))
            return None
        return NotImplemented

    for p in profiles:
        res = {}
        for role in ("server", "client"):
            obj = SimpleNamespace(_role=role, _srtp_profiles=profiles, _rx_srtp=None, _tx_srtp=None)
            env = {"self": obj, "@selected": p.openssl_profile, "Policy.SSRC_ANY_INBOUND": "in", "Policy.SSRC_ANY_OUTBOUND": "out"}
            ev = Evaluator(prog, mod, dcls, env, key_hook)
            try:
                try:
                    ev.exec_block(setup.node.body)
                except Ret:
                    pass
            except Unknown as u:
                raise AnalysisError(f"C04-KEYS: cannot evaluate _setup_srtp: {u}")
            k, s = p.key_length, p.salt_length
            view = bytes(range(2 * (k + s)))
            client = view[0:k] + view[2 * k:2 * k + s]
            server = view[k:2 * k] + view[2 * k + s:2 * k + 2 * s]
            tx = obj._tx_srtp.policy.key if obj._tx_srtp else None
            rx = obj._rx_srtp.policy.key if obj._rx_srtp else None
            want_tx, want_rx = (server, client) if role == "server" else (client, server)
            res[role] = (tx, rx)
            desc = f"{p.openssl_profile.decode()} as DTLS {role}"
            ok = tx == want_tx and rx == want_rx and ev.env.get("@exported") == 2 * (k + s) and obj._tx_srtp.policy.ssrc_type == "out" and obj._rx_srtp.policy.ssrc_type == "in"
            if ok:
                rep.ok("C04-KEYS", f"keys for {desc}", sample=f"tx = {role} write key+salt, rx = peer's; {2 * (k + s)} bytes exported")
            else:
                rep.fail(mk_finding(prog, PROP, "C04-KEYS", setup, setup.node,
                                    f"{desc}: tx/rx keys are not the RFC 5764 {role} / peer slices of the exported material (or wrong length / direction)",
                                    construct=f"keys {desc}"))
        if res["server"][0] == res["client"][1] and res["server"][1] == res["client"][0]:
            rep.ok("C04-KEYS", f"{p.openssl_profile.decode()}: keys mirrored between roles", sample="server tx == client rx and vice versa")
        else:
            rep.fail(mk_finding(prog, PROP, "C04-KEYS", setup, setup.node, f"{p.openssl_profile.decode()}: the two roles do not derive mirror-image keys", construct=f"mirror {p.openssl_profile.decode()}"))

    # ---------------- C04-DROP
    rep.rule("C04-DROP", "authentication failures deliver nothing", min_instances=1)
    found = False
    for n in walk_no_nested(recv.node):
        if isinstance(n, ast.Try) and any("unprotect" in unparse(x) for x in n.body):
            found = True
            body_txt = " ".join(unparse(x) for x in n.body)
            handlers = [h for h in n.handlers if "pylibsrtp.Error" in unparse(h.type or ast.Constant(None))]
            ok = handlers and all(not any("_handle_" in unparse(x) for x in h.body) for h in handlers) \
                and "self._handle_rtp_data" in body_txt and "self._handle_rtcp_data" in body_txt
            if ok:
                rep.ok("C04-DROP", "_recv_next: unprotect and delivery share one try; the pylibsrtp.Error handler delivers nothing", sample="except pylibsrtp.Error: log only")
            else:
                rep.fail(mk_finding(prog, PROP, "C04-DROP", recv, n, "a packet failing SRTP authentication can still be delivered", construct="srtp drop"))
    if not found:
        raise AnalysisError("try block around unprotect not found")

    # ---------------- C04-DEMUX
    rep.rule("C04-DEMUX", "first-byte demultiplexing (RFC 7983) and RTP/RTCP classification", min_instances=256 + 6)
    chain = None
    for n in walk_no_nested(recv.node):
        if isinstance(n, ast.If) and any(isinstance(x, ast.Name) and x.id == "first_byte" for x in ast.walk(n.test)):
            chain = n
            break
    if chain is None:
        raise AnalysisError("_recv_next: demultiplexing on first_byte not found")
    branches: List[Tuple[ast.expr, str]] = []
    cur: Optional[ast.If] = chain
    while cur is not None:
        txt = " ".join(unparse(b) for b in cur.body)
        # a branch may delegate to a helper of the class: classify by what the helper does
        for c_ in [x for b in cur.body for x in ast.walk(b) if isinstance(x, ast.Call) and isinstance(x.func, ast.Attribute) and unparse(x.func.value) == "self"]:
            h_ = prog.find_method(dcls, c_.func.attr)
            if h_ is not None:
                txt += " " + unparse(h_.node)
        kind = "dtls" if "bio_write" in txt else ("srtp" if "unprotect" in txt else "other")
        branches.append((cur.test, kind))
        cur = cur.orelse[0] if len(cur.orelse) == 1 and isinstance(cur.orelse[0], ast.If) else None
    if {k for _t, k in branches} != {"dtls", "srtp"}:
        raise AnalysisError("_recv_next: expected one DTLS and one SRTP branch in the demultiplexer")
    me = SimpleNamespace(_rx_srtp=True)
    for b in range(256):
        got = "drop"
        for test, kind in branches:
            try:
                if Evaluator(prog, recv.module, recv.cls, {"first_byte": b, "self": me}).ev(test):
                    got = kind
                    break
            except Unknown as ex:
                raise AnalysisError(f"cannot evaluate the demultiplexer test {unparse(test)}: {ex}")
        want = "dtls" if 20 <= b <= 63 else ("srtp" if 128 <= b <= 191 else "drop")
        if got == want:
            rep.ok("C04-DEMUX", f"first byte {b}", sample=got)
        else:
            rep.fail(mk_finding(prog, PROP, "C04-DEMUX", recv, chain, f"a datagram whose first byte is {b} ({b:#04x}) is treated as {got}; RFC 7983 says {want}: "
                                f"{'padded or extended ' if b & 0x30 else ''}RTP/RTCP packets would not be received", construct=f"demux class of byte {b >> 4:#x}x"))
    is_rtcp = prog.func("rtp.is_rtcp")
    ev_r = Evaluator(prog, is_rtcp.module, None, {})
    forbidden = ev_r.ev(ast.Name(id="FORBIDDEN_PAYLOAD_TYPES", ctx=ast.Load()))
    for name in ("RTCP_SR", "RTCP_RR", "RTCP_SDES", "RTCP_BYE", "RTCP_RTPFB", "RTCP_PSFB"):
        pt = ev_r.ev(ast.Name(id=name, ctx=ast.Load()))
        if ev_r.call_function(is_rtcp, [bytes([0x80, pt, 0, 1])]) is True:
            rep.ok("C04-DEMUX", f"is_rtcp: {name} ({pt})", sample="classified as RTCP")
        else:
            rep.fail(mk_finding(prog, PROP, "C04-DEMUX", is_rtcp, is_rtcp.node, f"an RTCP packet of type {name} ({pt}) is not classified as RTCP and would be handed to the RTP path", construct=f"is_rtcp {name}"))
    # payload types aiortc itself sends: the static audio types and the dynamic range (the property is about two aiortc peers;
    # 64..71 / 77..95 are merely "to be avoided" by RFC 5761 and are not used)
    dynamic = ev_r.ev(ast.Name(id="DYNAMIC_PAYLOAD_TYPES", ctx=ast.Load()))
    sendable = [pt for pt in list(range(0, 35)) + list(dynamic) if pt not in forbidden]
    bad = [(m, pt) for m in (0, 1) for pt in sendable if ev_r.call_function(is_rtcp, [bytes([0x80, (m << 7) | pt, 0, 1])])]
    if bad:
        rep.fail(mk_finding(prog, PROP, "C04-DEMUX", is_rtcp, is_rtcp.node, f"RTP packets with (marker, payload type) in {bad[:4]} are classified as RTCP although aiortc negotiates these payload types",
                            construct="is_rtcp on RTP"))
    else:
        rep.ok("C04-DEMUX", "is_rtcp: no RTP packet with an allowed payload type is classified as RTCP", sample=f"{2 * len(sendable)} (marker, payload type) pairs")

    pump_rule(rep, prog)
    start_eval_rule(rep, prog)
    tables_rule(rep, prog)
    replay_rule(rep, prog)


def pump_rule(rep: Report, prog: Program) -> None:
    """C04-PUMP: one turn of the receive pump (_recv_next and the two handlers it calls) evaluated with stubbed collaborators (transport, OpenSSL, libsrtp,
    parsers, router) for every datagram class x transport state: what is handed to the data receiver / RTP receivers / RTCP recipients is exactly what the
    property allows - nothing before `connected`, nothing that failed authentication or parsing, and every packet of a compound to every recipient once."""
    from .objhook import make_hook
    RULE = "C04-PUMP"
    rep.rule(RULE, "the receive pump delivers exactly the authenticated, parsed packets - each to each recipient once - and application data only when connected", min_instances=10)
    T_ = "rtcdtlstransport.RTCDtlsTransport"
    recv = prog.func(T_ + "._recv_next")
    world: Dict[str, Any] = {}

    def extra(call: ast.Call, ev: Evaluator):
        name = unparse(call.func)
        if name == "self.transport._recv":
            return world["datagram"]
        if name.startswith("self._ssl."):
            if name == "self._ssl.recv":
                r = world["ssl_recv"]
                if isinstance(r, str):
                    raise Raised(r, call)
                return r
            return None
        if name in ("self._write_ssl", "self.__log_debug", "self.__log_warning"):
            return None
        if name == "self._data_receiver._handle_data":
            world["data"].append(ev.ev(call.args[0]))
            return None
        if name in ("self._rx_srtp.unprotect", "self._rx_srtp.unprotect_rtcp"):
            if world["auth"] is False:
                raise Raised("pylibsrtp.Error", call)
            return (b"rtcp:" if name.endswith("rtcp") else b"rtp:") + ev.ev(call.args[0])
        if name == "RtcpPacket.parse":
            d = ev.ev(call.args[0])
            if not d.startswith(b"rtcp:") or world["parse"] is False:
                raise Raised("ValueError", call)
            return list(world["rtcp_packets"])
        if name == "RtpPacket.parse":
            d = ev.ev(call.args[0])
            if not d.startswith(b"rtp:") or world["parse"] is False:
                raise Raised("ValueError", call)
            return "RTP-PACKET"
        if name == "self._rtp_router.route_rtcp":
            return set(world["rtcp_routes"].get(ev.ev(call.args[0]), ()))
        if name == "self._rtp_router.route_rtp":
            return world["rtp_route"]
        if name.endswith("._handle_rtcp_packet"):
            world["rtcp"].append((ev.ev(call.func.value), ev.ev(call.args[0])))
            return None
        if name.endswith("._handle_rtp_packet"):
            kw = {k.arg: ev.ev(k.value) for k in call.keywords}
            world["rtp"].append((ev.ev(call.func.value), [ev.ev(a) for a in call.args], kw))
            return None
        if name in ("clock.current_ms", "current_ms"):
            return 111
        if name == "asyncio.wait_for":
            return ev.ev(call.args[0])
        return NotImplemented
    oh = make_hook(prog, extra)
    state_cls = prog.cls("rtcdtlstransport.State")
    ST = {n: oh.enum_member(state_cls, n) for n in ("NEW", "CONNECTING", "CONNECTED", "CLOSED", "FAILED")}
    rtp_dgram = bytes([0x80, 96]) + b"\x00" * 20
    rtcp_dgram = bytes([0x80, 200]) + b"\x00" * 20
    dtls_dgram = bytes([23]) + b"\x00" * 20
    cases = [
        # label, state, datagram, ssl_recv, keys?, auth ok, parse ok, expected (data, rtp count, rtcp deliveries, raises)
        ("application data while connected", "CONNECTED", dtls_dgram, b"hello", True, True, True, dict(data=[b"hello"])),
        ("application data before the identity check is over (connecting)", "CONNECTING", dtls_dgram, b"hello", True, True, True, dict()),
        ("application data on a failed transport", "FAILED", dtls_dgram, b"hello", True, True, True, dict()),
        ("DTLS record without application data", "CONNECTED", dtls_dgram, b"", True, True, True, dict()),
        ("DTLS record that OpenSSL rejects", "CONNECTED", dtls_dgram, "SSL.Error", True, True, True, dict()),
        ("DTLS close_notify", "CONNECTED", dtls_dgram, "SSL.ZeroReturnError", True, True, True, dict(raises="ConnectionError")),
        ("SRTP packet, authenticated", "CONNECTED", rtp_dgram, b"", True, True, True, dict(rtp=1)),
        ("SRTP packet failing authentication", "CONNECTED", rtp_dgram, b"", True, False, True, dict()),
        ("SRTP packet that does not parse", "CONNECTED", rtp_dgram, b"", True, True, False, dict()),
        ("SRTP packet before the keys exist", "CONNECTING", rtp_dgram, b"", False, True, True, dict()),
        ("SRTCP compound of three packets", "CONNECTED", rtcp_dgram, b"", True, True, True, dict(rtcp=[("s1", "p1"), ("s1", "p3"), ("r1", "p3")])),
        ("SRTCP compound failing authentication", "CONNECTED", rtcp_dgram, b"", True, False, True, dict()),
        ("SRTCP compound that does not parse", "CONNECTED", rtcp_dgram, b"", True, True, False, dict()),
        ("empty datagram", "CONNECTED", b"", b"", True, True, True, dict()),
        ("STUN datagram", "CONNECTED", bytes([0, 1]) + b"\x00" * 18, b"", True, True, True, dict()),
    ]
    for label, state, dgram, ssl_recv, keys, auth, parse, want in cases:
        world.update(datagram=dgram, ssl_recv=ssl_recv, auth=auth, parse=parse, data=[], rtp=[], rtcp=[], rtcp_packets=["p1", "p2", "p3"],
                     rtcp_routes={"p1": ["s1"], "p2": [], "p3": ["s1", "r1"]}, rtp_route="receiver-1")
        me = SimpleNamespace(__cls__=recv.cls, encrypted=True, _state=ST[state], _data_receiver=SimpleNamespace(), _rx_srtp=SimpleNamespace() if keys else None,
                             _ssl=SimpleNamespace(), transport=SimpleNamespace(), _rtp_router=SimpleNamespace(), _rtp_header_extensions_map=SimpleNamespace())
        setattr(me, "__rx_bytes", 0)
        setattr(me, "__rx_packets", 0)
        raised = None
        try:
            oh.run_method(recv, me, [], {})
        except Raised as ex:
            raised = ex.name
        except Unknown as ex:
            raise AnalysisError(f"{RULE} cannot evaluate [{label}]: {ex}")
        problems = []
        if raised != want.get("raises"):
            problems.append(f"raises {raised}, expected {want.get('raises')}")
        if world["data"] != want.get("data", []):
            problems.append(f"application data handed over: {world['data']}, expected {want.get('data', [])}")
        if want.get("rtp"):
            ok_rtp = len(world["rtp"]) == 1 and world["rtp"][0][0] == "receiver-1" and "RTP-PACKET" in (world["rtp"][0][1] + list(world["rtp"][0][2].values())) \
                and 111 in (world["rtp"][0][1] + list(world["rtp"][0][2].values()))
            if not ok_rtp:
                problems.append(f"RTP deliveries {world['rtp']}, expected one to receiver-1 with the parsed packet and the arrival time")
        elif world["rtp"]:
            problems.append(f"an RTP packet was delivered: {world['rtp']}")
        if sorted(world["rtcp"]) != sorted(want.get("rtcp", [])):
            problems.append(f"RTCP deliveries {sorted(world['rtcp'])}, expected {sorted(want.get('rtcp', []))}")
        if problems:
            rep.fail(mk_finding(prog, PROP, RULE, recv, recv.node, f"[{label}] " + "; ".join(problems), construct=f"pump: {label}"))
        else:
            rep.ok(RULE, label, sample=str(want) if want else "nothing delivered")


def start_eval_rule(rep: Report, prog: Program) -> None:
    """C04-STARTEVAL: RTCDtlsTransport.start() evaluated with its three steps stubbed (handshake / identity check / key derivation each succeed or mark the
    transport failed): `connected` and the data pump only after all three succeeded, the identity is checked only after a successful handshake, keys are derived only
    for a validated peer, and the DTLS role follows the negotiated role (or the ICE role when it is `auto`)."""
    import itertools

    from .objhook import make_hook
    RULE = "C04-STARTEVAL"
    rep.rule(RULE, "start(): connected / data pump / SRTP keys only after handshake and identity check succeeded; role selection", min_instances=10)
    st_f = prog.func("rtcdtlstransport.RTCDtlsTransport.start")
    state_cls = prog.cls("rtcdtlstransport.State")
    log: List[str] = []
    outcome: Dict[str, bool] = {}
    ST: Dict[str, Any] = {}

    def extra(call: ast.Call, ev: Evaluator):
        name = unparse(call.func)
        me = ev.env.get("self")
        if name in ("SSL.Connection",):
            return SimpleNamespace(kind="ssl")
        if name.endswith("_create_ssl_context"):
            return SimpleNamespace(kind="ctx")
        if name in ("self._ssl.set_accept_state", "self._ssl.set_connect_state"):
            log.append(name.rsplit(".", 1)[-1])
            return None
        if name == "self._do_handshake":
            log.append("handshake")
            if not outcome["hs"]:
                me._state = ST["FAILED"]
            return None
        if name == "self._validate_peer_identity":
            log.append("identity")
            if not outcome["id"]:
                me._state = ST["FAILED"]
            return None
        if name == "self._setup_srtp":
            log.append("keys")
            if not outcome["srtp"]:
                me._state = ST["FAILED"]
            else:
                me._rx_srtp = "rx"
                me._tx_srtp = "tx"
            return None
        if name == "self.__run":
            return "PUMP"
        if name == "asyncio.ensure_future":
            v = ev.ev(call.args[0])
            log.append(f"task:{v}")
            return SimpleNamespace(task=v)
        if name in ("self.__log_debug", "self.emit"):
            return None
        return NotImplemented
    oh = make_hook(prog, extra)
    for n_ in ("NEW", "CONNECTING", "CONNECTED", "CLOSED", "FAILED"):
        ST[n_] = oh.enum_member(state_cls, n_)
    for role, ice_role, hs, idok, srtp in itertools.product(("auto", "server", "client"), ("controlling", "controlled"), (True, False), (True, False), (True, False)):
        if (not hs and not (idok and srtp)) or (not idok and not srtp):
            continue  # later steps are irrelevant once an earlier one failed: keep one representative
        del log[:]
        outcome.update(hs=hs, id=idok, srtp=srtp)
        me = SimpleNamespace(__cls__=st_f.cls, _state=ST["NEW"], _role=role, transport=SimpleNamespace(role=ice_role), _ssl=None, _task=None, _srtp_profiles=["p"], _rx_srtp=None, _tx_srtp=None)
        setattr(me, "__local_certificate", SimpleNamespace())
        label = f"role {role}, ICE {ice_role}, handshake {'ok' if hs else 'fails'}, identity {'ok' if idok else 'mismatch'}, key derivation {'ok' if srtp else 'fails'}"
        try:
            oh.run_method(st_f, me, [SimpleNamespace(fingerprints=["fp"], role="auto")], {})
        except Raised as ex:
            rep.fail(mk_finding(prog, PROP, RULE, st_f, getattr(ex, "node", None), f"[{label}] start() raises {ex.name}", construct=f"start raises {ex.name}"))
            continue
        except Unknown as ex:
            raise AnalysisError(f"{RULE} cannot evaluate start() [{label}]: {ex}")
        all_ok = hs and idok and srtp
        problems = []
        want_state = ST["CONNECTED"] if all_ok else ST["FAILED"]
        if me._state is not want_state:
            problems.append(f"final state {getattr(me._state, 'name', me._state)}, expected {want_state.name}")
        if ("task:PUMP" in log) != all_ok or (me._task is not None) != all_ok:
            problems.append(f"data pump {'started' if 'task:PUMP' in log else 'not started'} (task handle {'set' if me._task is not None else 'unset'})")
        if ("identity" in log) != hs:
            problems.append("the peer identity is " + ("checked although the handshake failed" if "identity" in log else "not checked"))
        if ("keys" in log) != (hs and idok):
            problems.append("SRTP keys are " + ("derived for a peer whose identity was not validated" if "keys" in log else "not derived"))
        if log[:1] and "handshake" in log and log.index("handshake") > (log.index("identity") if "identity" in log else 99):
            problems.append("identity checked before the handshake")
        eff_role = role if role != "auto" else ("server" if ice_role == "controlling" else "client")
        want_call = "set_accept_state" if eff_role == "server" else "set_connect_state"
        if [x for x in log if x.startswith("set_")] != [want_call]:
            problems.append(f"DTLS {[x for x in log if x.startswith('set_')]} for role {eff_role}, expected {want_call}")
        if problems:
            rep.fail(mk_finding(prog, PROP, RULE, st_f, st_f.node, f"[{label}] " + "; ".join(problems), construct="start: " + problems[0][:60]))
        else:
            rep.ok(RULE, label, sample=" -> ".join(log))


def tables_rule(rep: Report, prog: Program) -> None:
    """C04-TABLES: (a) the fingerprint algorithm table maps each RFC 8122 hash-function name to that hash function (both the fingerprints this side
    announces and the comparison in _validate_peer_identity go through it, so two aiortc peers agree with each other whatever it says - only the table itself
    shows a wrong entry); (b) the buffer handed to SSL.Connection.recv() is at least as large as the records _write_ssl() emits (bio_read size): a shorter read
    truncates an application message and shifts every message after it."""
    RULE = "C04-TABLES"
    rep.rule(RULE, "fingerprint hash table follows RFC 8122 names; the DTLS read size covers the largest record written", min_instances=4)
    mod = prog.module("rtcdtlstransport")
    tbl = mod.assigns.get("X509_DIGEST_ALGORITHMS")
    if not isinstance(tbl, ast.Dict):
        raise AnalysisError("X509_DIGEST_ALGORITHMS table not found")
    anchor = prog.func("rtcdtlstransport.RTCDtlsTransport._validate_peer_identity")
    for k, v in zip(tbl.keys, tbl.values):
        name = getattr(k, "value", None)
        cls_name = unparse(v.func).split(".")[-1] if isinstance(v, ast.Call) else unparse(v).split(".")[-1]
        want = None
        if isinstance(name, str) and name.lower().startswith("sha-"):
            want = "SHA" + name[4:].replace("-", "_").upper()
        if want is None:
            raise AnalysisError(f"C04-TABLES: no oracle for fingerprint algorithm {name!r}")
        if cls_name == want:
            rep.ok(RULE, f"fingerprint algorithm {name!r} -> {cls_name}", sample="RFC 8122 / RFC 4572 hash function textual name")
        else:
            rep.fail(mk_finding(prog, PROP, RULE, anchor, v, f"fingerprint algorithm {name!r} is computed with {cls_name}, RFC 8122 means {want}: a genuine {name} fingerprint of the peer certificate is "
                                "rejected and a value that is not its fingerprint is accepted", construct=f"fingerprint algorithm {name}"))
    recv_f = prog.func("rtcdtlstransport.RTCDtlsTransport._recv_next")
    wr_f = prog.func("rtcdtlstransport.RTCDtlsTransport._write_ssl")

    def size_of(fi, meth):
        out = []
        for n in ast.walk(fi.cls.node):
            if isinstance(n, ast.Call) and unparse(n.func) == f"self._ssl.{meth}" and n.args:
                try:
                    out.append((n, Evaluator(prog, fi.module, None, {}).ev(n.args[0])))
                except Unknown:
                    out.append((n, None))
        return out
    reads, writes = size_of(recv_f, "recv"), size_of(wr_f, "bio_read")
    if not reads or not writes or any(v is None for _, v in reads + writes):
        raise AnalysisError(f"C04-TABLES: DTLS read / write sizes not resolved: {[v for _, v in reads]} / {[v for _, v in writes]}")
    biggest = max(v for _, v in writes)
    for n, v in reads:
        if v >= biggest:
            rep.ok(RULE, f"self._ssl.recv({v}) covers records of up to {biggest} bytes", sample=unparse(n))
        else:
            rep.fail(mk_finding(prog, PROP, RULE, recv_f, n, f"application data is read with a {v}-byte buffer but _write_ssl() emits records of up to {biggest} bytes: a longer message arrives "
                                "truncated and its tail is delivered as the start of the next one", construct="DTLS read size smaller than the record size written"))


def replay_rule(rep: Report, prog: Program) -> None:
    """C04-REPLAY: the inbound SRTP session must accept every packet the peer's outbound session may legitimately emit.  libsrtp rejects a packet whose index lies more
    than `window_size` behind the newest one (default 128).  The peer (same code) re-sends sequence numbers as old as its history (RTP_HISTORY_SIZE) and its outbound
    session is configured with its own window; the inbound policy's window has to cover both, otherwise authentic late / re-sent packets are silently dropped."""
    RULE = "C04-REPLAY"
    rep.rule(RULE, "the inbound SRTP policy's replay window covers the outbound policy's window and the retransmission history", min_instances=2)
    fi = prog.func("rtcdtlstransport.RTCDtlsTransport._setup_srtp")
    def _is_session(c: ast.AST) -> bool:
        return isinstance(c, ast.Call) and unparse(c.func).split(".")[-1] == "Session" and bool(c.args)

    def _creation(value: ast.AST):
        """(function in which the policy is configured, policy expression) for the value stored as a session: Session(policy), or a helper that returns Session(policy)"""
        if _is_session(value):
            return fi, value.args[0]
        if isinstance(value, ast.Call):
            name_ = unparse(value.func)
            helper = prog.find_method(fi.cls, name_.split(".", 1)[1]) if name_.startswith("self.") else prog.functions.get(f"{fi.module.name}.{name_}")
            if helper is not None:
                rets = [n.value for n in walk_no_nested(helper.node) if isinstance(n, ast.Return) and n.value is not None]
                if len(rets) == 1 and _is_session(rets[0]):
                    return helper, rets[0].args[0]
                if len(rets) == 1 and isinstance(rets[0], ast.Name):
                    for n in walk_no_nested(helper.node):
                        if isinstance(n, ast.Assign) and unparse(n.targets[0]) == rets[0].id and _is_session(n.value):
                            return helper, n.value.args[0]
        return None
    sessions: Dict[str, Any] = {}
    for n in walk_no_nested(fi.node):
        if isinstance(n, ast.Assign) and unparse(n.targets[0]) in ("self._rx_srtp", "self._tx_srtp"):
            made = _creation(n.value)
            if made is not None:
                sessions[unparse(n.targets[0])] = made
    if set(sessions) != {"self._rx_srtp", "self._tx_srtp"}:
        raise AnalysisError(f"{RULE}: the creation of the inbound / outbound SRTP sessions was not found in _setup_srtp")
    DEFAULT = 128           # libsrtp: window_size 0 means the default of 128 packets

    def window(made) -> Tuple[int, Optional[ast.AST]]:
        """window_size the policy handed to Session() carries: constructor keyword or attribute assignments on the policy variable (last one wins)"""
        scope, arg = made
        val, where = DEFAULT, None
        ctor = arg
        var = unparse(arg) if isinstance(arg, ast.Name) else None
        for n in walk_no_nested(scope.node):
            if var and isinstance(n, ast.Assign) and unparse(n.targets[0]) == var and isinstance(n.value, ast.Call):
                ctor = n.value
        if isinstance(ctor, ast.Call):
            for k in ctor.keywords:
                if k.arg == "window_size":
                    val, where = Evaluator(prog, scope.module, None, {}).ev(k.value), k.value
        if var:
            for n in walk_no_nested(scope.node):
                if isinstance(n, ast.Assign) and unparse(n.targets[0]) == f"{var}.window_size":
                    val, where = Evaluator(prog, scope.module, None, {}).ev(n.value), n
        return (val or DEFAULT), where
    try:
        rx, rx_at = window(sessions["self._rx_srtp"])
        tx, _ = window(sessions["self._tx_srtp"])
        hist = prog.const(prog.modules["rtp"], "RTP_HISTORY_SIZE")
    except Unknown as ex:
        raise AnalysisError(f"{RULE}: cannot evaluate a window size: {ex}")
    for need, why in ((tx, "the outbound session's window (the peer runs the same code)"), (hist, "RTP_HISTORY_SIZE, the oldest sequence number a NACK can bring back")):
        if rx >= need:
            rep.ok(RULE, f"inbound window {rx} >= {need}", sample=why)
        else:
            rep.fail(mk_finding(prog, PROP, RULE, sessions["self._rx_srtp"][0], rx_at or sessions["self._rx_srtp"][1], f"the inbound SRTP session accepts packets at most {rx} behind the newest one, but {why} is {need}: an authentic packet "
                                f"that arrives later than that is dropped as a replay", construct=f"inbound replay window below {'the outbound window' if need == tx else 'the retransmission history'}"))
