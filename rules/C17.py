"""C17 — independence from sequence-number origins (serial-number discipline).

A value is serial(k) if it lives in Z/2^k and wraps: TSNs, RE-CONFIG sequence numbers, RTP
timestamps (k=32); stream sequence numbers, RTP sequence numbers (k=16).  Seeds are a frozen
table of attribute names; serial-ness is propagated through assignments, loop targets,
containers, helper results and (via the call graph) parameters.

  C17-CMP     no raw <, <=, >, >= between serial values
  C17-ORDER   no sorted()/min()/max()/.sort() over serial values unless keyed by a reduced distance
  C17-ARITH   + / - on a serial value only if the result is immediately reduced (% , &) or handed to a
              blessed helper, or an unwrap accumulator of the same width takes part (extended numbers)
  C17-TRUTHY  a serial value is never tested for truthiness (0 is a valid serial number)
  C17-HELPERS the blessed helpers use the right moduli / half-moduli (finite evaluation on boundary pairs)
  C17-SHIFT   (rules/C17shift.py) origin-shift equivalence by evaluation: SCTP receive path over arrival permutations, FORWARD-TSN, jitter
              buffer, NACK generator and receiver statistics give identical results at small origins and just below each wrap
Does not decide: helper algebra for all pairs; end-to-end equality under shifted origins beyond the enumerated scenarios.
"""
from __future__ import annotations

import ast
from typing import Any, Dict, List, Optional, Set, Tuple

from engine.callgraph import CallGraph
from engine.index import AnalysisError, FuncInfo, Program, Unknown, unparse, walk_no_nested
from engine.peval import Evaluator
from engine.report import Report, mk_finding, norm
from engine.types import Types

PROP = "C17"
MODULES = ["rtcsctptransport", "jitterbuffer", "rtcrtpreceiver", "rtcrtpsender", "rtp", "rate"]

SERIAL_ATTRS: Dict[str, int] = {
    # 32-bit
    "tsn": 32, "cumulative_tsn": 32, "initial_tsn": 32, "_local_tsn": 32, "_last_received_tsn": 32, "_last_sacked_tsn": 32,
    "_advanced_peer_ack_tsn": 32, "_fast_recovery_exit": 32, "request_sequence": 32, "response_sequence": 32, "last_tsn": 32,
    "_reconfig_request_seq": 32, "_reconfig_response_seq": 32, "timestamp": 32, "_last_timestamp": 32, "_last": 32,
    # 16-bit
    "stream_seq": 16, "sequence_number": 16, "max_seq": 16, "base_seq": 16, "__rtx_sequence_number": 16,
}
# attribute names that are serial only inside a given class (the name is reused elsewhere with another meaning)
SERIAL_ATTRS_IN_CLASS: Dict[Tuple[str, str], int] = {("jitterbuffer.JitterBuffer", "_origin"): 16}
SERIAL_CONTAINERS: Dict[str, int] = {"_sack_misordered": 32, "_sack_duplicates": 32, "missing": 16, "lost": 16, "duplicates": 32}
SERIAL_DICT_VALUES: Dict[str, int] = {"_outbound_stream_seq": 16}
# containers of tuples: position -> width (ForwardTsnChunk.streams holds (stream id, stream sequence number) pairs)
SERIAL_TUPLE_CONTAINERS: Dict[str, Dict[int, int]] = {"streams": {1: 16}}
# accumulators of multiples of 2^k: serial(k) +/- unwrap(k) is an ordinary (extended) integer
UNWRAP_ATTRS: Dict[Tuple[str, str], int] = {("rtcrtpreceiver.StreamStatistics", "cycles"): 16, ("rtcrtpreceiver.TimestampMapper", "_origin"): 32}
NOT_SERIAL_IN_CLASS = {("rtcrtpreceiver.TimestampMapper", "_origin"), ("rate.RateCounter", "_origin_ms"),
                       ("rtp.RtcpSenderInfo", "ntp_timestamp"), ("jitterbuffer.JitterFrame", "timestamp")}
HELPERS_RET = {"utils.uint16_add": 16, "utils.uint32_add": 32, "rtcsctptransport.tsn_plus_one": 32, "rtcsctptransport.tsn_minus_one": 32,
               "utils.random16": 16, "utils.random32": 32, "rtcrtpsender.random_sequence_number": 16}
BLESSED = {"utils.uint16_add", "utils.uint16_gt", "utils.uint16_gte", "utils.uint32_add", "utils.uint32_gt", "utils.uint32_gte",
           "rtcsctptransport.tsn_plus_one", "rtcsctptransport.tsn_minus_one"}
SERIAL_PARAM_NAMES = {"utils.uint16_add": {"a": 16}, "utils.uint32_add": {"a": 32}}

EXEMPT = [
    ("C17-CMP", "rtcrtpreceiver.StreamStatistics.add", "packet.sequence_number < self.max_seq",
     "wrap detector: evaluated only when uint16_gt() already said the packet is newer, so a numerically smaller value means the 16-bit space wrapped"),
    ("C17-CMP", "rtcrtpreceiver.TimestampMapper.map", "timestamp < self._last",
     "wrap detector of the timestamp unwrapper (frames are mapped in decoding order)"),
    ("C17-ORDER", "rtcrtpreceiver.RTCRtpReceiver._handle_rtp_packet", "sorted(self.__nack_generator.missing)",
     "the order only affects how sequence numbers are grouped into PID/BLP words; with 16-bit NACK arithmetic (C07-NACK) any order denotes the same set"),
    ("C17-ARITH", "rtcrtpreceiver.StreamStatistics.add", "arrival - self._last_arrival",
     "arrival times are unbounded local clock readings, not serial numbers (the attribute table does not list them; kept for clarity)"),
]


class Serial:
    def __init__(self, prog: Program) -> None:
        self.prog = prog
        self.types = Types(prog)
        self.cg = CallGraph(prog, self.types)
        self.local: Dict[str, Dict[str, int]] = {}  # func -> name -> k
        self.local_cont: Dict[str, Dict[str, int]] = {}  # func -> container name -> k
        self.params: Dict[str, Dict[str, int]] = {}
        self.unwrap_local: Dict[str, Set[str]] = {}

    def attr_k(self, e: ast.Attribute, fi: FuncInfo) -> Optional[int]:
        cls = self._recv_class(e.value, fi)
        if cls and (cls, e.attr) in NOT_SERIAL_IN_CLASS:
            return None
        if cls and (cls, e.attr) in UNWRAP_ATTRS:
            return None
        if cls and (cls, e.attr) in SERIAL_ATTRS_IN_CLASS:
            return SERIAL_ATTRS_IN_CLASS[(cls, e.attr)]
        if e.attr == "_origin":
            return None
        return SERIAL_ATTRS.get(e.attr)

    def unwrap_k(self, e: ast.AST, fi: FuncInfo) -> Optional[int]:
        if isinstance(e, ast.Attribute):
            cls = self._recv_class(e.value, fi)
            if cls and (cls, e.attr) in UNWRAP_ATTRS:
                return UNWRAP_ATTRS[(cls, e.attr)]
        return None

    def _recv_class(self, e: ast.AST, fi: FuncInfo) -> Optional[str]:
        if isinstance(e, ast.Name) and e.id == "self" and fi.cls is not None:
            return fi.cls.qualname
        t = self.types.type_of(e, fi) if isinstance(e, ast.expr) else None
        if t is not None and t[0] == "inst":
            return t[1].qualname
        return None

    def k_of(self, e: ast.AST, fi: FuncInfo) -> Optional[int]:
        """Serial width of an expression, None if not serial."""
        loc = self.local.get(fi.qualname, {})
        if isinstance(e, ast.Name):
            return loc.get(e.id)
        if isinstance(e, ast.Attribute):
            return self.attr_k(e, fi)
        if isinstance(e, ast.Subscript):
            c = self.cont_k(e.value, fi)
            if c is not None and not isinstance(e.slice, ast.Slice):
                return c
            if isinstance(e.value, ast.Attribute) and e.value.attr in SERIAL_DICT_VALUES:
                return SERIAL_DICT_VALUES[e.value.attr]
            return None
        if isinstance(e, ast.Call):
            cs = self.cg.resolve_call(e, fi)
            for tg in cs.targets:
                if tg.qualname in HELPERS_RET:
                    # uintN_add(a, -b) with b serial is a *distance* (plain integer), not a serial number
                    if len(e.args) == 2 and isinstance(e.args[1], ast.UnaryOp) and isinstance(e.args[1].op, ast.USub) \
                            and self.k_of(e.args[1].operand, fi):
                        return None
                    return HELPERS_RET[tg.qualname]
            if isinstance(e.func, ast.Attribute) and e.func.attr in ("get", "pop") and isinstance(e.func.value, ast.Attribute) \
                    and e.func.value.attr in SERIAL_DICT_VALUES:
                return SERIAL_DICT_VALUES[e.func.value.attr]
            if isinstance(e.func, ast.Attribute) and e.func.attr in ("pop", "popleft") and self.cont_k(e.func.value, fi):
                return self.cont_k(e.func.value, fi)
            return None
        if isinstance(e, ast.IfExp):
            return self.k_of(e.body, fi) or self.k_of(e.orelse, fi)
        if isinstance(e, ast.BinOp) and isinstance(e.op, (ast.Mod, ast.BitAnd)):
            # (a + b) % 2^k stays serial(k) when the modulus is exactly 2^k / the mask 2^k - 1
            m = self.prog.try_const(e.right, fi.module, fi.cls)
            inner = self.k_in(e.left, fi)
            if inner and isinstance(m, int):
                if isinstance(e.op, ast.Mod) and m == 1 << inner:
                    return inner
                if isinstance(e.op, ast.BitAnd) and m == (1 << inner) - 1:
                    return inner
            return None
        return None

    def k_in(self, e: ast.AST, fi: FuncInfo) -> Optional[int]:
        """Width of any serial atom inside an additive expression."""
        if isinstance(e, ast.BinOp) and isinstance(e.op, (ast.Add, ast.Sub)):
            return self.k_in(e.left, fi) or self.k_in(e.right, fi)
        if isinstance(e, ast.UnaryOp):
            return self.k_in(e.operand, fi)
        return self.k_of(e, fi)

    def cont_k(self, e: ast.AST, fi: FuncInfo) -> Optional[int]:
        if isinstance(e, ast.Attribute) and e.attr in SERIAL_CONTAINERS:
            return SERIAL_CONTAINERS[e.attr]
        if isinstance(e, ast.Name):
            return self.local_cont.get(fi.qualname, {}).get(e.id)
        if isinstance(e, ast.Call) and isinstance(e.func, ast.Name) and e.func.id in ("sorted", "list", "set", "filter", "tuple", "reversed") and e.args:
            return self.cont_k(e.args[-1] if e.func.id == "filter" else e.args[0], fi)
        if isinstance(e, ast.Call) and isinstance(e.func, ast.Attribute) and e.func.attr in ("keys", "copy"):
            return self.cont_k(e.func.value, fi)
        if isinstance(e, ast.Call):
            cs = self.cg.resolve_call(e, fi)
            for tg in cs.targets:
                r = self.ret_cont.get(tg.qualname)
                if r:
                    return r
        if isinstance(e, ast.Subscript) and isinstance(e.slice, ast.Slice):
            return self.cont_k(e.value, fi)
        return None

    ret_cont: Dict[str, int] = {}

    def propagate(self, funcs: List[FuncInfo]) -> None:
        changed = True
        rounds = 0
        while changed and rounds < 8:
            changed = False
            rounds += 1
            for fi in funcs:
                loc = self.local.setdefault(fi.qualname, {})
                lc = self.local_cont.setdefault(fi.qualname, {})
                for p, k in self.params.get(fi.qualname, {}).items():
                    if loc.get(p) != k:
                        loc[p] = k
                        changed = True
                if fi.parent is not None:
                    for n_, k in self.local.get(fi.parent.qualname, {}).items():
                        if n_ not in loc and n_ not in fi.params:
                            loc[n_] = k
                            changed = True

                def bind(t: ast.AST, k: Optional[int], ck: Optional[int]) -> None:
                    nonlocal changed
                    if isinstance(t, ast.Name):
                        if k and loc.get(t.id) != k:
                            loc[t.id] = k
                            changed = True
                        if ck and lc.get(t.id) != ck:
                            lc[t.id] = ck
                            changed = True

                for n in walk_no_nested(fi.node):
                    if isinstance(n, ast.Assign):
                        k = self.k_of(n.value, fi)
                        ck = self.cont_k(n.value, fi)
                        for t in n.targets:
                            bind(t, k, ck)
                            if isinstance(t, ast.Tuple) and isinstance(n.value, ast.Tuple) and len(t.elts) == len(n.value.elts):
                                for a, b in zip(t.elts, n.value.elts):
                                    bind(a, self.k_of(b, fi), self.cont_k(b, fi))
                    elif isinstance(n, ast.AnnAssign) and n.value is not None:
                        bind(n.target, self.k_of(n.value, fi), self.cont_k(n.value, fi))
                    elif isinstance(n, (ast.For, ast.comprehension)):
                        ck = self.cont_k(n.iter, fi)
                        if ck:
                            bind(n.target, ck, None)
                        if isinstance(n.iter, ast.Attribute) and n.iter.attr in SERIAL_TUPLE_CONTAINERS and isinstance(n.target, ast.Tuple):
                            for pos_, k_ in SERIAL_TUPLE_CONTAINERS[n.iter.attr].items():
                                if pos_ < len(n.target.elts):
                                    bind(n.target.elts[pos_], k_, None)
                    elif isinstance(n, ast.Return) and n.value is not None:
                        ck = self.cont_k(n.value, fi)
                        if ck and self.ret_cont.get(fi.qualname) != ck:
                            self.ret_cont[fi.qualname] = ck
                            changed = True
                    elif isinstance(n, ast.Call):
                        cs = self.cg.resolve_call(n, fi)
                        for tg in cs.targets:
                            if tg.qualname in BLESSED:
                                continue
                            params = [p.arg for p in tg.pos_params]
                            off = 1 if (tg.cls is not None and tg.kind in ("method", "property") and isinstance(n.func, ast.Attribute)) else 0
                            if tg.name == "__init__":
                                off = 1
                            for i, a in enumerate(n.args):
                                k = self.k_of(a, fi)
                                if k and i + off < len(params):
                                    d = self.params.setdefault(tg.qualname, {})
                                    if d.get(params[i + off]) != k:
                                        d[params[i + off]] = k
                                        changed = True
                            for kw in n.keywords:
                                k = self.k_of(kw.value, fi)
                                if k and kw.arg in params:
                                    d = self.params.setdefault(tg.qualname, {})
                                    if d.get(kw.arg) != k:
                                        d[kw.arg] = k
                                        changed = True


def _parents(root: ast.AST) -> Dict[int, ast.AST]:
    out: Dict[int, ast.AST] = {}
    for n in ast.walk(root):
        for c in ast.iter_child_nodes(n):
            out[id(c)] = n
    return out


def run(rep: Report, prog: Program, tier: str) -> None:
    rep.explanation = (
        "Qualifier analysis: values typed serial(16/32) from a frozen attribute table are propagated through assignments, loop "
        "targets, containers, helper results and call-graph parameter binding; every comparison, ordering call, additive "
        "arithmetic and truthiness test that touches a serial value is classified as allowed (==, helper argument, immediately "
        "reduced, extended number with an unwrap accumulator) or forbidden. The blessed helpers' moduli are checked by "
        "evaluating their bodies on boundary pairs. Decides the discipline, not end-to-end behaviour under shifted origins."
    )
    rep.assumptions += ["the serial attribute table (rules/C17.py) lists every wrapping counter; attributes not listed are not checked"]
    for q in list(HELPERS_RET) + list(BLESSED):
        prog.func(q)
    S = Serial(prog)
    seen_bool: Set[int] = set()
    funcs = [f for f in prog.iter_functions(MODULES + ["utils"])]
    S.propagate(funcs)
    exempt = {(r, f, norm(c)) for r, f, c, _w in EXEMPT}
    for r in ("C17-CMP", "C17-ORDER", "C17-ARITH", "C17-TRUTHY"):
        rep.rule(r, r, min_instances=0)
    rep.rule("C17-USE", "classified uses of serial values", min_instances=60)
    uses = 0

    def report(rule: str, fi: FuncInfo, node: ast.AST, msg: str) -> None:
        if (rule, fi.qualname, norm(unparse(node))) in exempt:
            rep.ok(rule, f"{fi.qualname}: {unparse(node)[:80]}", sample="exemption table")
            return
        rep.fail(mk_finding(prog, PROP, rule, fi, node, msg))

    for fi in funcs:
        if fi.qualname in BLESSED or fi.module.name == "utils":
            continue
        par = _parents(fi.node)
        for n in walk_no_nested(fi.node):
            # ---- comparisons
            if isinstance(n, ast.Compare):
                operands = [n.left] + list(n.comparators)
                for (a, op, b) in zip(operands, n.ops, operands[1:]):
                    ka, kb = S.k_of(a, fi), S.k_of(b, fi)
                    if not (ka or kb):
                        continue
                    uses += 1
                    if isinstance(op, (ast.Lt, ast.LtE, ast.Gt, ast.GtE)) and (ka and kb):
                        report("C17-CMP", fi, n, f"raw order comparison between serial({ka}) values; across the 2^{ka} wrap the numeric order is "
                                                 f"the reverse of the serial order — use the uint{ka}_gt/gte helpers")
                    elif isinstance(op, (ast.Lt, ast.LtE, ast.Gt, ast.GtE)) and (ka or kb) and not _is_const(prog, fi, b if ka else a):
                        other = b if ka else a
                        if S.k_in(other, fi):
                            report("C17-CMP", fi, n, "raw order comparison between a serial value and unreduced serial arithmetic")
                        else:
                            rep.ok("C17-USE", f"{fi.qualname}: {unparse(n)[:80]}", sample="serial compared with a non-serial bound")
                    else:
                        rep.ok("C17-USE", f"{fi.qualname}: {unparse(n)[:80]}", sample="equality / membership / constant bound")
            # ---- ordering calls
            elif isinstance(n, ast.Call):
                fn = n.func
                name = fn.id if isinstance(fn, ast.Name) else (fn.attr if isinstance(fn, ast.Attribute) else "")
                if name in ("sorted", "min", "max") and isinstance(fn, ast.Name) and n.args:
                    ck = S.cont_k(n.args[0], fi)
                    ks = [S.k_of(a, fi) for a in n.args]
                    if ck or (len(n.args) >= 2 and all(ks)):
                        uses += 1
                        key = next((k.value for k in n.keywords if k.arg == "key"), None)
                        if key is not None and _reduced_key(prog, fi, key):
                            rep.ok("C17-ORDER", f"{fi.qualname}: {unparse(n)[:80]}", sample="keyed by a distance reduced modulo 2^k")
                        else:
                            report("C17-ORDER", fi, n, f"{name}() orders serial({ck or ks[0]}) values numerically; after a wrap the smallest number is "
                                                       f"the newest — order by distance from a reference modulo 2^{ck or ks[0]}")
                elif name == "sort" and isinstance(fn, ast.Attribute) and S.cont_k(fn.value, fi):
                    uses += 1
                    key = next((k.value for k in n.keywords if k.arg == "key"), None)
                    if key is None or not _reduced_key(prog, fi, key):
                        report("C17-ORDER", fi, n, ".sort() orders serial values numerically")
                else:
                    cs = S.cg.resolve_call(n, fi)
                    if any(t.qualname in BLESSED for t in cs.targets):
                        if any(S.k_in(a, fi) for a in n.args):
                            uses += 1
                            rep.ok("C17-USE", f"{fi.qualname}: {unparse(n)[:80]}", sample="serial value handed to a blessed helper")
            # ---- arithmetic
            elif isinstance(n, ast.BinOp) and isinstance(n.op, (ast.Add, ast.Sub)):
                p = par.get(id(n))
                if isinstance(p, ast.BinOp) and isinstance(p.op, (ast.Add, ast.Sub)):
                    continue  # judged at the top of the additive chain
                k = S.k_in(n, fi)
                if not k:
                    continue
                uses += 1
                if _has_unwrap(S, n, fi, k):
                    rep.ok("C17-ARITH", f"{fi.qualname}: {unparse(n)[:80]}", sample=f"extended number: an unwrap({k}) accumulator takes part")
                    continue
                # climb through parentheses / unary minus
                q = p
                node = n
                while isinstance(q, ast.UnaryOp):
                    node, q = q, par.get(id(q))
                ok = None
                if isinstance(q, ast.BinOp) and isinstance(q.op, (ast.Mod, ast.BitAnd)) and q.left is node:
                    ok = "immediately reduced with " + unparse(q.right)
                elif isinstance(q, ast.Call):
                    cs = S.cg.resolve_call(q, fi)
                    if any(t.qualname in BLESSED for t in cs.targets):
                        ok = "argument of a blessed helper"
                if ok:
                    rep.ok("C17-ARITH", f"{fi.qualname}: {unparse(n)[:80]}", sample=ok)
                else:
                    report("C17-ARITH", fi, n, f"arithmetic on a serial({k}) value is not reduced modulo 2^{k} before use; the result is wrong by a "
                                               f"multiple of 2^{k} whenever the operands straddle the wrap")
            elif isinstance(n, ast.AugAssign) and isinstance(n.op, (ast.Add, ast.Sub)):
                k = S.k_of(_load(n.target), fi)
                if k:
                    uses += 1
                    report("C17-ARITH", fi, n, f"in-place arithmetic on a serial({k}) value without reduction modulo 2^{k}")
            # ---- truthiness
            tests: List[ast.AST] = []
            if isinstance(n, (ast.If, ast.While, ast.IfExp)):
                tests.append(n.test)
            elif isinstance(n, ast.Assert):
                tests.append(n.test)
            elif isinstance(n, ast.comprehension):
                tests.extend(n.ifs)
            elif isinstance(n, ast.UnaryOp) and isinstance(n.op, ast.Not) and id(n) not in seen_bool:
                # `not x` / `a or b` used as a value (assigned, returned, passed on) coerce to bool just the same
                tests.append(n)
            elif isinstance(n, ast.BoolOp) and id(n) not in seen_bool:
                tests.append(n)
            for t in tests:
                for sub in ast.walk(t):
                    if isinstance(sub, (ast.BoolOp, ast.UnaryOp)):
                        seen_bool.add(id(sub))
            for t in tests:
                for leaf in _bool_leaves(t):
                    if S.k_of(leaf, fi):
                        uses += 1
                        report("C17-TRUTHY", fi, leaf if isinstance(leaf, ast.expr) else t,
                               f"truthiness test of a serial({S.k_of(leaf, fi)}) value: 0 is a legal sequence number / timestamp and would be "
                               f"treated as 'absent' — compare with `is None` instead")
    rep.analysed["serial_uses_classified"] = uses
    rep.analysed["serial_locals"] = {k: v for k, v in S.local.items() if v}
    if uses < 60:
        raise AnalysisError(f"only {uses} uses of serial values classified; expected >= 60 (seed table no longer matches the code?)")

    # ---- helpers: finite evaluation on boundary pairs
    rep.rule("C17-HELPERS", "blessed helpers: moduli and half-moduli", min_instances=6)
    utils = prog.module("utils")
    for k in (16, 32):
        M = 1 << k
        H = M >> 1
        pts = sorted({0, 1, 2, H - 1, H, H + 1, M - 2, M - 1})
        add = prog.func(f"utils.uint{k}_add")
        gt = prog.func(f"utils.uint{k}_gt")
        gte = prog.func(f"utils.uint{k}_gte")
        ev = Evaluator(prog, utils)
        bad: Dict[str, str] = {}
        n_pairs = 0
        for a in pts:
            for b in pts + [-1, -2, -(H - 1)]:
                try:
                    r = ev.call_function(add, [a, b])
                except Unknown as u:
                    raise AnalysisError(f"cannot evaluate uint{k}_add: {u}")
                n_pairs += 1
                if r != (a + b) % M:
                    bad.setdefault(add.qualname, f"uint{k}_add({a}, {b}) = {r}, expected {(a + b) % M}")
            for b in pts:
                d = (a - b) % M
                try:
                    g = bool(ev.call_function(gt, [a, b]))
                    ge = bool(ev.call_function(gte, [a, b]))
                except Unknown as u:
                    raise AnalysisError(f"cannot evaluate uint{k}_gt/gte: {u}")
                n_pairs += 1
                if d != H:  # exactly half apart is undefined
                    want = 0 < d < H
                    if g != want:
                        bad.setdefault(gt.qualname, f"uint{k}_gt({a}, {b}) = {g}, serial arithmetic says {want}")
                    if ge != (want or a == b):
                        bad.setdefault(gte.qualname, f"uint{k}_gte({a}, {b}) = {ge}, serial arithmetic says {want or a == b}")
        for f in (add, gt, gte):
            if f.qualname in bad:
                rep.fail(mk_finding(prog, PROP, "C17-HELPERS", f, f.node, bad[f.qualname], construct=f"{f.name} boundary pairs"))
            else:
                rep.ok("C17-HELPERS", f"{f.qualname} on {len(pts)}x{len(pts)} boundary pairs", sample=f"{n_pairs} evaluations agree with arithmetic modulo 2^{k}")
    sctp = prog.module("rtcsctptransport")
    ev = Evaluator(prog, sctp)
    for name, delta in (("tsn_plus_one", 1), ("tsn_minus_one", -1)):
        f = prog.func("rtcsctptransport." + name)
        bad = None
        for a in (0, 1, (1 << 31), (1 << 32) - 1, (1 << 32) - 2):
            r = ev.call_function(f, [a])
            if r != (a + delta) % (1 << 32):
                bad = f"{name}({a}) = {r}, expected {(a + delta) % (1 << 32)}"
        if bad:
            rep.fail(mk_finding(prog, PROP, "C17-HELPERS", f, f.node, bad, construct=f"{name} boundary values"))
        else:
            rep.ok("C17-HELPERS", f"rtcsctptransport.{name} on boundary values", sample="agrees with arithmetic modulo 2^32")

    if len(MODULES) > 3:
        # origin-shift equivalence by evaluation (only in the full C17 run, not when another property borrows the rule set)
        from .C17shift import run_shift
        run_shift(rep, prog, tier)


def _is_const(prog: Program, fi: FuncInfo, e: ast.AST) -> bool:
    try:
        prog.const_eval(e, fi.module, fi.cls)
        return True
    except Unknown:
        return False


def _load(t: ast.AST) -> ast.AST:
    import copy
    n = copy.deepcopy(t)
    for x in ast.walk(n):
        if hasattr(x, "ctx"):
            x.ctx = ast.Load()
    return n


def _bool_leaves(t: ast.AST) -> List[ast.AST]:
    if isinstance(t, ast.BoolOp):
        out: List[ast.AST] = []
        for v in t.values:
            out.extend(_bool_leaves(v))
        return out
    if isinstance(t, ast.UnaryOp) and isinstance(t.op, ast.Not):
        return _bool_leaves(t.operand)
    return [t]


def _reduced_key(prog: Program, fi: FuncInfo, key: ast.AST) -> bool:
    """key=lambda t: (t - ref) % 2^k   (or & mask)"""
    if isinstance(key, ast.Lambda):
        b = key.body
        if isinstance(b, ast.BinOp) and isinstance(b.op, (ast.Mod, ast.BitAnd)) and isinstance(b.left, ast.BinOp) and isinstance(b.left.op, ast.Sub):
            m = prog.try_const(b.right, fi.module, fi.cls)
            return isinstance(m, int) and (m in (1 << 16, 1 << 32) or m in ((1 << 16) - 1, (1 << 32) - 1))
    return False


def _has_unwrap(S: Serial, n: ast.AST, fi: FuncInfo, k: int) -> bool:
    for x in ast.walk(n):
        if S.unwrap_k(x, fi) == k:
            return True
    return False
