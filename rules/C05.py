"""C05 — no received datagram can crash, hang or wedge the receive path.

Decides (static, all paths / all inputs):
  C05-EXC   exception-escape analysis: wire parsers reject with ValueError only; nothing but
            ConnectionError/CancelledError escapes the receive roots.
  C05-PROG  every cursor-driven while loop on the receive path strictly advances its cursor
            on every path back to the loop head.
  C05-COST  wire-controlled loop nests are tied to the datagram length.
  C05-TIMER every _tN_start() is preceded on every path by _tN_cancel() or a handle-is-None guard (typestate; a repeated
            chunk cannot trip the starters' assert)
  C05-SIGN  a counter decreased by peer-chosen lengths (_advertised_rwnd) is clamped with max(0, .) wherever it is serialised
  C05-PROG also: a loop whose exit test is a serial comparison steps its cursor only with the modular helpers
Does not decide: memory growth over histories, native-library behaviour, wall-clock.
"""
from __future__ import annotations

import ast
from typing import Dict, List, Set, Tuple

from engine.absint import Absint
from engine.index import AnalysisError, Program, unparse, walk_no_nested
from engine.report import Report, mk_finding, norm

from .common import EXEMPT_PROGRESS, ALLOWED_AT_BOUNDARY, BOUNDARY_ROOTS, PARSER_ENTRIES, origin_finding, receive_config, record_obligations

PROP = "C05"

EXC_HINT = {
    "struct.error": "struct.error is not a ValueError: it is not caught by the receive boundary and closes the DTLS transport",
    "AssertionError": "AssertionError escapes the receive boundary and closes the DTLS transport",
    "IndexError": "IndexError escapes the receive boundary",
    "KeyError": "KeyError escapes the receive boundary",
    "TypeError": "TypeError escapes the receive boundary",
    "UnboundLocalError": "UnboundLocalError escapes the receive boundary",
    "ZeroDivisionError": "ZeroDivisionError escapes the receive boundary",
}


def analyse(prog: Program) -> Absint:
    cfg = receive_config(prog)
    ai = Absint(prog, cfg)
    from engine.invariants import Invariants
    ai.invariants = Invariants(ai)
    return ai


def run(rep: Report, prog: Program, tier: str) -> None:
    rep.explanation = (
        "Static exception-escape and loop-progress analysis of the receive path: a structured abstract interpreter "
        "(linear length/cursor facts, intervals, taint from the datagram, definite assignment) walks every function "
        "reachable from the receive roots and wire-parser entries with context inlining; each raise-capable operation "
        "(struct unpack/pack, index, key, assert, division, shift, None arithmetic, unbound local, decode) is an obligation that "
        "must be discharged by a dominating fact or an enclosing handler; what escapes the entries is compared with "
        "the allowed sets. Decides these clauses for all inputs; does not decide memory growth, native code or timing."
    )
    rep.assumptions += [
        "CPython ast for 3.12; struct format table; builtin exception hierarchy table",
        "external libraries (aioice, OpenSSL, pylibsrtp, av, pyee) raise only what their call sites already handle",
        "operations on purely local state (indices/keys not derived from the datagram) are out of scope and counted as skipped",
    ]
    ai = analyse(prog)
    exc = ai.exc
    # pass 1: accumulate name-based heap knowledge (which attributes carry wire data / container shapes)
    passes = 0
    while passes < 3:
        sig = ai.heap_signature()
        for q, _p in PARSER_ENTRIES + BOUNDARY_ROOTS:
            ai.analyze_root(prog.func(q))
        passes += 1
        if ai.heap_signature() == sig:
            break
        ai.new_pass()
    rep.analysed["heap_flow_passes"] = passes
    origins: Dict[Tuple, Dict] = {}

    def note(origin, sites: List[str], entry: str, exc_name: str, clause: str) -> None:
        k = origin.key
        d = origins.setdefault(k, {"origin": origin, "sites": sites, "entries": [], "exc": exc_name, "clauses": set()})
        if entry not in d["entries"]:
            d["entries"].append(entry)
        d["clauses"].add(clause)
        if len(sites) < len(d["sites"]):
            d["sites"] = sites

    r = rep.rule("C05-EXC", "nothing but ValueError escapes a wire parser; nothing but ConnectionError/CancelledError escapes a receive root",
                 min_instances=60)
    # (a) parser clause
    for q, _params in PARSER_ENTRIES:
        fi = prog.func(q)
        summ = ai.analyze_root(fi)
        bad = 0
        for exc_name, wits in summ.raises.items():
            if exc.is_subclass(exc_name, "ValueError"):
                continue
            for w in wits:
                bad += 1
                note(w[0], [str(x) for x in w[1:]], q, exc_name, "parser")
        if not bad:
            rep.ok("C05-ENTRY", f"parser entry {q}: may-raise = {sorted(summ.raises) or '{}'} is within ValueError",
                   sample=f"escape set {sorted(summ.raises)}")
    # (b) boundary clause
    for q, _params in BOUNDARY_ROOTS:
        fi = prog.func(q)
        summ = ai.analyze_root(fi)
        bad = 0
        for exc_name, wits in summ.raises.items():
            if any(exc.is_subclass(exc_name, a) for a in ALLOWED_AT_BOUNDARY):
                continue
            for w in wits:
                bad += 1
                note(w[0], [str(x) for x in w[1:]], q, exc_name, "boundary")
        if not bad:
            rep.ok("C05-ENTRY", f"receive root {q}: escapes {sorted(summ.raises) or '{}'} are within {ALLOWED_AT_BOUNDARY}",
                   sample=f"escape set {sorted(summ.raises)}")
    rep.rule("C05-ENTRY", "per-entry escape sets", min_instances=0)
    ok, bad, skipped = record_obligations(rep, ai, "C05-EXC")
    for d in origins.values():
        o = d["origin"]
        what = EXC_HINT.get(d["exc"], f"{d['exc']} escapes")
        msg = f"may raise {d['exc']} ({o.message}); reaches {', '.join(d['entries'][:3])} uncaught — {what}"
        rep.fail(origin_finding(prog, PROP, "C05-EXC", o, d["sites"], msg))

    # (c) progress
    rep.rule("C05-PROG", "every cursor-driven while loop advances its cursor by >= 1 on every path back to the loop head", min_instances=8)
    seen_loops: Dict[Tuple[str, int], Dict] = {}
    for (ctx, nid), rec in ai.loop_records.items():
        if "cursor" not in rec or not isinstance(rec["node"], ast.While):
            continue
        key = (rec["func"], nid)
        cur = seen_loops.setdefault(key, {"node": rec["node"], "func": rec["func"], "cursor": rec["cursor"], "bad": []})
        for okk, via in rec["back"]:
            if not okk:
                cur["bad"].append(via)
    for (fn, nid), rec in seen_loops.items():
        fi = prog.func(fn)
        node = rec["node"]
        what = f"{fn}: while {unparse(node.test)} (cursor {rec['cursor']})"
        if rec["bad"] and any(fn == f0 and norm("while " + unparse(node.test)) == norm(c0) for f0, c0, _w in EXEMPT_PROGRESS):
            rep.ok("C05-PROG", what, sample="exemption table (variant measure argument)")
        elif rec["bad"]:
            rep.fail(mk_finding(prog, PROP, "C05-PROG", fi, node,
                                f"cursor `{rec['cursor']}` is not shown to advance on the path(s) back to the loop head via "
                                f"{sorted(set(rec['bad']))}: a crafted datagram can make this loop spin forever",
                                construct="while " + unparse(node.test)))
        else:
            rep.ok("C05-PROG", what, sample=f"{rec['cursor']} increases by >= 1 on every back edge @ {fi.module.relpath}:{node.lineno}")

    # (c') a loop whose exit test is a *serial* comparison terminates only if the cursor stays in the modular domain:
    # stepping it with plain `+` walks past the wrap and the comparison never turns false
    import re as _re
    n_serial = 0
    for fn in sorted(ai.analysed_funcs):
        fi = prog.functions.get(fn)
        if fi is None:
            continue
        for node in walk_no_nested(fi.node):
            if not isinstance(node, ast.While):
                continue
            calls = [c for c in ast.walk(node.test) if isinstance(c, ast.Call) and _re.fullmatch(r"uint(16|32)_(gt|gte)", unparse(c.func))]
            for c in calls:
                width = _re.fullmatch(r"uint(16|32)_(gt|gte)", unparse(c.func)).group(1)
                cursors = [a.id for a in c.args if isinstance(a, ast.Name)]
                for cur_name in cursors:
                    steps = [a for a in ast.walk(node) if isinstance(a, (ast.Assign, ast.AugAssign))
                             and any(isinstance(t, ast.Name) and t.id == cur_name for t in (a.targets if isinstance(a, ast.Assign) else [a.target]))]
                    if not steps:
                        continue
                    n_serial += 1
                    bad_steps = []
                    for a in steps:
                        v = a.value
                        modular = isinstance(a, ast.Assign) and (
                            (isinstance(v, ast.Call) and unparse(v.func) in (f"uint{width}_add", "tsn_plus_one", "tsn_minus_one"))
                            or (isinstance(v, ast.BinOp) and isinstance(v.op, (ast.Mod, ast.BitAnd))))
                        if not modular:
                            bad_steps.append(a)
                    what = f"{fn}: while {unparse(node.test)} (serial cursor {cur_name})"
                    if bad_steps:
                        rep.fail(mk_finding(prog, PROP, "C05-PROG", fi, bad_steps[0],
                                            f"the loop `while {unparse(node.test)}` compares `{cur_name}` modulo 2^{width} but steps it with `{unparse(bad_steps[0])}`: when the range "
                                            f"crosses the wrap the cursor leaves the number space, the comparison stays true and the receive path spins forever",
                                            construct=f"serial cursor step {unparse(bad_steps[0])}"))
                    else:
                        rep.ok("C05-PROG", what, sample=f"stepped only with uint{width}_add / modulo")
    if n_serial < 1:
        raise AnalysisError("no serial-cursor loop found on the receive path (NackGenerator.add expected)")

    # (d) cost
    from .cost import check_cost
    check_cost(rep, prog, ai, PROP)

    rep.analysed.update({
        "functions_analysed": len(ai.analysed_funcs),
        "analysis_contexts": len(ai.memo),
        "obligations_skipped_untainted_or_undecided": skipped,
        "obligations_failed_before_handlers": bad,
        "recursion_cut": sorted(ai.recursion_cut),
        "detached_task_entry_points": sorted(ai.spawned),
        "parser_entries": [q for q, _ in PARSER_ENTRIES],
        "receive_roots": [q for q, _ in BOUNDARY_ROOTS],
    })
    if len(ai.analysed_funcs) < 60:
        raise AnalysisError(f"only {len(ai.analysed_funcs)} functions analysed from the receive roots; expected >= 60")

    # (e) timer typestate and (f) sign rule: shared with C02 (rules/common.py)
    from .common import sign_rule, timer_rule
    timer_rule(rep, prog, PROP, "C05-TIMER")
    sign_rule(rep, prog, PROP, "C05-SIGN", sorted(ai.analysed_funcs))

    # (g) premises of the exemption table: an exempted assertion / operation is only unreachable from the network while the rule its
    # reason cites holds, so those rules are part of this check
    from .common import import_rules
    import_rules(rep, prog, tier, PROP, "C05-PREMISE-DUP", "C01", ["C01-DUP"],
                 "premise of the exempted assertion in InboundStream.add_chunk: _mark_received() rejects every TSN that is already queued (rule C01-DUP)", 2)
    import_rules(rep, prog, tier, PROP, "C05-PREMISE-LEN", "C07", ["C07-LEN"],
                 "premise of the exempted assertion in pack_rtcp_packet: every RTCP payload is a multiple of 4 bytes (rule C07-LEN)", 1)
    import_rules(rep, prog, tier, PROP, "C05-PREMISE-BOUND", "C10", ["C10-BOUND"],
                 "premise of the exempted assertion in JitterBuffer.remove: the ring never changes its size (rule C10-BOUND)", 2)

    # (h) Optional fields in arithmetic; (i) serial-number discipline on the receive path (a non-modular difference of two TSNs / sequence numbers is
    # negative or huge and ends in struct.pack or an index)
    from .common import none_arith_rule, serial_subrule
    none_arith_rule(rep, prog, PROP, "C05-NONE")
    serial_subrule(rep, prog, tier, PROP, "C05-SERIAL", ["rtcsctptransport", "rtcrtpreceiver", "rtcrtpsender", "jitterbuffer", "rtp"], 30,
                   "serial-number discipline (C17 rule set) on the receive path: a raw difference / comparison of wrapping counters yields negative or huge values that end in struct.pack or an index")

    # (j) codec payloads: the decoders run in a worker thread fed through a queue; whatever FFmpeg thinks of a payload must not end that thread, and the
    # flush request (an empty packet) must never be produced from received data
    decode_rule(rep, prog)
    _sack_premise(rep, prog, tier)
    sack_size_rule(rep, prog)


def decode_rule(rep: Report, prog: Program) -> None:
    import ast
    from types import SimpleNamespace as NS

    from engine.index import Unknown, unparse, walk_no_nested
    from engine.peval import Raised
    from engine.report import mk_finding

    from .objhook import make_hook
    RULE = "C05-DECODE"
    rep.rule(RULE, "every decoder of the registry survives a payload FFmpeg rejects; frames without data never reach a decoder", min_instances=6)
    base = prog.cls("codecs.base.Decoder")
    decoders = [ci for ci in prog.classes.values() if ci is not base and any(c is base for c in prog.mro(ci)) and "decode" in ci.methods]
    if len(decoders) < 5:
        raise AnalysisError(f"{RULE}: only {len(decoders)} decoder classes found")
    for ci in sorted(decoders, key=lambda c: c.qualname):
        fi = ci.methods["decode"]
        parents = {}
        for p_ in ast.walk(fi.node):
            for ch in ast.iter_child_nodes(p_):
                parents[id(ch)] = p_
        ext_calls = [n for n in walk_no_nested(fi.node) if isinstance(n, ast.Call) and isinstance(n.func, ast.Attribute) and n.func.attr in ("decode", "send", "receive", "parse")
                     and unparse(n.func.value).startswith("self.codec")]
        if not ext_calls:
            rep.ok(RULE, f"{ci.qualname}.decode: no FFmpeg call", nontrivial=False)
            continue
        for n in ext_calls:
            cur = n
            guarded = False
            while id(cur) in parents:
                par = parents[id(cur)]
                if isinstance(par, ast.Try) and any(cur is b for b in par.body):
                    for hd in par.handlers:
                        names = [unparse(x).split(".")[-1] for x in (hd.type.elts if isinstance(hd.type, ast.Tuple) else [hd.type])] if hd.type is not None else ["*"]
                        if any(x in ("*", "FFmpegError", "Exception", "BaseException") for x in names) and not any(isinstance(b, ast.Raise) for b in hd.body):
                            guarded = True
                cur = par
            if guarded:
                rep.ok(RULE, f"{ci.qualname}.decode: `{unparse(n)[:50]}` inside a handler for FFmpegError", sample="log and return no frames")
            else:
                rep.fail(mk_finding(prog, "C05", RULE, fi, n, f"`{unparse(n)[:60]}` can raise av.FFmpegError (InvalidDataError for a payload that is not a valid frame, EOFError after a flush) and "
                                    f"{ci.name}.decode does not handle it, unlike its sibling decoders: the exception ends the decoder thread and nothing is decoded for the rest of the session",
                                    construct=f"{ci.name}.decode lets FFmpegError escape"))
    # the worker calls decode() bare: it relies on the above
    h = prog.func("rtcrtpreceiver.RTCRtpReceiver._handle_rtp_packet")
    queued = []

    def extra(call, ev):
        name = unparse(call.func)
        if name.endswith("__jitter_buffer.add"):
            return (False, ev.env["self"].next_frame)
        if name.endswith("__decoder_queue.put"):
            queued.append(ev.ev(call.args[0]))
            return None
        if name.endswith("__log_debug") or name.endswith("_send_rtcp_pli") or name.endswith("_send_rtcp_nack"):
            return None
        if name == "depayload":
            return ev.ev(call.args[1])
        if name in ("clock.current_datetime", "current_datetime"):
            return 0
        if name == "time.time":
            return 100.0
        if name.endswith("__timestamp_mapper.map"):
            return ev.ev(call.args[0])
        return NotImplemented
    oh = make_hook(prog, extra)
    from engine.peval import Evaluator
    ev0 = Evaluator(prog, h.module, None, {}, oh)
    for label, data, want in (("a frame with data", b"\x01\x02", 1), ("a frame without data (only empty payloads)", b"", 0)):
        del queued[:]
        me = NS(__cls__=h.cls, _enabled=True, next_frame=NS(data=data, timestamp=1234))
        for k, v in {"__remote_bitrate_estimator": None, "__rtcp_ssrc": 7, "__active_ssrc": {}, "__remote_streams": {}, "__rtx_ssrc": {}, "__decoder_thread": NS(), "__jitter_buffer": NS(),
                     "__decoder_queue": NS(), "__timestamp_mapper": NS(), "__kind": "audio", "__nack_generator": None,
                     "__codecs": {0: NS(name="PCMU", mimeType="audio/PCMU", clockRate=8000, parameters={})}}.items():
            setattr(me, k, v)
        pkt = oh.instantiate(prog.cls("rtp.RtpPacket"), [], dict(payload_type=0, sequence_number=5, timestamp=800, ssrc=9, payload=data), ev0)
        try:
            oh.run_method(h, me, [pkt, 100], {})
        except Raised as ex:
            rep.fail(mk_finding(prog, "C05", RULE, h, getattr(ex, "node", None), f"[{label}] _handle_rtp_packet raises {ex.name}", construct=f"decode feed raises {ex.name}"))
            continue
        except Unknown as ex:
            raise AnalysisError(f"{RULE} cannot evaluate _handle_rtp_packet [{label}]: {ex}")
        if len(queued) == want:
            rep.ok(RULE, f"_handle_rtp_packet: {label} -> {'queued for the decoder' if want else 'not queued'}")
        else:
            rep.fail(mk_finding(prog, "C05", RULE, h, h.node, f"[{label}] {len(queued)} item(s) queued for the decoder, expected {want}: av.Packet(b'') is FFmpeg's flush request, after it every "
                                "decode() fails and the decoder is dead for the rest of the session", construct="empty frame handed to the decoder" if not want else "frame not handed to the decoder"))


def _sack_premise(rep: Report, prog: Program, tier: str) -> None:
    from .common import import_rules
    import_rules(rep, prog, tier, "C05", "C05-SACK", "C02", ["C02-LEAK"],
                 "a nonsensical SACK (acknowledging TSNs never assigned) is ignored and the sender keeps working afterwards (rule C02-LEAK)", 3)
    import_rules(rep, prog, tier, "C05", "C05-STATE", "C02", ["C02-REINIT", "C02-SETUP", "C02-LOOP"],
                 "handshake chunks arriving in a state they do not belong to change nothing (rules C02-REINIT, C02-SETUP); under duplication the receiver reports each duplicate once and its "
                 "bookkeeping does not grow (rule C02-LOOP)", 20)


def sack_size_rule(rep: Report, prog: Program) -> None:
    """C05-SACKSIZE: the reply to a datagram must stay in proportion to it.  _send_sack() is evaluated on receiver states a peer can build up with small well-formed
    datagrams - thousands of isolated out-of-order TSNs (one gap ack block each), a long duplicate list - and the SACK it builds has to fit into one packet."""
    from collections import deque
    from types import SimpleNamespace as NS

    from engine.index import Unknown
    from engine.peval import Raised
    from engine.report import mk_finding

    from .sctpmodel import build
    RULE = "C05-SACKSIZE"
    rep.rule(RULE, "the SACK built by _send_sack() fits into one packet whatever set of out-of-order / duplicate TSNs the peer has produced", min_instances=3)
    T_ = "rtcsctptransport.RTCSctpTransport"
    ss = prog.func(T_ + "._send_sack")
    out = []

    def st_send(call, ev):
        out.append(ev.ev(call.args[0]))
        return None

    def st_sack(call, ev):
        return NS(kind="sack", cumulative_tsn=0, advertised_rwnd=0, duplicates=[], gaps=[], flags=0)
    hook, _chunk, _message = build(prog, {"self._send_chunk": st_send, "SackChunk": st_sack})
    mtu = prog.const(prog.module("rtcsctptransport"), "USERDATA_MAX_LENGTH")
    for label, mis, dups in (("5000 isolated out-of-order TSNs", {100 + 2 * k for k in range(1, 5001)}, []),
                             ("5000 isolated out-of-order TSNs across the TSN wrap", {((1 << 32) - 50 + 2 * k) % (1 << 32) for k in range(1, 5001)}, []),
                             ("4000 duplicate TSNs reported at once and 200 gaps", {100 + 2 * k for k in range(1, 201)}, [90] * 4000)):
        del out[:]
        cum = 100 if "wrap" not in label else (1 << 32) - 50
        me = NS(__cls__=prog.cls(T_), _last_received_tsn=cum, _sack_misordered=set(mis), _sack_duplicates=list(dups), _advertised_rwnd=1000, _sack_needed=True)
        try:
            hook.run_method(ss, me, [], {})
        except Raised as ex:
            rep.fail(mk_finding(prog, "C05", RULE, ss, getattr(ex, "node", None), f"[{label}] _send_sack raises {ex.name}", construct=f"sack raises {ex.name}"))
            continue
        except Unknown as ex:
            raise AnalysisError(f"{RULE} cannot evaluate _send_sack [{label}]: {ex}")
        if len(out) != 1:
            raise AnalysisError(f"{RULE}: {len(out)} chunks sent by _send_sack")
        size = 16 + 4 * len(out[0].gaps) + 4 * len(out[0].duplicates)
        if size <= mtu + 28:
            rep.ok(RULE, label, sample=f"{len(out[0].gaps)} gap blocks, {len(out[0].duplicates)} duplicates: {size} bytes")
        else:
            rep.fail(mk_finding(prog, "C05", RULE, ss, ss.node, f"[{label}] the SACK carries {len(out[0].gaps)} gap ack blocks and {len(out[0].duplicates)} duplicate TSNs = {size} bytes: a peer that sends small "
                                "datagrams with isolated out-of-order TSNs makes every reply grow; beyond the DTLS record size the send fails and the exception ends the receive loop",
                                construct="SACK size is not bounded"))
