"""C13-LIFE — data-channel lifecycle scenarios between two abstract SCTP transports.

The asts of RTCDataChannel (constructor, send, close, _setReadyState, _addBufferedAmount) and of the transport's data-channel glue
(_data_channel_open / _flush / _receive / _send / _close / _closed / _add_negotiated, _transmit_reconfig, _receive_reconfig_param) are
evaluated by the checker's interpreter.  The SCTP association itself is abstracted away: `_send()` hands the user message to the peer's
`_data_channel_receive()` and `_send_reconfig_param()` hands the parameter object to the peer's `_receive_reconfig_param()`, in FIFO order;
`asyncio.ensure_future(...)` calls are queued and run after the current operation.  Each scenario is a sequence of API operations with
pump points; the oracle is the property's wording (one datachannel event with equal settings, forward-only states with at most one open /
close event, both ends closed and the id reusable after close(), ids of the two sides never collide, bufferedAmount back to 0).
Agreement on these scenarios only; no fault schedules."""
from __future__ import annotations

import ast
from collections import deque
from types import SimpleNamespace
from typing import Any, Dict, List, Optional, Tuple

from engine.index import AnalysisError, Program, Unknown, unparse
from engine.peval import Evaluator, Raised
from engine.report import Report, mk_finding

from .objhook import ClassRef, make_hook

PROP = "C13"
RULE = "C13-LIFE"
T = "rtcsctptransport.RTCSctpTransport"
ORDER = ["connecting", "open", "closing", "closed"]


class Sim:
    def __init__(self, prog: Program) -> None:
        self.prog = prog
        self.tcls = prog.cls(T)
        self.dcls = prog.cls("rtcdatachannel.RTCDataChannel")
        self.pcls = prog.cls("rtcdatachannel.RTCDataChannelParameters")
        self.tasks: deque = deque()
        self.hook = make_hook(prog, self.extra)
        self.ev = Evaluator(prog, prog.modules["rtcsctptransport"], None, {}, self.hook)
        self.state_log: Dict[int, List[str]] = {}
        self.sent: List[Tuple[int, int, bytes, Dict[str, Any]]] = []

    # ------------------------------------------------------------ world
    def transport(self, name: str, is_server: bool) -> Any:
        st = SimpleNamespace(ESTABLISHED="ESTABLISHED", CLOSED="CLOSED", COOKIE_WAIT="COOKIE_WAIT", COOKIE_ECHOED="COOKIE_ECHOED",
                             SHUTDOWN_PENDING="SP", SHUTDOWN_SENT="SS", SHUTDOWN_RECEIVED="SR", SHUTDOWN_ACK_SENT="SAS")
        t = SimpleNamespace(__cls__=self.tcls, name=name, State=st, _association_state="ESTABLISHED", _data_channels={}, _data_channel_queue=deque(),
                            _data_channel_id=0 if is_server else 1, _reconfig_queue=[], _reconfig_request=None, _reconfig_request_seq=100 if is_server else 200,
                            _reconfig_response_seq=199 if is_server else 99, _outbound_stream_seq={}, _inbound_streams={}, _inbound_streams_count=65535,
                            _local_tsn=1000, _outbound_queue=deque(), events=[], peer=None, is_server=is_server)
        return t

    def pair(self) -> Tuple[Any, Any]:
        a, b = self.transport("A", False), self.transport("B", True)
        a.peer, b.peer = b, a
        return a, b

    # ------------------------------------------------------------ interpreter hook
    def extra(self, call: ast.Call, ev: Evaluator) -> Any:
        name = unparse(call.func)
        me = ev.env.get("self")
        if name == "super().__init__":
            me.events = []
            return None
        if name in ("self.__log_debug", "self.remove_all_listeners", "logger.debug"):
            return None
        if name == "self.emit":
            args = [ev.ev(a) for a in call.args]
            me.events.append(tuple(args))
            return None
        if isinstance(call.func, ast.Attribute) and call.func.attr == "emit":
            tgt = ev.ev(call.func.value)
            if isinstance(tgt, SimpleNamespace) and hasattr(tgt, "events"):
                tgt.events.append(tuple(ev.ev(a) for a in call.args))
                return None
        if name == "asyncio.ensure_future" and call.args and isinstance(call.args[0], ast.Call):
            inner = call.args[0]
            if isinstance(inner.func, ast.Attribute) and unparse(inner.func.value) == "self":
                self.tasks.append(("task", me, inner.func.attr))
                return None
        if name == "self._send" and getattr(me, "__cls__", None) is self.tcls:
            args = [ev.ev(a) for a in call.args]
            kwargs = {k.arg: ev.ev(k.value) for k in call.keywords}
            self.sent.append((args[0], args[1], args[2], kwargs))
            # what the real _send() does with the per-stream sequence counter (rule C01-FRAG decides _send itself)
            ordered = kwargs.get("ordered", True) if len(args) < 6 else args[5]
            seq = me._outbound_stream_seq.get(args[0], 0) if ordered else None
            if ordered:
                me._outbound_stream_seq[args[0]] = (seq + 1) % 65536
            self.tasks.append(("data", me.peer, args[0], args[1], args[2], seq))
            return None
        if name == "self._send_reconfig_param":
            self.tasks.append(("reconfig", me.peer, ev.ev(call.args[0])))
            return None
        if name == "time.time":
            return 1000.0
        if name == "isinstance" and len(call.args) == 2:
            v = ev.ev(call.args[0])
            t = call.args[1]
            names = [unparse(x) for x in (t.elts if isinstance(t, ast.Tuple) else [t])]
            if isinstance(v, SimpleNamespace) and hasattr(v, "__cls__"):
                mro = [c.name for c in self.prog.mro(v.__cls__)]
                return any(n.split(".")[-1] in mro for n in names)
            py = {"str": str, "bytes": bytes, "int": int, "dict": dict, "list": list}
            return any(n in py and isinstance(v, py[n]) and not (n == "int" and isinstance(v, bool)) for n in names)
        if name == "type" and len(call.args) == 1:
            return type(ev.ev(call.args[0])).__name__
        if isinstance(call.func, ast.Attribute) and call.func.attr in ("popleft", "append", "appendleft", "pop", "clear", "index"):
            try:
                base = ev.ev(call.func.value)
            except Unknown:
                base = None
            if isinstance(base, deque):
                try:
                    return getattr(base, call.func.attr)(*[ev.ev(a) for a in call.args])
                except (IndexError, ValueError) as ex:
                    raise Raised(type(ex).__name__, call)
        if name == "deque":
            return deque(*[ev.ev(a) for a in call.args])
        if name == "list" and len(call.args) == 1:
            return list(ev.ev(call.args[0]))
        return NotImplemented

    # ------------------------------------------------------------ driving
    def method(self, cls, name: str):
        m = self.prog.find_method(cls, name)
        if m is None:
            raise AnalysisError(f"{RULE}: method {cls.name}.{name} not found")
        return m

    def step(self) -> None:
        """Run exactly one queued job; whatever it produces stays queued behind the others."""
        job = self.tasks.popleft()
        self._run(job)

    def pump(self, limit: int = 400) -> None:
        n = 0
        while self.tasks:
            n += 1
            if n > limit:
                raise Raised("NonTermination (message ping-pong)", ast.Constant(value=None))
            self._run(self.tasks.popleft())

    def _run(self, job) -> None:
        if True:
            if job[0] == "task":
                self.hook.run_method(self.method(self.tcls, job[2]), job[1], [], {})
            elif job[0] == "data":
                peer, sid, seq = job[1], job[2], (job[5] if len(job) > 5 else None)
                if seq is None:
                    self.hook.run_method(self.method(self.tcls, "_data_channel_receive"), peer, [sid, job[3], job[4]], {})
                else:
                    # ordered delivery of the receiving stream: in sequence, starting at 0 for a stream without state (a reset removes the state)
                    st = peer._inbound_streams.get(sid)
                    if st is None:
                        st = peer._inbound_streams[sid] = SimpleNamespace(sequence_number=0, held={}, reassembly=[])
                    st.held[seq] = (job[3], job[4])
                    while st.sequence_number in st.held:
                        ppid, data = st.held.pop(st.sequence_number)
                        st.sequence_number = (st.sequence_number + 1) % 65536
                        self.hook.run_method(self.method(self.tcls, "_data_channel_receive"), peer, [sid, ppid, data], {})
            elif job[0] == "reconfig":
                self.hook.run_method(self.method(self.tcls, "_receive_reconfig_param"), job[1], [job[2]], {})

    def create(self, t: Any, label: str = "chat", protocol: str = "", ordered: bool = True, maxRetransmits: Optional[int] = None,
               maxPacketLifeTime: Optional[int] = None, negotiated: bool = False, id: Optional[int] = None) -> Any:
        params = self.hook.instantiate(self.pcls, [], dict(label=label, maxPacketLifeTime=maxPacketLifeTime, maxRetransmits=maxRetransmits, ordered=ordered,
                                                           protocol=protocol, negotiated=negotiated, id=id), self.ev)
        return self.hook.instantiate(self.dcls, [t, params], {}, self.ev)

    def call(self, obj: Any, name: str, *args: Any) -> Any:
        return self.hook.run_method(self.method(obj.__cls__, name), obj, list(args), {})

    def get(self, obj: Any, prop: str) -> Any:
        return self.hook.getattr(obj, prop)


def events_of(ch: Any, kind: str) -> int:
    return sum(1 for e in ch.events if e and e[0] == kind)


def run_life(rep: Report, prog: Program, tier: str) -> None:
    rep.rule(RULE, "lifecycle scenarios between two abstract transports", min_instances=20)
    anchor = prog.func(T + "._data_channel_receive")

    def scenario(label: str, fn) -> None:
        sim = Sim(prog)
        try:
            problems = fn(sim)
        except Raised as ex:
            problems = [f"raises {ex.name}"]
        except Unknown as ex:
            raise AnalysisError(f"{RULE} cannot evaluate [{label}]: {ex}")
        if problems:
            rep.fail(mk_finding(prog, PROP, RULE, anchor, anchor.node, f"[{label}] " + "; ".join(problems[:3]), construct=f"lifecycle: {label}"[:80]))
        else:
            rep.ok(RULE, label, sample="states, events, ids and buffered amounts as the property requires")

    def remote_of(sim: Sim, t: Any) -> List[Any]:
        return [e[1] for e in t.events if e[0] == "datachannel"]

    def check_open_pair(sim: Sim, ch: Any, peer_t: Any, settings: Dict[str, Any]) -> List[str]:
        p = []
        rem = remote_of(sim, peer_t)
        mine = [r for r in rem if sim.get(r, "id") == sim.get(ch, "id")]
        if len(mine) != 1:
            return [f"{len(mine)} datachannel event(s) on the peer for channel id {sim.get(ch, 'id')} (expected exactly one)"]
        r = mine[0]
        for k, v in settings.items():
            if sim.get(r, k) != v:
                p.append(f"peer sees {k}={sim.get(r, k)!r}, opened with {v!r}")
        for c, who in ((ch, "opener"), (r, "peer")):
            if sim.get(c, "readyState") != "open":
                p.append(f"{who} channel is {sim.get(c, 'readyState')}, expected open")
            if events_of(c, "open") != 1:
                p.append(f"{who} channel got {events_of(c, 'open')} open events")
        return p

    # 1. open with every combination of settings (incl. non-ASCII), message both ways, close from either side, id reuse
    import itertools
    combos = [dict(label="chat", protocol="", ordered=True, maxRetransmits=None, maxPacketLifeTime=None),
              dict(label="héllo wörld ✓", protocol="prötö", ordered=False, maxRetransmits=3, maxPacketLifeTime=None),
              dict(label="", protocol="p", ordered=True, maxRetransmits=None, maxPacketLifeTime=500),
              dict(label="x" * 300, protocol="", ordered=False, maxRetransmits=0, maxPacketLifeTime=None)]
    for settings, opener_is_server, closer in itertools.product(combos, (False, True), ("opener", "peer")):
        def fn(sim: Sim, settings=settings, opener_is_server=opener_is_server, closer=closer) -> List[str]:
            a, b = sim.pair()
            t, u = (b, a) if opener_is_server else (a, b)
            ch = sim.create(t, **settings)
            sim.pump()
            p = check_open_pair(sim, ch, u, settings)
            if p:
                return p
            r = [x for x in remote_of(sim, u)][0]
            sim.call(ch, "send", "ping")
            sim.call(ch, "send", b"")
            sim.call(r, "send", b"\x00\x01")
            if sim.get(ch, "bufferedAmount") <= 0:
                p.append("bufferedAmount is not positive right after send() while the message is still queued")
            sim.pump()
            if [e[1] for e in r.events if e[0] == "message"] != ["ping", b""] or [e[1] for e in ch.events if e[0] == "message"] != [b"\x00\x01"]:
                p.append(f"messages delivered: peer {[e[1] for e in r.events if e[0] == 'message']}, opener {[e[1] for e in ch.events if e[0] == 'message']}")
            if sim.get(ch, "bufferedAmount") != 0 or sim.get(r, "bufferedAmount") != 0:
                p.append(f"bufferedAmount after draining: {sim.get(ch, 'bufferedAmount')} / {sim.get(r, 'bufferedAmount')}")
            cid = sim.get(ch, "id")
            sim.call(ch if closer == "opener" else r, "close")
            sim.pump()
            for c, who in ((ch, "opener"), (r, "peer")):
                if sim.get(c, "readyState") != "closed":
                    p.append(f"after close() the {who} channel is {sim.get(c, 'readyState')}")
                if events_of(c, "close") != 1:
                    p.append(f"{who} channel got {events_of(c, 'close')} close events")
            if cid in t._data_channels or cid in u._data_channels:
                p.append(f"id {cid} is still registered after both ends closed")
            ch2 = sim.create(t, label="again")
            sim.pump()
            if sim.get(ch2, "id") != cid:
                p.append(f"the freed id {cid} is not reused (new channel got {sim.get(ch2, 'id')})")
            if sim.get(ch2, "readyState") != "open":
                p.append(f"a channel opened after the close is {sim.get(ch2, 'readyState')}")
            return p
        scenario(f"open/close: label {settings['label'][:12]!r}, ordered={settings['ordered']}, retransmits={settings['maxRetransmits']}, lifetime={settings['maxPacketLifeTime']}, "
                 f"opened by the {'server' if opener_is_server else 'client'}, closed by the {closer}", fn)

    # 2. both sides open channels at the same time: ids never collide
    def fn_collide(sim: Sim) -> List[str]:
        a, b = sim.pair()
        chans_a = [sim.create(a, label=f"a{i}") for i in range(3)]
        chans_b = [sim.create(b, label=f"b{i}") for i in range(3)]
        sim.pump()
        ids_a = [sim.get(c, "id") for c in chans_a]
        ids_b = [sim.get(c, "id") for c in chans_b]
        p = []
        if len(set(ids_a + ids_b)) != 6:
            p.append(f"ids collide: client {ids_a}, server {ids_b}")
        if len(remote_of(sim, b)) != 3 or len(remote_of(sim, a)) != 3:
            p.append(f"datachannel events: {len(remote_of(sim, b))} on the server, {len(remote_of(sim, a))} on the client (3 each expected)")
        for c in chans_a + chans_b:
            if sim.get(c, "readyState") != "open":
                p.append(f"channel {sim.get(c, 'label')} is {sim.get(c, 'readyState')}")
        return p
    scenario("simultaneous opens from both sides", fn_collide)

    # 3. negotiated channels pair up by id without OPEN messages
    def fn_neg(sim: Sim) -> List[str]:
        a, b = sim.pair()
        ca = sim.create(a, label="n", negotiated=True, id=7)
        cb = sim.create(b, label="n", negotiated=True, id=7)
        sim.pump()
        p = []
        if remote_of(sim, a) or remote_of(sim, b):
            p.append("a negotiated channel produced a datachannel event")
        sim.call(ca, "send", "hi")
        sim.pump()
        if [e[1] for e in cb.events if e[0] == "message"] != ["hi"]:
            p.append("message on a negotiated channel did not reach the channel with the same id")
        return p
    scenario("negotiated channels pair up by id", fn_neg)

    # 4. close() before the ACK arrived / right after creation
    def fn_early_close(sim: Sim) -> List[str]:
        a, b = sim.pair()
        ch = sim.create(a, label="early")
        sim.call(ch, "close")
        sim.pump()
        p = []
        if sim.get(ch, "readyState") != "closed":
            p.append(f"channel closed right after creation ends up {sim.get(ch, 'readyState')}")
        if events_of(ch, "open") > 1 or events_of(ch, "close") != 1:
            p.append(f"{events_of(ch, 'open')} open / {events_of(ch, 'close')} close events")
        for r in remote_of(sim, b):
            if sim.get(r, "readyState") not in ("closed",):
                p.append(f"peer channel is {sim.get(r, 'readyState')}")
        return p
    scenario("close() right after creation", fn_early_close)

    def fn_close_before_ack(sim: Sim) -> List[str]:
        a, b = sim.pair()
        ch = sim.create(a, label="race")
        # let the OPEN go out and be processed, but close before the ACK is handled
        guard = 0
        while sim.tasks and guard < 50 and not (sim.tasks[0][0] == "data" and sim.tasks[0][1] is a):
            guard += 1
            sim.step()
        sim.call(ch, "close")
        sim.pump()
        p = []
        states = sim.get(ch, "readyState")
        if states != "closed":
            p.append(f"channel closed while the ACK was in flight ends up {states}")
        if events_of(ch, "close") != 1:
            p.append(f"{events_of(ch, 'close')} close events")
        for r in remote_of(sim, b):
            if sim.get(r, "readyState") != "closed":
                p.append(f"peer channel is {sim.get(r, 'readyState')}")
        return p
    scenario("close() while the ACK is in flight", fn_close_before_ack)

    # 5. both ends close at the same time; two overlapping closes
    def fn_both_close(sim: Sim) -> List[str]:
        a, b = sim.pair()
        ch = sim.create(a, label="x")
        sim.pump()
        r = remote_of(sim, b)[0]
        sim.call(ch, "close")
        sim.call(r, "close")
        sim.pump()
        p = []
        for c, who in ((ch, "opener"), (r, "peer")):
            if sim.get(c, "readyState") != "closed" or events_of(c, "close") != 1:
                p.append(f"{who}: state {sim.get(c, 'readyState')}, {events_of(c, 'close')} close events")
        return p
    scenario("both ends close at the same time", fn_both_close)

    def fn_overlap(sim: Sim) -> List[str]:
        a, b = sim.pair()
        x = sim.create(a, label="x")
        y = sim.create(a, label="y")
        sim.pump()
        sim.call(x, "close")
        # run until the reset request has left but its response has not been handled yet
        guard = 0
        while sim.tasks and guard < 20 and not (sim.tasks[0][0] == "reconfig" and sim.tasks[0][1] is a):
            guard += 1
            sim.step()
        sim.call(y, "close")
        sim.pump()
        p = []
        for c in (x, y):
            if sim.get(c, "readyState") != "closed":
                p.append(f"channel {sim.get(c, 'label')} is {sim.get(c, 'readyState')} after overlapping close() calls")
        for r in remote_of(sim, b):
            if sim.get(r, "readyState") != "closed":
                p.append(f"peer channel {sim.get(r, 'label')} is {sim.get(r, 'readyState')}")
        return p
    scenario("two overlapping close() calls on different channels", fn_overlap)

    # 5b. the peer closes the channel from its datachannel handler and the ACK is lost / late: the reset reaches the opener while it is
    #     still connecting; both ends must end up closed, and a late ACK must not reopen the channel
    def fn_reset_while_connecting(sim: Sim, late_ack: bool = False) -> List[str]:
        a, b = sim.pair()
        ch = sim.create(a, label="early-reset")
        # deliver the OPEN to B only
        guard = 0
        while sim.tasks and guard < 30 and not remote_of(sim, b):
            guard += 1
            sim.step()
        if not remote_of(sim, b):
            return ["the OPEN never reached the peer"]
        r = remote_of(sim, b)[0]
        # hold back the ACK that is on its way to A
        held = [j for j in sim.tasks if j[0] == "data" and j[1] is a]
        sim.tasks = deque(j for j in sim.tasks if not (j[0] == "data" and j[1] is a))
        sim.call(r, "close")
        sim.pump()
        p = []
        if late_ack:
            sim.tasks.extend(held)
            sim.pump()
        if sim.get(ch, "readyState") != "closed":
            p.append(f"opener's channel is {sim.get(ch, 'readyState')} after the peer closed it" + (" and the late ACK arrived" if late_ack else " (ACK lost)"))
        if sim.get(r, "readyState") != "closed":
            p.append(f"peer's channel is {sim.get(r, 'readyState')}")
        if events_of(ch, "close") != 1:
            p.append(f"opener got {events_of(ch, 'close')} close events")
        return p
    scenario("peer closes before the ACK arrives (ACK lost)", fn_reset_while_connecting)
    scenario("peer closes before the ACK arrives (ACK arrives late)", lambda sim: fn_reset_while_connecting(sim, True))

    # 6. send() is refused unless open; state never moves backwards
    def fn_send_guard(sim: Sim) -> List[str]:
        a, b = sim.pair()
        ch = sim.create(a, label="g")
        p = []
        try:
            sim.call(ch, "send", "too early")
            p.append("send() on a connecting channel did not raise")
        except Raised as ex:
            if "InvalidStateError" not in ex.name:
                p.append(f"send() on a connecting channel raised {ex.name}")
        sim.pump()
        sim.call(ch, "close")
        sim.pump()
        try:
            sim.call(ch, "send", "too late")
            p.append("send() on a closed channel did not raise")
        except Raised as ex:
            if "InvalidStateError" not in ex.name:
                p.append(f"send() on a closed channel raised {ex.name}")
        sim.call(ch, "_setReadyState", "closed")
        if events_of(ch, "close") != 1:
            p.append(f"{events_of(ch, 'close')} close events after a repeated transition to closed")
        return p
    scenario("send() only while open; repeated transitions are silent", fn_send_guard)

    # 8b. send() and close() in the same tick, then the freed id is used again
    def fn_send_then_close(sim: Sim, congested: bool) -> List[str]:
        a, b = sim.pair()
        ch = sim.create(a, label="first")
        sim.pump()
        cid = sim.get(ch, "id")
        sim.call(ch, "send", "one")
        if not congested:
            sim.pump()
        sim.call(ch, "send", "last words")
        sim.call(ch, "close")
        sim.pump()
        p = []
        r = [x for x in remote_of(sim, b) if sim.get(x, "id") == cid]
        if sim.get(ch, "readyState") != "closed" or not r or sim.get(r[0], "readyState") != "closed":
            p.append(f"after send() + close() the channel is {sim.get(ch, 'readyState')} / the peer's is {sim.get(r[0], 'readyState') if r else 'missing'}")
        ch2 = sim.create(a, label="second")
        sim.pump()
        if sim.get(ch2, "id") != cid:
            p.append(f"the freed id {cid} is not reused (got {sim.get(ch2, 'id')})")
        if sim.get(ch2, "readyState") != "open":
            p.append(f"the channel that reuses id {cid} is {sim.get(ch2, 'readyState')}: its DATA_CHANNEL_OPEN does not reach the peer in sequence (stream sequence numbers of the old and the new channel disagree)")
        seen = [sim.get(x, "label") for x in remote_of(sim, b) if sim.get(x, "id") == cid]
        if seen != ["first", "second"]:
            p.append(f"datachannel events on the peer for id {cid}: {seen}")
        else:
            sim.call(ch2, "send", "hello again")
            sim.pump()
            r2 = [x for x in remote_of(sim, b) if sim.get(x, "label") == "second"][0]
            if [e[1] for e in r2.events if e[0] == "message"] != ["hello again"]:
                p.append("a message on the channel that reuses the id is not delivered")
        return p
    scenario("send() and close() in the same tick, then the id is reused", lambda sim: fn_send_then_close(sim, False))
    scenario("two send() and close() in the same tick, then the id is reused", lambda sim: fn_send_then_close(sim, True))

    # 9. channels created and closed before the association is up; the association is "established" twice (repeated COOKIE-ECHO)
    def fn_before_up(sim: Sim, explicit_id: Optional[int]) -> List[str]:
        a, b = sim.pair()
        a._association_state = "COOKIE_WAIT"
        b._association_state = "CLOSED"
        early = sim.create(a, label="early", id=explicit_id)
        keep = sim.create(a, label="keep")
        sim.call(early, "close")
        p = []
        if sim.get(early, "readyState") != "closed" or events_of(early, "close") != 1:
            p.append(f"channel closed before the association is up is {sim.get(early, 'readyState')} with {events_of(early, 'close')} close event(s)")
        if explicit_id is not None and explicit_id in a._data_channels:
            p.append(f"id {explicit_id} of the closed channel is still registered")
        for t in (a, b):
            sim.call(t, "_set_state", "ESTABLISHED")
        sim.pump()
        if sim.get(keep, "readyState") != "open":
            p.append(f"the channel that was kept is {sim.get(keep, 'readyState')} after the association came up")
        if explicit_id is not None:
            try:
                again = sim.create(a, label="again", id=explicit_id)
            except Raised as ex:
                return p + [f"re-creating a channel with the freed id {explicit_id} raises {ex.name}"]
            sim.pump()
            if sim.get(again, "readyState") != "open":
                p.append(f"a channel re-created with id {explicit_id} is {sim.get(again, 'readyState')}")
            seen = [sim.get(r, "label") for r in remote_of(sim, b) if sim.get(r, "id") == explicit_id]
            if seen != ["again"]:
                p.append(f"datachannel events on the peer for id {explicit_id}: {seen} (expected exactly the re-created one)")
        if any(sim.get(r, "label") == "early" for r in remote_of(sim, b)):
            p.append("the peer was told about the channel that was closed before the association came up")
        return p
    scenario("in-band channel with an explicit id closed before the association is up, id reused", lambda sim: fn_before_up(sim, 4))
    scenario("in-band channel without id closed before the association is up", lambda sim: fn_before_up(sim, None))

    def fn_established_twice(sim: Sim) -> List[str]:
        a, b = sim.pair()
        b._association_state = "CLOSED"
        n1 = sim.create(b, label="n1", negotiated=True, id=10)
        n2 = sim.create(b, label="n2", negotiated=True, id=12)
        sim.call(b, "_set_state", "ESTABLISHED")
        sim.pump()
        p = []
        if sim.get(n1, "readyState") != "open" or sim.get(n2, "readyState") != "open":
            p.append(f"negotiated channels are {sim.get(n1, 'readyState')} / {sim.get(n2, 'readyState')} once the association is up")
        sim.call(n1, "close")                      # -> closing, waits for the reset handshake
        before = sim.get(n1, "readyState")
        sim.call(b, "_set_state", "ESTABLISHED")   # a repeated COOKIE-ECHO re-enters ESTABLISHED
        if ORDER.index(sim.get(n1, "readyState")) < ORDER.index(before):
            p.append(f"re-entering ESTABLISHED moved a {before} channel back to {sim.get(n1, 'readyState')}")
        sim.pump()
        for c in (n1, n2):
            if events_of(c, "open") != 1:
                p.append(f"channel {sim.get(c, 'label')} got {events_of(c, 'open')} open events")
        if sim.get(n2, "readyState") != "open":
            p.append(f"the untouched channel is {sim.get(n2, 'readyState')}")
        return p
    scenario("association enters ESTABLISHED twice while a negotiated channel is closing", fn_established_twice)


def run_policy(rep: Report, prog: Program, PROP_: str, RULE_: str) -> None:
    """Each user message is handed to _send() with the reliability parameters of its own channel, whatever was flushed just before it."""
    rep.rule(RULE_, "messages flushed together keep the reliability parameters of their own channels", min_instances=4)
    flush = prog.func(T + "._data_channel_flush")
    import itertools
    kinds = {"reliable": dict(), "timed": dict(maxPacketLifeTime=300), "limited": dict(maxRetransmits=2), "unordered": dict(ordered=False)}
    for first, second in itertools.permutations(kinds, 2):
        sim = Sim(prog)
        try:
            a, b = sim.pair()
            c1 = sim.create(a, label=first, **kinds[first])
            c2 = sim.create(a, label=second, **kinds[second])
            sim.pump()
            control = list(sim.sent)
            sim.sent.clear()
            sim.call(c1, "send", "one")
            sim.call(c2, "send", "two")
            sim.pump()
        except Raised as ex:
            rep.fail(mk_finding(prog, PROP_, RULE_, flush, getattr(ex, "node", None), f"[{first} then {second}] raises {ex.name}", construct=f"policy raises {ex.name}"))
            continue
        except Unknown as ex:
            raise AnalysisError(f"{RULE_} cannot evaluate [{first} then {second}]: {ex}")
        problems = []
        # the channel announcement and its acknowledgement are control messages: always reliable and ordered, whatever the channel is
        if len(control) < 4:
            problems.append(f"only {len(control)} control messages (2 x DATA_CHANNEL_OPEN, 2 x ACK expected) were handed to _send() while the channels opened")
        for sid, _pp, data, kw in control:
            if kw.get("expiry") is not None or kw.get("max_retransmits") is not None or kw.get("ordered", True) is not True:
                problems.append(f"a DATA_CHANNEL_OPEN / ACK on stream {sid} is sent with expiry={kw.get('expiry')!r}, max_retransmits={kw.get('max_retransmits')!r}, ordered={kw.get('ordered', True)!r}: "
                                "if that one datagram is lost the announcement is abandoned instead of retransmitted and the channel never opens")
                break
        user = [x for x in sim.sent if x[2] in (b"one", b"two")]
        if len(user) != 2:
            problems.append(f"{len(user)} user messages were handed to _send()")
        for (sid, _pp, data, kw), ch, kind in zip(user, (c1, c2), (first, second)):
            want_exp = kind == "timed"
            want_rtx = 2 if kind == "limited" else None
            want_ord = kind != "unordered"
            if sid != sim.get(ch, "id"):
                problems.append(f"message {data!r} sent on stream {sid}, its channel has id {sim.get(ch, 'id')}")
            if (kw.get("expiry") is not None) != want_exp:
                problems.append(f"message of the {kind} channel is sent with expiry={kw.get('expiry')!r}")
            if kw.get("max_retransmits") != want_rtx:
                problems.append(f"message of the {kind} channel is sent with max_retransmits={kw.get('max_retransmits')!r}")
            if kw.get("ordered", True) != want_ord:
                problems.append(f"message of the {kind} channel is sent with ordered={kw.get('ordered')!r}")
        label = f"{first} channel's message followed by {second} channel's message in one flush"
        if problems:
            rep.fail(mk_finding(prog, PROP_, RULE_, flush, flush.node, f"[{label}] " + "; ".join(problems[:2]) + ": a message inherits reliability limits that are not its channel's and can be "
                                f"abandoned (or kept) wrongly", construct=f"policy: {first} then {second}"))
        else:
            rep.ok(RULE_, label, sample="stream id, expiry, max_retransmits and ordered are those of each message's own channel")


def run_open_first(rep: Report, prog: Program, PROP_: str, RULE_: str) -> None:
    """An in-band channel may carry user data only after the peer has processed its DATA_CHANNEL_OPEN (that is what `open` on DATA_CHANNEL_ACK guarantees): a message that
    overtakes the announcement reaches a stream the peer knows nothing about, is acknowledged at the SCTP level and dropped - lost for good on a reliable channel."""
    rep.rule(RULE_, "whatever is sent once a channel reports `open` is delivered, also when later datagrams overtake the channel announcement", min_instances=3)
    anchor = prog.func(T + "._set_state")
    for ordered, explicit_id in ((False, 1), (True, 1), (False, None)):
        label = f"{'ordered' if ordered else 'unordered'} in-band channel{' with an explicit id' if explicit_id is not None else ''} created before the association is up; data overtakes the announcement"
        sim = Sim(prog)
        try:
            a, b = sim.pair()
            a._association_state = "COOKIE_WAIT"
            b._association_state = "CLOSED"
            ch = sim.create(a, label="early", ordered=ordered, id=explicit_id)
            for t in (a, b):
                sim.call(t, "_set_state", "ESTABLISHED")
            sent = []
            # run until the channel reports open (or nothing is left to do), then the application sends at once
            for _ in range(50):
                if sim.get(ch, "readyState") == "open" or not sim.tasks:
                    break
                sim.step()
            opened_early = sim.get(ch, "readyState") == "open"
            if opened_early:
                for m in ("m1", "m2", "m3"):
                    sim.call(ch, "send", m)
                    sent.append(m)
                # let the local flush tasks run (they turn the queued announcement and messages into datagrams), keep the datagrams in transit
                for _ in range(50):
                    local = [j for j in sim.tasks if j[0] == "task"]
                    if not local:
                        break
                    sim.tasks.remove(local[0])
                    sim._run(local[0])
                # the network reorders: everything queued towards the peer that is not the announcement goes first
                jobs = list(sim.tasks)
                sim.tasks.clear()
                late = [j for j in jobs if j[0] == "data" and j[3] == 50 and j[1] is b]
                for j in [j for j in jobs if j not in late] + late:
                    sim.tasks.append(j)
            sim.pump()
            if not sent and sim.get(ch, "readyState") == "open":
                for m in ("m1", "m2", "m3"):
                    sim.call(ch, "send", m)
                    sent.append(m)
                sim.pump()
        except Raised as ex:
            rep.fail(mk_finding(prog, PROP_, RULE_, anchor, getattr(ex, "node", None), f"[{label}] raises {ex.name}", construct=f"open-first raises {ex.name}"))
            continue
        except Unknown as ex:
            raise AnalysisError(f"{RULE_} cannot evaluate [{label}]: {ex}")
        remote = [e[1] for e in b.events if e[0] == "datachannel"]
        got = [e[1] for r in remote for e in r.events if e[0] == "message"]
        if sorted(got) == sorted(sent) and (not ordered or got == sent) and sent:
            rep.ok(RULE_, label, sample=f"{len(sent)} messages sent after `open`, all delivered")
        else:
            rep.fail(mk_finding(prog, PROP_, RULE_, anchor, anchor.node, f"[{label}] the channel reported `open` and the application sent {sent}; the peer's channel received {got}: the channel opens before "
                                "the peer has acknowledged its announcement, messages that overtake DATA_CHANNEL_OPEN are acknowledged and dropped", construct="channel open before its announcement was acknowledged"))
