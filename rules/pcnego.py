"""Offer/answer exchanges and call sequences driven through the negotiation simulator (rules C03-SIM and C14-SIM).

rules/pcsim.py interprets the real peer-connection code (nothing of aiortc is imported or run); this module enumerates configurations / call sequences, drives the
simulator and compares the outcome with an oracle written here from the property text:

C03-SIM   for every enumerated configuration pair (what the offerer added, what the answerer owned beforehand, bundle policies, codec preferences) the exchange
          createOffer / setLocal / setRemote / createAnswer / setLocal / setRemote raises nothing, both ends are `stable`, current directions are complementary and equal
          to the intersection of what each side wanted, the answer text mirrors the offer (sections, kinds, mids, BUNDLE group) and selects only offered codecs /
          feedback / header extensions with the offerer's numbers, RTX only next to its base, `a=setup` is definite, the DTLS stand-ins got opposite definite roles and
          everything in the bundle sits on one transport.  Follow-up negotiations (add media, swap the offering side) are checked the same way and must keep mids and
          section order.
C14-SIM   for every call sequence up to the length bound over {createOffer, createAnswer, setLocal(offer|answer|implicit), setRemote(offer|answer|mismatched|
          defective...), close} on one connection (the peer's descriptions are manufactured by helper connections), `signalingState` follows the JSEP table written
          here; an illegal call raises the exception the property names and leaves state and the four description slots untouched.

Decides the enumerated configurations and sequences only.
"""
from __future__ import annotations

import itertools
import re
from collections import deque
from types import SimpleNamespace
from typing import Any, Dict, List, Optional, Tuple

from engine.index import AnalysisError, Program, Unknown
from engine.par import pmap
from engine.peval import Raised
from engine.report import Report, mk_finding

from .pcsim import PC, PCSim, Stub

DIRS = ("sendrecv", "sendonly", "recvonly", "inactive")
SEND = {"sendrecv": (True, True), "sendonly": (True, False), "recvonly": (False, True), "inactive": (False, False)}
NAME = {v: k for k, v in SEND.items()}


# ---------------------------------------------------------------------------------------------------------------- SDP text reading (checker's own, independent of sdp.py)
def read_sdp(text: str) -> SimpleNamespace:
    lines = [l for l in text.replace("\r\n", "\n").split("\n") if l]
    sess = SimpleNamespace(bundle=None, media=[], attrs=[])
    cur = None
    for l in lines:
        if l.startswith("m="):
            kind, port, proto, *fmts = l[2:].split(" ")
            cur = SimpleNamespace(kind=kind, port=int(port), proto=proto, fmts=fmts, mid=None, direction=None, rtpmap={}, fmtp={}, fb={}, ext={}, setup=None, ufrag=None, pwd=None,
                                  mux=False, fingerprint=False, ssrc=[], msid=None, sctp_port=None)
            sess.media.append(cur)
            continue
        if not l.startswith("a="):
            continue
        a = l[2:]
        k, _, v = a.partition(":")
        if cur is None:
            if k == "group" and v.startswith("BUNDLE"):
                sess.bundle = v.split(" ")[1:]
            sess.attrs.append(a)
            continue
        if a in DIRS:
            cur.direction = a
        elif k == "mid":
            cur.mid = v
        elif k == "rtpmap":
            pt, _, rest = v.partition(" ")
            cur.rtpmap[pt] = rest
        elif k == "fmtp":
            pt, _, rest = v.partition(" ")
            cur.fmtp[pt] = rest
        elif k == "rtcp-fb":
            pt, _, rest = v.partition(" ")
            cur.fb.setdefault(pt, []).append(rest)
        elif k == "extmap":
            i, _, uri = v.partition(" ")
            cur.ext[i] = uri
        elif k == "setup":
            cur.setup = v
        elif k == "ice-ufrag":
            cur.ufrag = v
        elif k == "ice-pwd":
            cur.pwd = v
        elif a == "rtcp-mux":
            cur.mux = True
        elif k == "fingerprint":
            cur.fingerprint = True
        elif k == "sctp-port":
            cur.sctp_port = v
    return sess


# ---------------------------------------------------------------------------------------------------------------- driving helpers
class Side:
    def __init__(self, sim: PCSim, policy: str) -> None:
        self.sim = sim
        self.pc = sim.new_pc(policy)
        self.wanted: Dict[int, str] = {}       # id(transceiver) -> direction the application asked for

    def transceivers(self) -> list:
        return list(getattr(self.pc, "__transceivers"))

    def add(self, how: str, kind: str, direction: str = "sendrecv") -> Any:
        if how == "track":
            self.sim.counter += 1
            track = Stub("localtrack", name=f"local-{self.sim.counter}", kind=kind, id=f"trk{self.sim.counter}", readyState="live")
            before = self.transceivers()
            self.sim.call(self.pc, "addTrack", track)
            new = [t for t in self.transceivers() if not any(t is b for b in before)]
            t = new[0] if new else None
            if t is None:       # re-used an existing transceiver
                for x in self.transceivers():
                    if getattr(self.sim.get(x, "sender"), "track", None) is track:
                        t = x
            if t is not None:
                self.wanted[id(t)] = self.sim.get(t, "direction")
            return t
        t = self.sim.call(self.pc, "addTransceiver", kind, direction=direction)
        self.wanted[id(t)] = direction
        return t

    def state(self) -> str:
        return self.sim.get(self.pc, "signalingState")


def exchange(sim: PCSim, a: Side, b: Side, edit: Any = None, first: Any = None) -> Tuple[str, str]:
    """a offers, b answers; returns the two SDP texts.  `edit` rewrites the offer text on its way to b (an offerer with other codec parameters);
    `first` is called after the first offer was applied locally and returns once a has made a second offer (re-offer while the first is pending)."""
    offer = sim.call(a.pc, "createOffer")
    sim.call(a.pc, "setLocalDescription", offer)
    if first is not None:
        first(offer.sdp)
        offer = sim.call(a.pc, "createOffer")
        sim.call(a.pc, "setLocalDescription", offer)
    text = edit(offer.sdp) if edit else offer.sdp
    sim.call(b.pc, "setRemoteDescription", sim.desc("offer", text))
    answer = sim.call(b.pc, "createAnswer")
    sim.call(b.pc, "setLocalDescription", answer)
    sim.call(a.pc, "setRemoteDescription", sim.desc("answer", answer.sdp))
    return text, answer.sdp


def check_exchange(sim: PCSim, a: Side, b: Side, offer_text: str, answer_text: str, prior: Optional[Tuple[list, list]] = None) -> List[str]:
    """oracle of C03 for one completed exchange (a offered)"""
    bad: List[str] = []
    if a.state() != "stable" or b.state() != "stable":
        bad.append(f"signaling states after the exchange are {a.state()} / {b.state()}, not stable / stable")
    o, n = read_sdp(offer_text), read_sdp(answer_text)
    if [(m.kind, m.mid) for m in o.media] != [(m.kind, m.mid) for m in n.media]:
        bad.append(f"the answer's sections {[(m.kind, m.mid) for m in n.media]} do not mirror the offer's {[(m.kind, m.mid) for m in o.media]}")
        return bad
    mids = [m.mid for m in o.media]
    if len(set(mids)) != len(mids) or any(m is None for m in mids):
        bad.append(f"the offer's mids {mids} are not distinct")
    if prior is not None:
        po, _ = prior
        if mids[:len(po)] != po:
            bad.append(f"a follow-up offer changed the established sections: mids {po} became {mids[:len(po)]}")
    live = [m.mid for m in n.media if m.port != 0]
    if o.bundle is not None:
        if n.bundle is None and len(live) > 0:
            bad.append("the offer has a BUNDLE group, the answer has none")
        elif n.bundle is not None:
            if not set(n.bundle) <= set(o.bundle):
                bad.append(f"the answer's BUNDLE group {n.bundle} is not part of the offer's {o.bundle}")
            if [x for x in o.bundle if x in live] != [x for x in n.bundle]:
                bad.append(f"the answer's BUNDLE group {n.bundle} differs from the offered group restricted to the accepted sections {[x for x in o.bundle if x in live]}")
    elif n.bundle is not None:
        bad.append(f"the answer has a BUNDLE group {n.bundle} that was not offered")
    for mo, mn in zip(o.media, n.media):
        where = f"section {mo.kind}/{mo.mid}"
        if mo.kind == "application":
            if mn.port != 0 and mn.sctp_port is None and "webrtc-datachannel" not in mn.fmts and not mn.fmts:
                bad.append(f"{where}: the answer has no SCTP port")
        else:
            if mn.port == 0:
                bad.append(f"{where}: rejected although both sides share codecs")
                continue
            if not mn.fmts:
                bad.append(f"{where}: the answer selects no codec")
            for pt in mn.fmts:
                if pt not in mo.fmts:
                    bad.append(f"{where}: the answer uses payload type {pt}, which was not offered")
                    continue
                name_o = mo.rtpmap.get(pt, STATIC.get(pt, "?")).lower()
                name_n = mn.rtpmap.get(pt, STATIC.get(pt, "?")).lower()
                if name_o != name_n:
                    bad.append(f"{where}: payload type {pt} is {name_o} in the offer and {name_n} in the answer")
                if name_n.startswith("rtx/"):
                    apt = dict(x.split("=") for x in mn.fmtp.get(pt, "").split(";") if "=" in x).get("apt")
                    if apt not in mn.fmts:
                        bad.append(f"{where}: RTX payload type {pt} is selected without its base codec (apt={apt})")
                    elif dict(x.split("=") for x in mo.fmtp.get(pt, "").split(";") if "=" in x).get("apt") != apt:
                        bad.append(f"{where}: RTX payload type {pt} repairs {apt} in the answer but not in the offer")
                for fb in mn.fb.get(pt, []):
                    if fb not in mo.fb.get(pt, []):
                        bad.append(f"{where}: RTCP feedback '{fb}' for payload type {pt} was not offered")
            if not any(not mn.rtpmap.get(pt, STATIC.get(pt, "?")).lower().startswith("rtx/") for pt in mn.fmts):
                bad.append(f"{where}: the answer selects no real codec")
            for i, uri in mn.ext.items():
                if mo.ext.get(i) != uri:
                    bad.append(f"{where}: header extension {uri} has id {i} in the answer; the offer has {mo.ext.get(i)!r} under that id")
            want = NAME[(SEND[mn.direction][0], SEND[mn.direction][1])] if mn.direction else None
            if mn.direction is None or mo.direction is None:
                bad.append(f"{where}: a direction attribute is missing")
            else:
                so, ro = SEND[mo.direction]
                sn, rn = SEND[mn.direction]
                if (sn and not ro) or (rn and not so):
                    bad.append(f"{where}: offered {mo.direction}, answered {mn.direction}")
        if mn.port != 0:
            if mn.setup not in ("active", "passive"):
                bad.append(f"{where}: the answer's a=setup is {mn.setup!r}, not a definite role")
            if mo.setup != "actpass" and mo.setup not in ("active", "passive"):
                bad.append(f"{where}: the offer's a=setup is {mo.setup!r}")
            if not (mn.ufrag and mn.pwd) and not (n.bundle and mn.mid in n.bundle[1:]):
                bad.append(f"{where}: the answer has no ICE credentials")
    # object state on both sides
    ta, tb = a.transceivers(), b.transceivers()
    by_mid_a = {sim.get(t, "mid"): t for t in ta}
    by_mid_b = {sim.get(t, "mid"): t for t in tb}
    for mo in o.media:
        if mo.kind == "application":
            continue
        x, y = by_mid_a.get(mo.mid), by_mid_b.get(mo.mid)
        if x is None or y is None:
            bad.append(f"mid {mo.mid}: {'offerer' if x is None else 'answerer'} has no transceiver with that mid after the exchange")
            continue
        cx, cy = sim.get(x, "currentDirection"), sim.get(y, "currentDirection")
        if cx not in SEND or cy not in SEND or SEND[cx] != (SEND[cy][1], SEND[cy][0]):
            bad.append(f"mid {mo.mid}: current directions {cx} / {cy} are not complementary")
            continue
        wx = a.wanted.get(id(x), "recvonly")
        wy = b.wanted.get(id(y), "recvonly")
        exp = NAME[(SEND[wx][0] and SEND[wy][1], SEND[wx][1] and SEND[wy][0])]
        if cx != exp:
            bad.append(f"mid {mo.mid}: the offerer wanted {wx}, the answerer {wy}; the offerer's current direction is {cx}, expected {exp}")
        if sim.get(x, "kind") != mo.kind or sim.get(y, "kind") != mo.kind:
            bad.append(f"mid {mo.mid}: a {mo.kind} section is bound to a {sim.get(x, 'kind')} / {sim.get(y, 'kind')} transceiver")
    stray = [sim.get(t, "kind") for t in tb if sim.get(t, "mid") is None and not getattr(t, "_RTCRtpTransceiver__stopped", getattr(t, "__stopped", False))]
    # (an answerer-side transceiver that the offer has no section for simply stays un-negotiated: allowed)
    # transports and roles
    for side, who in ((a, "offerer"), (b, "answerer")):
        dtls = []
        for t in side.transceivers():
            if sim.get(t, "mid") is None:
                continue
            tr = getattr(sim.get(t, "sender"), "transport", None)
            rr = getattr(sim.get(t, "receiver"), "transport", None)
            if tr is not rr:
                bad.append(f"{who}: sender and receiver of mid {sim.get(t, 'mid')} sit on different transports")
            dtls.append((sim.get(t, "mid"), tr))
        sctp = getattr(side.pc, "__sctp", None)
        if sctp is not None and getattr(sctp, "mid", None) is not None:
            dtls.append((sctp.mid, sctp.transport))
        group = n.bundle or []
        inb = [tr for mid, tr in dtls if mid in group]
        if len({id(x) for x in inb}) > 1:
            bad.append(f"{who}: the members of the BUNDLE group {group} sit on {len({id(x) for x in inb})} different transports")
        for mid, tr in dtls:
            if tr is None:
                bad.append(f"{who}: mid {mid} has no transport")
            elif getattr(tr, "_role", "auto") not in ("client", "server"):
                bad.append(f"{who}: the DTLS transport of mid {mid} has role {getattr(tr, '_role', None)!r} after the exchange")
    roles_a = {mid: getattr(getattr(sim.get(t, "sender"), "transport", None), "_role", None) for mid, t in by_mid_a.items() if mid is not None}
    roles_b = {mid: getattr(getattr(sim.get(t, "sender"), "transport", None), "_role", None) for mid, t in by_mid_b.items() if mid is not None}
    sa, sb = getattr(a.pc, "__sctp", None), getattr(b.pc, "__sctp", None)
    if sa is not None and sb is not None and getattr(sa, "mid", None) is not None and sa.mid == getattr(sb, "mid", None):
        roles_a[sa.mid] = getattr(sa.transport, "_role", None)
        roles_b[sb.mid] = getattr(sb.transport, "_role", None)
    for mid in roles_a:
        if mid in roles_b and {roles_a[mid], roles_b[mid]} != {"client", "server"}:
            bad.append(f"mid {mid}: DTLS roles are {roles_a[mid]} / {roles_b[mid]}; one side must be client and the other server")
    if sa is not None and getattr(sa, "mid", None) is not None:
        if sb is None or getattr(sb, "mid", None) != sa.mid:
            bad.append("the offerer negotiated a data-channel section, the answerer has no SCTP transport bound to it")
    return bad


STATIC = {"0": "PCMU/8000", "8": "PCMA/8000", "9": "G722/8000"}


# ---------------------------------------------------------------------------------------------------------------- C03-SIM
def configurations(tier: str) -> List[Tuple[str, dict]]:
    out: List[Tuple[str, dict]] = []

    def cfg(label: str, **kw: Any) -> None:
        base = dict(offer=[], offer_data=False, offer_policy="balanced", answer=[], answer_data=False, answer_policy="balanced", prefs=None, follow=None, edit=None, edit_re=None, expect_codec=None)
        base.update(kw)
        out.append((label, base))
    # single section, every direction pair
    for kind in ("audio", "video"):
        for d1 in DIRS:
            cfg(f"offerer {kind} {d1}; answerer owns nothing", offer=[("tx", kind, d1)])
            for d2 in DIRS:
                if tier == "thorough" or kind == "audio" or d2 in (d1, "sendrecv"):
                    cfg(f"offerer {kind} {d1}; answerer owns {kind} {d2}", offer=[("tx", kind, d1)], answer=[("tx", kind, d2)])
    # addTrack on either side
    for kind in ("audio", "video"):
        cfg(f"offerer addTrack({kind}); answerer addTrack({kind})", offer=[("track", kind, "sendrecv")], answer=[("track", kind, "sendrecv")])
        cfg(f"offerer addTrack({kind}); answerer owns nothing", offer=[("track", kind, "sendrecv")])
    # several sections, data channel, bundle policies
    for pol_o in ("balanced", "max-compat", "max-bundle"):
        for pol_a in ("balanced", "max-compat", "max-bundle"):
            cfg(f"audio+video+data, policies {pol_o}/{pol_a}", offer=[("tx", "audio", "sendrecv"), ("tx", "video", "sendrecv")], offer_data=True, offer_policy=pol_o, answer_policy=pol_a)
            if tier == "thorough":
                cfg(f"video+audio, policies {pol_o}/{pol_a}; answerer owns audio", offer=[("tx", "video", "sendonly"), ("tx", "audio", "sendrecv")], offer_policy=pol_o, answer_policy=pol_a,
                    answer=[("track", "audio", "sendrecv")])
                cfg(f"data only, policies {pol_o}/{pol_a}", offer_data=True, offer_policy=pol_o, answer_policy=pol_a)
    cfg("data only; answerer owns a data channel", offer_data=True, answer_data=True)
    cfg("audio; answerer owns a data channel and video", offer=[("tx", "audio", "sendrecv")], answer=[("tx", "video", "sendrecv")], answer_data=True)
    cfg("audio; answerer owns video (a kind the offer lacks)", offer=[("tx", "audio", "sendrecv")], answer=[("tx", "video", "sendrecv")])
    cfg("video; answerer owns audio and video", offer=[("tx", "video", "sendrecv")], answer=[("track", "audio", "sendrecv"), ("track", "video", "sendrecv")])
    cfg("audio, audio; answerer owns one audio", offer=[("tx", "audio", "sendrecv"), ("tx", "audio", "sendonly")], answer=[("track", "audio", "sendrecv")])
    cfg("two video sections and data", offer=[("tx", "video", "sendonly"), ("tx", "video", "recvonly")], offer_data=True)
    # codec preferences
    for kind, names in (("video", ["video/H264"]), ("video", ["video/VP8"]), ("video", ["video/H264", "video/rtx"]), ("video", ["video/VP8", "video/rtx", "video/H264"]),
                        ("audio", ["audio/PCMU"]), ("audio", ["audio/PCMA", "audio/opus"]), ("audio", ["audio/G722"])):
        cfg(f"offerer {kind} prefers {names}", offer=[("tx", kind, "sendrecv")], prefs=("offer", names))
        cfg(f"answerer {kind} prefers {names}", offer=[("tx", kind, "sendrecv")], answer=[("tx", kind, "sendrecv")], prefs=("answer", names))
    # an offer from elsewhere: the same H.264 profile at another level (only the profile has to match), alone and next to VP8
    cfg("H.264-only offer at level 4.0 (profile-level-id 42e028)", offer=[("tx", "video", "sendrecv")], prefs=("offer", ["video/H264"]), edit=("42e01f", "42e028"), expect_codec="h264")
    cfg("VP8 + H.264 offer, H.264 at level 5.1 (42e033 / 420033)", offer=[("tx", "video", "sendrecv")], edit_re=(r"profile-level-id=42(e0|00)1f", r"profile-level-id=42\g<1>33"), expect_codec="h264")
    cfg("H.264 offer whose fmtp carries sprop-parameter-sets with base64 padding ('=' inside a value)", offer=[("tx", "video", "sendrecv")], offer_data=True,
        edit_re=(r"(a=fmtp:\d+ [^\r\n]*packetization-mode=1[^\r\n]*)", r"\1;sprop-parameter-sets=Z0IAH5WoFAFuQA==,aM48gA=="), expect_codec="h264")
    cfg("offer that spells the codec names in another case (OPUS, vp8, h264; RFC 4855: names are case-insensitive)", offer=[("tx", "audio", "sendrecv"), ("tx", "video", "sendrecv")],
        edit_re=(r"a=rtpmap:(\d+) (opus|VP8|H264|PCMU|PCMA|G722)/", lambda m: f"a=rtpmap:{m.group(1)} {m.group(2).swapcase()}/"), expect_codec=None)
    # a second offer while the first one is still pending
    cfg("audio offered, then video and data added and offered again before any answer", offer=[("tx", "audio", "sendrecv")], follow=("pending", [("tx", "video", "sendrecv")], True))
    cfg("data offered, then audio added and offered again before any answer", offer_data=True, follow=("pending", [("track", "audio", "sendrecv")], False))
    # follow-up negotiations
    cfg("audio, then the offerer adds video", offer=[("tx", "audio", "sendrecv")], follow=("same", [("tx", "video", "sendrecv")], False))
    cfg("audio, then the offerer adds a data channel", offer=[("tx", "audio", "sendrecv")], follow=("same", [], True))
    cfg("data, then the offerer adds audio", offer_data=True, follow=("same", [("tx", "audio", "sendrecv")], False))
    cfg("audio, then the answerer offers video", offer=[("tx", "audio", "sendrecv")], follow=("swap", [("tx", "video", "sendrecv")], False))
    cfg("audio+data, then the answerer offers with nothing new", offer=[("tx", "audio", "sendrecv")], offer_data=True, follow=("swap", [], False))
    cfg("video (answerer owns video), then the answerer offers audio and data", offer=[("tx", "video", "sendrecv")], answer=[("track", "video", "sendrecv")],
        follow=("swap", [("track", "audio", "sendrecv")], True))
    if tier == "thorough":
        for d1, d2, d3 in itertools.product(DIRS, DIRS, DIRS):
            cfg(f"audio {d1} + video {d2}; answerer owns video {d3}", offer=[("tx", "audio", d1), ("tx", "video", d2)], answer=[("tx", "video", d3)])
        for pol in ("max-compat", "max-bundle"):
            cfg(f"audio+video ({pol}), then the answerer offers data", offer=[("tx", "audio", "sendrecv"), ("tx", "video", "sendrecv")], offer_policy=pol, answer_policy=pol,
                follow=("swap", [], True))
            cfg(f"audio ({pol}), then the offerer adds video and data", offer=[("tx", "audio", "sendrecv")], offer_policy=pol, follow=("same", [("tx", "video", "sendonly")], True))
    return out


def set_prefs(sim: PCSim, t: Any, names: List[str]) -> None:
    kind = sim.get(t, "kind")
    caps = sim.hook.run_method(sim.prog.func("codecs.get_capabilities"), None, [kind], {})
    chosen = []
    for n in names:
        chosen += [c for c in caps.codecs if c.mimeType.lower() == n.lower()]
    sim.hook.run_method(sim.prog.find_method(t.__cls__, "setCodecPreferences"), t, [chosen], {})


def run_config(sim: PCSim, c: dict) -> List[str]:
    a, b = Side(sim, c["offer_policy"]), Side(sim, c["answer_policy"])
    for how, kind, d in c["offer"]:
        t = a.add(how, kind, d)
        if c["prefs"] and c["prefs"][0] == "offer":
            set_prefs(sim, t, c["prefs"][1])
    if c["offer_data"]:
        sim.call(a.pc, "createDataChannel", "chat")
    for how, kind, d in c["answer"]:
        t = b.add(how, kind, d)
        if c["prefs"] and c["prefs"][0] == "answer":
            set_prefs(sim, t, c["prefs"][1])
    if c["answer_data"]:
        sim.call(b.pc, "createDataChannel", "other")
    edit = None
    if c["edit"] or c["edit_re"]:
        def edit(t: str) -> str:
            t2 = t.replace(*c["edit"]) if c["edit"] else re.sub(c["edit_re"][0], c["edit_re"][1], t)
            if t2 == t:
                raise AnalysisError(f"pcnego: the offer text has nothing to edit for {c['edit'] or c['edit_re']}")
            return t2
    first = None
    first_offer: List[str] = []
    if c["follow"] and c["follow"][0] == "pending":
        def first(text: str) -> None:
            first_offer.append(text)
            for how, kind, d in c["follow"][1]:
                a.add(how, kind, d)
            if c["follow"][2]:
                sim.call(a.pc, "createDataChannel", "later")
    o, n = exchange(sim, a, b, edit, first)
    bad = check_exchange(sim, a, b, o, n, ([m.mid for m in read_sdp(first_offer[0]).media], None) if first_offer else None)
    if first_offer and not bad:
        want_n = len(read_sdp(first_offer[0]).media) + len(c["follow"][1]) + (1 if c["follow"][2] and not c["offer_data"] else 0)
        if len(read_sdp(o).media) != want_n:
            bad.append(f"the second offer (made while the first was pending) has {len(read_sdp(o).media)} sections; {want_n} expected")
    if c["expect_codec"] and not bad:
        for m in [x for x in read_sdp(n).media if x.kind == "video"]:
            got = [(m.rtpmap.get(pt) or STATIC.get(pt, "?")).split("/")[0].lower() for pt in m.fmts]
            if c["expect_codec"] not in got:
                bad.append(f"the answer selects {got}; {c['expect_codec']} was offered and both sides support that profile")
    if c["prefs"] and not bad:
        names = [x.lower() for x in c["prefs"][1]]
        for m in read_sdp(n).media:
            got = [(m.rtpmap.get(pt) or STATIC.get(pt, "?")).split("/")[0].lower() for pt in m.fmts]
            allowed = [x.split("/")[1] for x in names]
            if any(g not in allowed for g in got):
                bad.append(f"codec preferences {c['prefs'][1]} on the {c['prefs'][0]}er: the answer selects {got}")
            first = [g for g in got if g != "rtx"]
            if first and first[0] != [x for x in allowed if x != "rtx"][0] and c["prefs"][0] == "offer":
                bad.append(f"codec preferences {c['prefs'][1]} on the offerer: the answer's first codec is {first[0]}")
    if c["follow"] and c["follow"][0] != "pending" and not bad:
        mode, extra, data = c["follow"]
        x, y = (a, b) if mode == "same" else (b, a)
        for how, kind, d in extra:
            x.add(how, kind, d)
        if data:
            sim.call(x.pc, "createDataChannel", "later")
        prior = ([m.mid for m in read_sdp(o).media], None)
        o2, n2 = exchange(sim, x, y)
        bad += ["follow-up: " + p for p in check_exchange(sim, x, y, o2, n2, prior)]
        if len(read_sdp(o2).media) != len(read_sdp(o).media) + len(extra) + (1 if data and not (c["offer_data"] or c["answer_data"]) else 0):
            bad.append(f"follow-up: the second offer has {len(read_sdp(o2).media)} sections; the first had {len(read_sdp(o).media)} and {len(extra) + (1 if data else 0)} were added")
    return bad


_C03: Dict[Tuple[int, str], list] = {}


def c03_sim(rep: Report, prog: Program, tier: str) -> None:
    RULE = "C03-SIM"
    rep.rule(RULE, "offer/answer exchanges driven through the real createOffer / createAnswer / setLocalDescription / setRemoteDescription (interpreted), oracle from the property text",
             min_instances=60)
    anchor = prog.func(PC + ".createAnswer")
    key = (id(prog), tier)
    if key not in _C03:
        cfgs = configurations(tier)

        def one(item: Tuple[str, dict]) -> Tuple[str, str, Any]:
            label, c = item
            try:
                bad = run_config(PCSim(prog), c)
                return ("fail", label, bad) if bad else ("ok", label, None)
            except Raised as ex:
                line = getattr(getattr(ex, "node", None), "lineno", None)
                return ("fail", label, [f"the exchange raises {ex.name}" + (f" (line {line})" if line else "")])
            except Unknown as ex:
                return ("unknown", label, str(ex))
        _C03[key] = pmap(one, cfgs)
        for kind, label, bad in _C03[key]:
            if kind == "unknown":
                raise AnalysisError(f"{RULE} cannot evaluate [{label}]: {bad}")
    for kind, label, bad in _C03[key]:
        if kind == "ok":
            rep.ok(RULE, label)
        else:
            rep.fail(mk_finding(prog, "C03", RULE, anchor, None, f"[{label}] " + "; ".join(bad[:2]), construct="nego: " + re.sub(r"\d+", "N", bad[0])[:80]))


# ---------------------------------------------------------------------------------------------------------------- C14-SIM
def graph_clone(sim: PCSim, root: Any) -> Any:
    """copy of an object graph of the simulation that keeps sharing and cycles; classes, enum members and immutable values are shared"""
    memo: Dict[int, Any] = {}
    hook = sim.hook

    def cl(v: Any) -> Any:
        if v is None or isinstance(v, (str, bytes, int, float, bool, frozenset)) or callable(v) and not isinstance(v, (SimpleNamespace, Stub)):
            return v
        i = id(v)
        if i in memo:
            return memo[i]
        if isinstance(v, SimpleNamespace):
            ci = getattr(v, "__cls__", None)
            if ci is not None and hook.enum_kind(ci):
                return v
            new = type(v)()
            memo[i] = new
            for k, x in vars(v).items():
                setattr(new, k, x if k == "__cls__" else cl(x))
            return new
        if isinstance(v, Stub):
            new = object.__new__(type(v))
            memo[i] = new
            for k, x in vars(v).items():
                new.__dict__[k] = cl(x)
            return new
        if isinstance(v, dict):
            new = {}
            memo[i] = new
            for k, x in v.items():
                new[cl(k)] = cl(x)
            return new
        if isinstance(v, list):
            new = []
            memo[i] = new
            new.extend(cl(x) for x in v)
            return new
        if isinstance(v, deque):
            new = deque()
            memo[i] = new
            new.extend(cl(x) for x in v)
            return new
        if isinstance(v, set):
            new = set()
            memo[i] = new
            new.update(cl(x) for x in v)
            return new
        if isinstance(v, tuple):
            return tuple(cl(x) for x in v)
        return v            # ClassInfo, ast nodes, bound-method references: shared
    return cl(root)


ACTIONS = ("createOffer", "createAnswer", "setLocal(offer)", "setLocal(answer)", "setLocal(implicit)", "setRemote(offer)", "setRemote(answer)", "setRemote(mismatched answer)",
           "setRemote(offer without ICE credentials)", "setRemote(offer without rtcp-mux)", "setRemote(answer with a=setup:actpass)", "setRemote(answer without rtcp-mux)", "setRemote(offer without a=setup)", "setRemote(answer without a=setup)", "close")
SLOTS = ("__currentLocalDescription", "__pendingLocalDescription", "__currentRemoteDescription", "__pendingRemoteDescription")


def model(state: str, action: str) -> Tuple[Optional[str], str]:
    """JSEP table: (exception the call must raise or None, state afterwards)"""
    if action == "close":
        return None, "closed"
    if state == "closed":
        return "InvalidStateError", state
    if action == "createOffer":
        return None, state
    if action == "createAnswer":
        return (None, state) if state == "have-remote-offer" else ("InvalidStateError", state)
    if action == "setLocal(offer)":
        return (None, "have-local-offer") if state in ("stable", "have-local-offer") else ("InvalidStateError", state)
    if action == "setLocal(answer)":
        return (None, "stable") if state == "have-remote-offer" else ("InvalidStateError", state)
    if action == "setLocal(implicit)":
        return (None, "stable") if state == "have-remote-offer" else (None, "have-local-offer")
    if action == "setRemote(offer)":
        return (None, "have-remote-offer") if state in ("stable", "have-remote-offer") else ("InvalidStateError", state)
    if action == "setRemote(answer)":
        return (None, "stable") if state == "have-local-offer" else ("InvalidStateError", state)
    if action.startswith("setRemote(offer without"):
        return ("ValueError", state) if state in ("stable", "have-remote-offer") else ("InvalidStateError", state)
    # defective / mismatched answers
    return ("ValueError", state) if state == "have-local-offer" else ("InvalidStateError", state)


class Subject:
    """one connection under test plus what the application holds (the last offer / answer it created)"""

    def __init__(self, sim: PCSim, pc: Any, texts: Dict[str, str]) -> None:
        self.sim, self.pc, self.texts = sim, pc, texts
        self.last_offer: Any = None
        self.last_answer: Any = None

    def fork(self) -> "Subject":
        s = Subject(self.sim, graph_clone(self.sim, self.pc), self.texts)
        s.last_offer, s.last_answer = self.last_offer, self.last_answer
        return s

    def state(self) -> str:
        return self.sim.get(self.pc, "signalingState")

    def slots(self) -> tuple:
        return tuple(getattr(self.pc, s, None) for s in SLOTS)

    def answer_for_pending(self) -> str:
        pend = getattr(self.pc, "__pendingLocalDescription", None)
        return self.texts["answer"] if pend is None else answer_to(self.sim, self.sim.hook.to_str(pend) if not isinstance(pend, str) else pend, self.texts)

    def do(self, action: str) -> Any:
        sim, pc = self.sim, self.pc
        if action == "createOffer":
            self.last_offer = sim.call(pc, "createOffer")
        elif action == "createAnswer":
            self.last_answer = sim.call(pc, "createAnswer")
        elif action == "setLocal(offer)":
            # an application only passes offers / answers this connection created: where creating one is legal it is created first, elsewhere a stand-in text is used
            if self.last_offer is None and self.state() in ("stable", "have-local-offer"):
                self.last_offer = sim.call(pc, "createOffer")
            d = self.last_offer if self.last_offer is not None else sim.desc("offer", self.texts["own-offer"])
            sim.call(pc, "setLocalDescription", d)
        elif action == "setLocal(answer)":
            if self.state() == "have-remote-offer":
                self.last_answer = sim.call(pc, "createAnswer")
            d = self.last_answer if self.last_answer is not None else sim.desc("answer", self.texts["own-answer"])
            sim.call(pc, "setLocalDescription", d)
        elif action == "setLocal(implicit)":
            sim.call(pc, "setLocalDescription", None)
        elif action == "setRemote(offer)":
            sim.call(pc, "setRemoteDescription", sim.desc("offer", self.texts["offer"]))
        elif action == "setRemote(answer)":
            sim.call(pc, "setRemoteDescription", sim.desc("answer", self.answer_for_pending()))
        elif action == "setRemote(mismatched answer)":
            t = self.answer_for_pending()
            sim.call(pc, "setRemoteDescription", sim.desc("answer", drop_last_section(t)))
        elif action == "setRemote(offer without ICE credentials)":
            sim.call(pc, "setRemoteDescription", sim.desc("offer", "".join(l for l in self.texts["offer"].splitlines(True) if not l.startswith(("a=ice-ufrag", "a=ice-pwd")))))
        elif action == "setRemote(offer without rtcp-mux)":
            sim.call(pc, "setRemoteDescription", sim.desc("offer", "".join(l for l in self.texts["offer"].splitlines(True) if l.strip() != "a=rtcp-mux")))
        elif action == "setRemote(answer with a=setup:actpass)":
            sim.call(pc, "setRemoteDescription", sim.desc("answer", re.sub(r"a=setup:\w+", "a=setup:actpass", self.answer_for_pending())))
        elif action == "setRemote(answer without rtcp-mux)":
            sim.call(pc, "setRemoteDescription", sim.desc("answer", "".join(l for l in self.answer_for_pending().splitlines(True) if l.strip() != "a=rtcp-mux")))
        elif action == "setRemote(offer without a=setup)":
            sim.call(pc, "setRemoteDescription", sim.desc("offer", "".join(l for l in self.texts["offer"].splitlines(True) if not l.startswith("a=setup:"))))
        elif action == "setRemote(answer without a=setup)":
            sim.call(pc, "setRemoteDescription", sim.desc("answer", "".join(l for l in self.answer_for_pending().splitlines(True) if not l.startswith("a=setup:"))))
        elif action == "close":
            sim.call(pc, "close")
        else:
            raise AnalysisError(f"pcnego: unknown action {action}")


def drop_last_section(text: str) -> str:
    lines = text.splitlines(True)
    idx = [i for i, l in enumerate(lines) if l.startswith("m=")]
    if len(idx) < 2:
        return text
    kept = lines[:idx[-1]]
    gone = next((l[6:].strip() for l in lines[idx[-1]:] if l.startswith("a=mid:")), None)
    return "".join(re.sub(rf"(a=group:BUNDLE.*?) {re.escape(gone)}\b", r"\1", l) if gone and l.startswith("a=group:BUNDLE") else l for l in kept)


_ANSWERS: Dict[str, str] = {}


def configure(sim: PCSim, s: Side) -> None:
    s.add("tx", "audio", "sendrecv")
    sim.call(s.pc, "createDataChannel", "chat")


def answer_to(sim: PCSim, offer_text: str, texts: Dict[str, str]) -> str:
    """what a well-behaved peer answers to this offer (a fresh helper connection with the same set-up)"""
    key = re.sub(r"a=(ice-ufrag|ice-pwd|fingerprint|msid|ssrc)[^\n]*\n", "", re.sub(r"o=[^\n]*\n", "", offer_text))
    if key not in _ANSWERS:
        h = Side(sim, "balanced")
        configure(sim, h)
        sim.call(h.pc, "setRemoteDescription", sim.desc("offer", offer_text))
        _ANSWERS[key] = sim.call(h.pc, "createAnswer").sdp
    return _ANSWERS[key]


def explore(prog: Program, first: str, depth: int) -> List[Tuple[str, str, str]]:
    """all sequences starting with `first`; returns (kind, label, detail)"""
    sim = PCSim(prog)
    out: List[Tuple[str, str, str]] = []
    try:
        peer = Side(sim, "balanced")
        configure(sim, peer)
        peer_offer = sim.call(peer.pc, "createOffer").sdp
        me = Side(sim, "balanced")
        configure(sim, me)
        # descriptions of the subject's own making, for calls that need one before the subject created any
        twin = Side(sim, "balanced")
        configure(sim, twin)
        own_offer = sim.call(twin.pc, "createOffer").sdp
        texts = {"offer": peer_offer, "own-offer": own_offer}
        texts["answer"] = answer_to(sim, own_offer, texts)
        texts["own-answer"] = texts["answer"]
        root = Subject(sim, me.pc, texts)
    except (Raised, Unknown) as ex:
        return [("unknown", f"set-up for sequences starting with {first}", str(ex))]

    def step(sub: Subject, action: str, prefix: Tuple[str, ...], remaining: int) -> None:
        seq = prefix + (action,)
        label = " ; ".join(seq)
        before_state, before_slots = sub.state(), sub.slots()
        want_exc, want_state = model(before_state, action)
        got_exc = None
        try:
            sub.do(action)
        except Raised as ex:
            got_exc = ex.name
        except Unknown as ex:
            out.append(("unknown", label, str(ex)))
            return
        after_state, after_slots = sub.state(), sub.slots()
        problems = []
        if got_exc != want_exc:
            problems.append(f"in state {before_state} the call {'returns normally' if got_exc is None else 'raises ' + got_exc}; JSEP says {'it succeeds' if want_exc is None else want_exc}")
        if after_state != want_state and not (got_exc != want_exc and got_exc is not None and after_state == before_state):
            problems.append(f"signalingState goes {before_state} -> {after_state}; JSEP says {want_state}")
        if (got_exc is not None or want_exc is not None) and any(a is not b for a, b in zip(before_slots, after_slots)):
            changed = [SLOTS[i].strip("_") for i, (a, b) in enumerate(zip(before_slots, after_slots)) if a is not b]
            problems.append(f"the refused call changed {', '.join(changed)}")
        if got_exc is None and want_exc is None and not problems and action.startswith("set"):
            # what the application sees afterwards: the description just applied
            side = "localDescription" if action.startswith("setLocal") else "remoteDescription"
            typ = "answer" if want_state == "stable" else "offer"
            try:
                seen_d = sim.get(sub.pc, side)
            except (Raised, Unknown) as ex:
                seen_d = None
                problems.append(f"reading {side} afterwards fails: {ex}")
            if seen_d is not None and getattr(seen_d, "type", None) != typ:
                problems.append(f"{side} afterwards is {'None' if seen_d is None else 'of type ' + str(getattr(seen_d, 'type', None))}; the {typ} just applied is expected")
            elif seen_d is None and not problems:
                problems.append(f"{side} is None after the call succeeded")
        if problems:
            out.append(("fail", label, "; ".join(problems)))
            return
        out.append(("ok", label, f"{before_state} -> {after_state}" + (f" ({got_exc})" if got_exc else "")))
        if remaining <= 0 or got_exc is not None:
            return          # a refused call left state and descriptions as they were (just checked): its continuations are those of the prefix
        for nxt in ACTIONS:
            if after_state == "closed" and remaining < 1:
                continue
            step(sub.fork(), nxt, seq, remaining - 1)
    step(root, first, (), depth - 1)
    return out


_C14: Dict[Tuple[int, str], list] = {}


def c14_sim(rep: Report, prog: Program, tier: str) -> None:
    RULE = "C14-SIM"
    depth = 3 if tier == "quick" else 4
    rep.rule(RULE, f"call sequences up to length {depth} through the real negotiation methods (interpreted) against the JSEP table; refused calls leave state and descriptions untouched",
             min_instances=150)
    anchor = prog.func(PC + ".__validate_description")
    key = (id(prog), tier)
    if key not in _C14:
        res = pmap(lambda a: explore(prog, a, depth), list(ACTIONS))
        _C14[key] = [x for r in res for x in r]
    seen = set()
    for kind, label, detail in _C14[key]:
        if kind == "unknown":
            raise AnalysisError(f"{RULE} cannot evaluate [{label}]: {detail}")
        if kind == "ok":
            rep.ok(RULE, label, sample=detail)
        else:
            last = label.split(" ; ")[-1]
            c = f"sequence: {last}: " + re.sub(r"\d+", "N", detail)[:90]
            if c in seen:
                rep.rules[RULE]["instances"] += 1        # the same misbehaviour after a different prefix: counted, reported once
                continue
            seen.add(c)
            rep.fail(mk_finding(prog, "C14", RULE, anchor, None, f"[{label}] {detail}", construct=c))


# ---------------------------------------------------------------------------------------------------------------- C19-SIM
def c19_sim(rep: Report, prog: Program, tier: str) -> None:
    """close() at every point between negotiation calls, on either side: everything the connection created is stopped, the three states are `closed`, nothing happens
    on a second close(), negotiation calls are refused afterwards."""
    RULE = "C19-SIM"
    rep.rule(RULE, "close() between any two negotiation calls (interpreted, stand-in transports): every transport / sender / receiver the connection created is stopped, states are closed, "
                   "a second close() does nothing", min_instances=30)
    anchor = prog.func(PC + ".close")
    steps = ("created", "createOffer", "setLocal(offer)", "setRemote(offer)", "createAnswer", "setLocal(answer)", "setRemote(answer)")
    cfgs = [("audio+video+data, balanced", [("tx", "audio", "sendrecv"), ("tx", "video", "sendrecv")], True, "balanced", []),
            ("audio+video+data, max-compat", [("tx", "audio", "sendrecv"), ("tx", "video", "sendonly")], True, "max-compat", []),
            ("video+data, max-bundle; answerer owns audio and video", [("track", "video", "sendrecv")], True, "max-bundle", [("track", "audio", "sendrecv"), ("track", "video", "sendrecv")]),
            ("data only", [], True, "balanced", []),
            ("audio only; answerer owns a data channel", [("tx", "audio", "recvonly")], False, "balanced", "data")]

    def one(item: Tuple[str, int, str]) -> Tuple[str, str, str]:
        ci, upto, who = item
        label_c, offer_media, data, policy, ans_media = cfgs[ci]
        label = f"{label_c}: {who}.close() after {steps[upto]}"
        sim = PCSim(prog)
        try:
            a, b = Side(sim, policy), Side(sim, policy)
            for how, kind, d in offer_media:
                a.add(how, kind, d)
            if data:
                sim.call(a.pc, "createDataChannel", "chat")
            if ans_media == "data":
                sim.call(b.pc, "createDataChannel", "mine")
            else:
                for how, kind, d in ans_media:
                    b.add(how, kind, d)
            offer = answer = None
            for k in range(1, upto + 1):
                if k == 1:
                    offer = sim.call(a.pc, "createOffer")
                elif k == 2:
                    sim.call(a.pc, "setLocalDescription", offer)
                elif k == 3:
                    sim.call(b.pc, "setRemoteDescription", sim.desc("offer", offer.sdp))
                elif k == 4:
                    answer = sim.call(b.pc, "createAnswer")
                elif k == 5:
                    sim.call(b.pc, "setLocalDescription", answer)
                elif k == 6:
                    sim.call(a.pc, "setRemoteDescription", sim.desc("answer", answer.sdp))
            side = a if who == "offerer" else b
            mine = [st for owner, st in sim.created if owner is side.pc]
            sim.call(side.pc, "close")
            problems = []
            for st in mine:
                if st.stub_kind in ("ice", "dtls", "sctp", "sender", "receiver") and not any(e[0] == "stop" for e in st.log):
                    problems.append(f"{st.stub_kind} {st.name} was created by the connection and is not stopped by close()")
            for prop_ in ("signalingState", "iceConnectionState", "connectionState"):
                v = sim.get(side.pc, prop_)
                if v != "closed":
                    problems.append(f"{prop_} is {v!r} after close()")
            logs = {id(st): len(st.log) for st in mine}
            events = len(getattr(side.pc, "events", []))
            sim.call(side.pc, "close")
            if any(len(st.log) != logs[id(st)] for st in mine) or len(getattr(side.pc, "events", [])) != events:
                problems.append("a second close() stops objects again or emits events")
            for meth, args in (("createOffer", []), ("createAnswer", []), ("setRemoteDescription", [sim.desc("offer", offer.sdp)] if offer is not None else None)):
                if args is None:
                    continue
                try:
                    sim.call(side.pc, meth, *args)
                    problems.append(f"{meth}() is accepted after close()")
                except Raised as ex:
                    if ex.name != "InvalidStateError":
                        problems.append(f"{meth}() after close() raises {ex.name}")
            return ("fail", label, "; ".join(problems[:3])) if problems else ("ok", label, f"{len(mine)} objects")
        except Raised as ex:
            return ("fail", label, f"raises {ex.name} (line {getattr(getattr(ex, 'node', None), 'lineno', None)})")
        except Unknown as ex:
            return ("unknown", label, str(ex))
    items = [(ci, upto, who) for ci in range(len(cfgs)) for upto in range(len(steps)) for who in ("offerer", "answerer")]
    if tier == "quick":
        items = [it for it in items if it[0] in (0, 2, 4) or it[1] in (0, 6)]
    seen = set()
    for kind, label, detail in pmap(one, items):
        if kind == "unknown":
            raise AnalysisError(f"{RULE} cannot evaluate [{label}]: {detail}")
        if kind == "ok":
            rep.ok(RULE, label, sample=detail)
        else:
            c = "close: " + re.sub(r"[\w-]+-\d+", "X", re.sub(r"\d+", "N", detail))[:90]
            if c in seen:
                rep.rules[RULE]["instances"] += 1
                continue
            seen.add(c)
            rep.fail(mk_finding(prog, "C19", RULE, anchor, None, f"[{label}] {detail}", construct=c))
