"""Offer/answer exchanges and call sequences driven through the negotiation simulator (rules C03-SIM and C14-SIM).

rules/pcsim.py interprets the real peer-connection code (nothing of aiortc is imported or run); this module enumerates configurations / call sequences, drives the
simulator and compares the outcome with an oracle written here from the property text:

C03-SIM   for every enumerated configuration pair (what the offerer added, what the answerer owned beforehand, bundle policies, codec preferences) the exchange
          createOffer / setLocal / setRemote / createAnswer / setLocal / setRemote raises nothing, both ends are `stable`, current directions are complementary and equal
          to the intersection of what each side wanted, the answer text mirrors the offer (sections, kinds, mids, BUNDLE group) and selects only offered codecs /
          feedback / header extensions with the offerer's numbers, RTX only next to its base, `a=setup` is definite, the DTLS stand-ins got opposite definite roles and
          everything in the bundle sits on one transport.  Follow-up negotiations (add media, swap the offering side) are checked the same way and must keep mids and
          section order.
C14-SIM   for every call sequence up to the length bound over {createOffer, createAnswer, setLocal(offer|answer|implicit), setRemote(offer|answer|mismatched|
          defective...), close} on one connection (the peer's descriptions are manufactured by helper connections), `signalingState` follows the JSEP table written
          here; an illegal call raises the exception the property names and leaves state and the four description slots untouched.

Decides the enumerated configurations and sequences only.
"""
from __future__ import annotations

import itertools
import re
from collections import deque
from types import SimpleNamespace
from typing import Any, Dict, List, Optional, Tuple

from engine.index import AnalysisError, Program, Unknown
from engine.par import pmap
from engine.peval import Raised
from engine.report import Report, mk_finding

from .pcsim import PC, PCSim, Stub

DIRS = ("sendrecv", "sendonly", "recvonly", "inactive")
SEND = {"sendrecv": (True, True), "sendonly": (True, False), "recvonly": (False, True), "inactive": (False, False)}
NAME = {v: k for k, v in SEND.items()}


# ---------------------------------------------------------------------------------------------------------------- SDP text reading (checker's own, independent of sdp.py)
def read_sdp(text: str) -> SimpleNamespace:
    lines = [l for l in text.replace("\r\n", "\n").split("\n") if l]
    sess = SimpleNamespace(bundle=None, media=[], attrs=[])
    cur = None
    for l in lines:
        if l.startswith("m="):
            kind, port, proto, *fmts = l[2:].split(" ")
            cur = SimpleNamespace(kind=kind, port=int(port), proto=proto, fmts=fmts, mid=None, direction=None, rtpmap={}, fmtp={}, fb={}, ext={}, setup=None, ufrag=None, pwd=None,
                                  mux=False, fingerprint=False, ssrc=[], msid=None, sctp_port=None)
            sess.media.append(cur)
            continue
        if not l.startswith("a="):
            continue
        a = l[2:]
        k, _, v = a.partition(":")
        if cur is None:
            if k == "group" and v.startswith("BUNDLE"):
                sess.bundle = v.split(" ")[1:]
            sess.attrs.append(a)
            continue
        if a in DIRS:
            cur.direction = a
        elif k == "mid":
            cur.mid = v
        elif k == "rtpmap":
            pt, _, rest = v.partition(" ")
            cur.rtpmap[pt] = rest
        elif k == "fmtp":
            pt, _, rest = v.partition(" ")
            cur.fmtp[pt] = rest
        elif k == "rtcp-fb":
            pt, _, rest = v.partition(" ")
            cur.fb.setdefault(pt, []).append(rest)
        elif k == "extmap":
            i, _, uri = v.partition(" ")
            cur.ext[i] = uri
        elif k == "setup":
            cur.setup = v
        elif k == "ice-ufrag":
            cur.ufrag = v
        elif k == "ice-pwd":
            cur.pwd = v
        elif a == "rtcp-mux":
            cur.mux = True
        elif k == "fingerprint":
            cur.fingerprint = True
        elif k == "sctp-port":
            cur.sctp_port = v
    return sess


# ---------------------------------------------------------------------------------------------------------------- driving helpers
class Side:
    def __init__(self, sim: PCSim, policy: str) -> None:
        self.sim = sim
        self.pc = sim.new_pc(policy)
        self.wanted: Dict[int, str] = {}       # id(transceiver) -> direction the application asked for

    def transceivers(self) -> list:
        return list(getattr(self.pc, "__transceivers"))

    def add(self, how: str, kind: str, direction: str = "sendrecv") -> Any:
        if how == "track":
            self.sim.counter += 1
            track = Stub("localtrack", name=f"local-{self.sim.counter}", kind=kind, id=f"trk{self.sim.counter}", readyState="live")
            before = self.transceivers()
            self.sim.call(self.pc, "addTrack", track)
            new = [t for t in self.transceivers() if not any(t is b for b in before)]
            t = new[0] if new else None
            if t is None:       # re-used an existing transceiver
                for x in self.transceivers():
                    if getattr(self.sim.get(x, "sender"), "track", None) is track:
                        t = x
            if t is not None:
                self.wanted[id(t)] = self.sim.get(t, "direction")
            return t
        t = self.sim.call(self.pc, "addTransceiver", kind, direction=direction)
        self.wanted[id(t)] = direction
        return t

    def state(self) -> str:
        return self.sim.get(self.pc, "signalingState")


def exchange(sim: PCSim, a: Side, b: Side) -> Tuple[str, str]:
    """a offers, b answers; returns the two SDP texts"""
    offer = sim.call(a.pc, "createOffer")
    sim.call(a.pc, "setLocalDescription", offer)
    sim.call(b.pc, "setRemoteDescription", sim.desc("offer", offer.sdp))
    answer = sim.call(b.pc, "createAnswer")
    sim.call(b.pc, "setLocalDescription", answer)
    sim.call(a.pc, "setRemoteDescription", sim.desc("answer", answer.sdp))
    return offer.sdp, answer.sdp


def check_exchange(sim: PCSim, a: Side, b: Side, offer_text: str, answer_text: str, prior: Optional[Tuple[list, list]] = None) -> List[str]:
    """oracle of C03 for one completed exchange (a offered)"""
    bad: List[str] = []
    if a.state() != "stable" or b.state() != "stable":
        bad.append(f"signaling states after the exchange are {a.state()} / {b.state()}, not stable / stable")
    o, n = read_sdp(offer_text), read_sdp(answer_text)
    if [(m.kind, m.mid) for m in o.media] != [(m.kind, m.mid) for m in n.media]:
        bad.append(f"the answer's sections {[(m.kind, m.mid) for m in n.media]} do not mirror the offer's {[(m.kind, m.mid) for m in o.media]}")
        return bad
    mids = [m.mid for m in o.media]
    if len(set(mids)) != len(mids) or any(m is None for m in mids):
        bad.append(f"the offer's mids {mids} are not distinct")
    if prior is not None:
        po, _ = prior
        if mids[:len(po)] != po:
            bad.append(f"a follow-up offer changed the established sections: mids {po} became {mids[:len(po)]}")
    live = [m.mid for m in n.media if m.port != 0]
    if o.bundle is not None:
        if n.bundle is None and len(live) > 0:
            bad.append("the offer has a BUNDLE group, the answer has none")
        elif n.bundle is not None:
            if not set(n.bundle) <= set(o.bundle):
                bad.append(f"the answer's BUNDLE group {n.bundle} is not part of the offer's {o.bundle}")
            if [x for x in o.bundle if x in live] != [x for x in n.bundle]:
                bad.append(f"the answer's BUNDLE group {n.bundle} differs from the offered group restricted to the accepted sections {[x for x in o.bundle if x in live]}")
    elif n.bundle is not None:
        bad.append(f"the answer has a BUNDLE group {n.bundle} that was not offered")
    for mo, mn in zip(o.media, n.media):
        where = f"section {mo.kind}/{mo.mid}"
        if mo.kind == "application":
            if mn.port != 0 and mn.sctp_port is None and "webrtc-datachannel" not in mn.fmts and not mn.fmts:
                bad.append(f"{where}: the answer has no SCTP port")
        else:
            if mn.port == 0:
                bad.append(f"{where}: rejected although both sides share codecs")
                continue
            if not mn.fmts:
                bad.append(f"{where}: the answer selects no codec")
            for pt in mn.fmts:
                if pt not in mo.fmts:
                    bad.append(f"{where}: the answer uses payload type {pt}, which was not offered")
                    continue
                name_o = mo.rtpmap.get(pt, STATIC.get(pt, "?")).lower()
                name_n = mn.rtpmap.get(pt, STATIC.get(pt, "?")).lower()
                if name_o != name_n:
                    bad.append(f"{where}: payload type {pt} is {name_o} in the offer and {name_n} in the answer")
                if name_n.startswith("rtx/"):
                    apt = dict(x.split("=") for x in mn.fmtp.get(pt, "").split(";") if "=" in x).get("apt")
                    if apt not in mn.fmts:
                        bad.append(f"{where}: RTX payload type {pt} is selected without its base codec (apt={apt})")
                    elif dict(x.split("=") for x in mo.fmtp.get(pt, "").split(";") if "=" in x).get("apt") != apt:
                        bad.append(f"{where}: RTX payload type {pt} repairs {apt} in the answer but not in the offer")
                for fb in mn.fb.get(pt, []):
                    if fb not in mo.fb.get(pt, []):
                        bad.append(f"{where}: RTCP feedback '{fb}' for payload type {pt} was not offered")
            if not any(not mn.rtpmap.get(pt, STATIC.get(pt, "?")).lower().startswith("rtx/") for pt in mn.fmts):
                bad.append(f"{where}: the answer selects no real codec")
            for i, uri in mn.ext.items():
                if mo.ext.get(i) != uri:
                    bad.append(f"{where}: header extension {uri} has id {i} in the answer; the offer has {mo.ext.get(i)!r} under that id")
            want = NAME[(SEND[mn.direction][0], SEND[mn.direction][1])] if mn.direction else None
            if mn.direction is None or mo.direction is None:
                bad.append(f"{where}: a direction attribute is missing")
            else:
                so, ro = SEND[mo.direction]
                sn, rn = SEND[mn.direction]
                if (sn and not ro) or (rn and not so):
                    bad.append(f"{where}: offered {mo.direction}, answered {mn.direction}")
        if mn.port != 0:
            if mn.setup not in ("active", "passive"):
                bad.append(f"{where}: the answer's a=setup is {mn.setup!r}, not a definite role")
            if mo.setup != "actpass" and mo.setup not in ("active", "passive"):
                bad.append(f"{where}: the offer's a=setup is {mo.setup!r}")
            if not (mn.ufrag and mn.pwd) and not (n.bundle and mn.mid in n.bundle[1:]):
                bad.append(f"{where}: the answer has no ICE credentials")
    # object state on both sides
    ta, tb = a.transceivers(), b.transceivers()
    by_mid_a = {sim.get(t, "mid"): t for t in ta}
    by_mid_b = {sim.get(t, "mid"): t for t in tb}
    for mo in o.media:
        if mo.kind == "application":
            continue
        x, y = by_mid_a.get(mo.mid), by_mid_b.get(mo.mid)
        if x is None or y is None:
            bad.append(f"mid {mo.mid}: {'offerer' if x is None else 'answerer'} has no transceiver with that mid after the exchange")
            continue
        cx, cy = sim.get(x, "currentDirection"), sim.get(y, "currentDirection")
        if cx not in SEND or cy not in SEND or SEND[cx] != (SEND[cy][1], SEND[cy][0]):
            bad.append(f"mid {mo.mid}: current directions {cx} / {cy} are not complementary")
            continue
        wx = a.wanted.get(id(x), "recvonly")
        wy = b.wanted.get(id(y), "recvonly")
        exp = NAME[(SEND[wx][0] and SEND[wy][1], SEND[wx][1] and SEND[wy][0])]
        if cx != exp:
            bad.append(f"mid {mo.mid}: the offerer wanted {wx}, the answerer {wy}; the offerer's current direction is {cx}, expected {exp}")
        if sim.get(x, "kind") != mo.kind or sim.get(y, "kind") != mo.kind:
            bad.append(f"mid {mo.mid}: a {mo.kind} section is bound to a {sim.get(x, 'kind')} / {sim.get(y, 'kind')} transceiver")
    stray = [sim.get(t, "kind") for t in tb if sim.get(t, "mid") is None and not getattr(t, "_RTCRtpTransceiver__stopped", getattr(t, "__stopped", False))]
    # (an answerer-side transceiver that the offer has no section for simply stays un-negotiated: allowed)
    # transports and roles
    for side, who in ((a, "offerer"), (b, "answerer")):
        dtls = []
        for t in side.transceivers():
            if sim.get(t, "mid") is None:
                continue
            tr = getattr(sim.get(t, "sender"), "transport", None)
            rr = getattr(sim.get(t, "receiver"), "transport", None)
            if tr is not rr:
                bad.append(f"{who}: sender and receiver of mid {sim.get(t, 'mid')} sit on different transports")
            dtls.append((sim.get(t, "mid"), tr))
        sctp = getattr(side.pc, "__sctp", None)
        if sctp is not None and getattr(sctp, "mid", None) is not None:
            dtls.append((sctp.mid, sctp.transport))
        group = n.bundle or []
        inb = [tr for mid, tr in dtls if mid in group]
        if len({id(x) for x in inb}) > 1:
            bad.append(f"{who}: the members of the BUNDLE group {group} sit on {len({id(x) for x in inb})} different transports")
        for mid, tr in dtls:
            if tr is None:
                bad.append(f"{who}: mid {mid} has no transport")
            elif getattr(tr, "_role", "auto") not in ("client", "server"):
                bad.append(f"{who}: the DTLS transport of mid {mid} has role {getattr(tr, '_role', None)!r} after the exchange")
    roles_a = {mid: getattr(getattr(sim.get(t, "sender"), "transport", None), "_role", None) for mid, t in by_mid_a.items() if mid is not None}
    roles_b = {mid: getattr(getattr(sim.get(t, "sender"), "transport", None), "_role", None) for mid, t in by_mid_b.items() if mid is not None}
    sa, sb = getattr(a.pc, "__sctp", None), getattr(b.pc, "__sctp", None)
    if sa is not None and sb is not None and getattr(sa, "mid", None) is not None and sa.mid == getattr(sb, "mid", None):
        roles_a[sa.mid] = getattr(sa.transport, "_role", None)
        roles_b[sb.mid] = getattr(sb.transport, "_role", None)
    for mid in roles_a:
        if mid in roles_b and {roles_a[mid], roles_b[mid]} != {"client", "server"}:
            bad.append(f"mid {mid}: DTLS roles are {roles_a[mid]} / {roles_b[mid]}; one side must be client and the other server")
    if sa is not None and getattr(sa, "mid", None) is not None:
        if sb is None or getattr(sb, "mid", None) != sa.mid:
            bad.append("the offerer negotiated a data-channel section, the answerer has no SCTP transport bound to it")
    return bad


STATIC = {"0": "PCMU/8000", "8": "PCMA/8000", "9": "G722/8000"}


# ---------------------------------------------------------------------------------------------------------------- C03-SIM
def configurations(tier: str) -> List[Tuple[str, dict]]:
    out: List[Tuple[str, dict]] = []

    def cfg(label: str, **kw: Any) -> None:
        base = dict(offer=[], offer_data=False, offer_policy="balanced", answer=[], answer_data=False, answer_policy="balanced", prefs=None, follow=None)
        base.update(kw)
        out.append((label, base))
    # single section, every direction pair
    for kind in ("audio", "video"):
        for d1 in DIRS:
            cfg(f"offerer {kind} {d1}; answerer owns nothing", offer=[("tx", kind, d1)])
            for d2 in DIRS:
                cfg(f"offerer {kind} {d1}; answerer owns {kind} {d2}", offer=[("tx", kind, d1)], answer=[("tx", kind, d2)])
    # addTrack on either side
    for kind in ("audio", "video"):
        cfg(f"offerer addTrack({kind}); answerer addTrack({kind})", offer=[("track", kind, "sendrecv")], answer=[("track", kind, "sendrecv")])
        cfg(f"offerer addTrack({kind}); answerer owns nothing", offer=[("track", kind, "sendrecv")])
    # several sections, data channel, bundle policies
    for pol_o in ("balanced", "max-compat", "max-bundle"):
        for pol_a in ("balanced", "max-compat", "max-bundle"):
            cfg(f"audio+video+data, policies {pol_o}/{pol_a}", offer=[("tx", "audio", "sendrecv"), ("tx", "video", "sendrecv")], offer_data=True, offer_policy=pol_o, answer_policy=pol_a)
            if tier == "thorough":
                cfg(f"video+audio, policies {pol_o}/{pol_a}; answerer owns audio", offer=[("tx", "video", "sendonly"), ("tx", "audio", "sendrecv")], offer_policy=pol_o, answer_policy=pol_a,
                    answer=[("track", "audio", "sendrecv")])
                cfg(f"data only, policies {pol_o}/{pol_a}", offer_data=True, offer_policy=pol_o, answer_policy=pol_a)
    cfg("data only; answerer owns a data channel", offer_data=True, answer_data=True)
    cfg("audio; answerer owns a data channel and video", offer=[("tx", "audio", "sendrecv")], answer=[("tx", "video", "sendrecv")], answer_data=True)
    cfg("audio; answerer owns video (a kind the offer lacks)", offer=[("tx", "audio", "sendrecv")], answer=[("tx", "video", "sendrecv")])
    cfg("video; answerer owns audio and video", offer=[("tx", "video", "sendrecv")], answer=[("track", "audio", "sendrecv"), ("track", "video", "sendrecv")])
    cfg("audio, audio; answerer owns one audio", offer=[("tx", "audio", "sendrecv"), ("tx", "audio", "sendonly")], answer=[("track", "audio", "sendrecv")])
    cfg("two video sections and data", offer=[("tx", "video", "sendonly"), ("tx", "video", "recvonly")], offer_data=True)
    # codec preferences
    for kind, names in (("video", ["video/H264"]), ("video", ["video/VP8"]), ("video", ["video/H264", "video/rtx"]), ("video", ["video/VP8", "video/rtx", "video/H264"]),
                        ("audio", ["audio/PCMU"]), ("audio", ["audio/PCMA", "audio/opus"]), ("audio", ["audio/G722"])):
        cfg(f"offerer {kind} prefers {names}", offer=[("tx", kind, "sendrecv")], prefs=("offer", names))
        cfg(f"answerer {kind} prefers {names}", offer=[("tx", kind, "sendrecv")], answer=[("tx", kind, "sendrecv")], prefs=("answer", names))
    # follow-up negotiations
    cfg("audio, then the offerer adds video", offer=[("tx", "audio", "sendrecv")], follow=("same", [("tx", "video", "sendrecv")], False))
    cfg("audio, then the offerer adds a data channel", offer=[("tx", "audio", "sendrecv")], follow=("same", [], True))
    cfg("data, then the offerer adds audio", offer_data=True, follow=("same", [("tx", "audio", "sendrecv")], False))
    cfg("audio, then the answerer offers video", offer=[("tx", "audio", "sendrecv")], follow=("swap", [("tx", "video", "sendrecv")], False))
    cfg("audio+data, then the answerer offers with nothing new", offer=[("tx", "audio", "sendrecv")], offer_data=True, follow=("swap", [], False))
    cfg("video (answerer owns video), then the answerer offers audio and data", offer=[("tx", "video", "sendrecv")], answer=[("track", "video", "sendrecv")],
        follow=("swap", [("track", "audio", "sendrecv")], True))
    if tier == "thorough":
        for d1, d2, d3 in itertools.product(DIRS, DIRS, DIRS):
            cfg(f"audio {d1} + video {d2}; answerer owns video {d3}", offer=[("tx", "audio", d1), ("tx", "video", d2)], answer=[("tx", "video", d3)])
        for pol in ("max-compat", "max-bundle"):
            cfg(f"audio+video ({pol}), then the answerer offers data", offer=[("tx", "audio", "sendrecv"), ("tx", "video", "sendrecv")], offer_policy=pol, answer_policy=pol,
                follow=("swap", [], True))
            cfg(f"audio ({pol}), then the offerer adds video and data", offer=[("tx", "audio", "sendrecv")], offer_policy=pol, follow=("same", [("tx", "video", "sendonly")], True))
    return out


def set_prefs(sim: PCSim, t: Any, names: List[str]) -> None:
    kind = sim.get(t, "kind")
    caps = sim.hook.run_method(sim.prog.func("codecs.get_capabilities"), None, [kind], {})
    chosen = []
    for n in names:
        chosen += [c for c in caps.codecs if c.mimeType.lower() == n.lower()]
    sim.hook.run_method(sim.prog.find_method(t.__cls__, "setCodecPreferences"), t, [chosen], {})


def run_config(sim: PCSim, c: dict) -> List[str]:
    a, b = Side(sim, c["offer_policy"]), Side(sim, c["answer_policy"])
    for how, kind, d in c["offer"]:
        t = a.add(how, kind, d)
        if c["prefs"] and c["prefs"][0] == "offer":
            set_prefs(sim, t, c["prefs"][1])
    if c["offer_data"]:
        sim.call(a.pc, "createDataChannel", "chat")
    for how, kind, d in c["answer"]:
        t = b.add(how, kind, d)
        if c["prefs"] and c["prefs"][0] == "answer":
            set_prefs(sim, t, c["prefs"][1])
    if c["answer_data"]:
        sim.call(b.pc, "createDataChannel", "other")
    o, n = exchange(sim, a, b)
    bad = check_exchange(sim, a, b, o, n)
    if c["prefs"] and not bad:
        names = [x.lower() for x in c["prefs"][1]]
        for m in read_sdp(n).media:
            got = [(m.rtpmap.get(pt) or STATIC.get(pt, "?")).split("/")[0].lower() for pt in m.fmts]
            allowed = [x.split("/")[1] for x in names]
            if any(g not in allowed for g in got):
                bad.append(f"codec preferences {c['prefs'][1]} on the {c['prefs'][0]}er: the answer selects {got}")
            first = [g for g in got if g != "rtx"]
            if first and first[0] != [x for x in allowed if x != "rtx"][0] and c["prefs"][0] == "offer":
                bad.append(f"codec preferences {c['prefs'][1]} on the offerer: the answer's first codec is {first[0]}")
    if c["follow"] and not bad:
        mode, extra, data = c["follow"]
        x, y = (a, b) if mode == "same" else (b, a)
        for how, kind, d in extra:
            x.add(how, kind, d)
        if data:
            sim.call(x.pc, "createDataChannel", "later")
        prior = ([m.mid for m in read_sdp(o).media], None)
        o2, n2 = exchange(sim, x, y)
        bad += ["follow-up: " + p for p in check_exchange(sim, x, y, o2, n2, prior)]
        if len(read_sdp(o2).media) != len(read_sdp(o).media) + len(extra) + (1 if data and not (c["offer_data"] or c["answer_data"]) else 0):
            bad.append(f"follow-up: the second offer has {len(read_sdp(o2).media)} sections; the first had {len(read_sdp(o).media)} and {len(extra) + (1 if data else 0)} were added")
    return bad


_C03: Dict[Tuple[int, str], list] = {}


def c03_sim(rep: Report, prog: Program, tier: str) -> None:
    RULE = "C03-SIM"
    rep.rule(RULE, "offer/answer exchanges driven through the real createOffer / createAnswer / setLocalDescription / setRemoteDescription (interpreted), oracle from the property text",
             min_instances=60)
    anchor = prog.func(PC + ".createAnswer")
    key = (id(prog), tier)
    if key not in _C03:
        cfgs = configurations(tier)

        def one(item: Tuple[str, dict]) -> Tuple[str, str, Any]:
            label, c = item
            try:
                bad = run_config(PCSim(prog), c)
                return ("fail", label, bad) if bad else ("ok", label, None)
            except Raised as ex:
                line = getattr(getattr(ex, "node", None), "lineno", None)
                return ("fail", label, [f"the exchange raises {ex.name}" + (f" (line {line})" if line else "")])
            except Unknown as ex:
                return ("unknown", label, str(ex))
        _C03[key] = pmap(one, cfgs)
        for kind, label, bad in _C03[key]:
            if kind == "unknown":
                raise AnalysisError(f"{RULE} cannot evaluate [{label}]: {bad}")
    for kind, label, bad in _C03[key]:
        if kind == "ok":
            rep.ok(RULE, label)
        else:
            rep.fail(mk_finding(prog, "C03", RULE, anchor, None, f"[{label}] " + "; ".join(bad[:2]), construct="nego: " + re.sub(r"\d+", "N", bad[0])[:80]))
