"""C05-COST: wire-controlled loop trip counts must be tied to the datagram length.

Loop classes (per loop, from the facts recorded when the loop was entered):
  LOCAL  trip count does not depend on received data
  SMALL  wire-controlled but <= 256 iterations
  LEN    wire-controlled and bounded by a len() of received data (fact), or iterates a
         collection built from the datagram, or a cursor loop with proven progress
  W16    wire-controlled, <= 65536 iterations, not tied to a length
  BIG    wire-controlled, no bound <= 65536
Violations: any BIG loop; a W16 loop nested inside any wire-controlled loop.
"""
from __future__ import annotations

import ast
from typing import Dict, List, Optional, Tuple

from engine.absint import Absint
from engine.aval import NOCONST
from engine.index import Program, unparse, walk_no_nested
from engine.report import Report, mk_finding


def classify(ai: Absint, rec: Dict) -> Tuple[str, str]:
    node = rec["node"]
    if isinstance(node, ast.While):
        if "cursor" in rec:
            return ("LEN" if all(ok for ok, _ in rec["back"]) else "W16", "cursor loop")
        return ("LOCAL", "condition not a cursor comparison")
    rng = rec.get("range")
    if rng is None:
        return ("LEN" if rec.get("iter_taint") else "LOCAL", "iterates a collection")
    start, stop, step = rng
    tainted = start.taint or stop.taint
    if not tainted:
        return ("LOCAL", "range bounds not derived from received data")
    if rec.get("local_bound"):
        return ("LOCAL", f"trip count capped by local state `{rec['local_bound']}` through min()")
    hi = None
    if stop.hi is not None and start.lo is not None:
        hi = stop.hi - start.lo
    if hi is not None and hi <= 256:
        return ("SMALL", f"at most {hi} iterations")
    if rec.get("tied"):
        return ("LEN", f"trip count <= {rec['tied']}")
    if hi is not None and hi <= 65536:
        return ("W16", f"up to {hi} iterations chosen by the peer, not tied to the datagram length")
    return ("BIG", f"up to {hi if hi is not None else 'unbounded'} iterations chosen by the peer")


def check_cost(rep: Report, prog: Program, ai: Absint, prop: str) -> None:
    rep.rule("C05-COST", "wire-controlled loop nests are bounded by the datagram length", min_instances=5)
    # latest record per (func, loop node): weakest classification over contexts
    order = {"LOCAL": 0, "SMALL": 1, "LEN": 2, "W16": 3, "BIG": 4}
    per_loop: Dict[Tuple[str, int], Tuple[str, str, ast.AST]] = {}
    for (ctx, nid), rec in ai.loop_records.items():
        cls, why = classify(ai, rec)
        key = (rec["func"], nid)
        if key not in per_loop or order[cls] > order[per_loop[key][0]]:
            per_loop[key] = (cls, why, rec["node"])
    by_func: Dict[str, Dict[int, Tuple[str, str, ast.AST]]] = {}
    for (fn, nid), v in per_loop.items():
        by_func.setdefault(fn, {})[nid] = v
    for fn, loops in by_func.items():
        fi = prog.func(fn)
        # nesting
        parents: Dict[int, List[ast.AST]] = {}

        def rec_walk(n: ast.AST, stack: List[ast.AST]) -> None:
            for c in ast.iter_child_nodes(n):
                if isinstance(c, (ast.FunctionDef, ast.AsyncFunctionDef, ast.Lambda, ast.ClassDef)):
                    continue
                if isinstance(c, (ast.For, ast.AsyncFor, ast.While)):
                    parents[id(c)] = list(stack)
                    rec_walk(c, stack + [c])
                else:
                    rec_walk(c, stack)

        rec_walk(fi.node, [])
        for nid, (cls, why, node) in loops.items():
            head = ("while " + unparse(node.test)) if isinstance(node, ast.While) else f"for {unparse(node.target)} in {unparse(node.iter)}"
            if cls in ("LOCAL",):
                continue
            outer = [loops[id(p)] for p in parents.get(nid, []) if id(p) in loops and loops[id(p)][0] != "LOCAL"]
            from .common import EXEMPT_COST
            from engine.report import norm
            if cls in ("BIG", "W16") and any(fn == f0 and norm(head) == norm(c0) for f0, c0, _w in EXEMPT_COST):
                rep.ok("C05-COST", f"{fn}: {head}", sample="exemption table (bounded by local state)")
            elif cls == "BIG":
                rep.fail(mk_finding(prog, prop, "C05-COST", fi, node, f"loop trip count is chosen by the peer: {why}", construct=head))
            elif cls == "W16" and outer:
                o = outer[-1]
                ohead = ("while " + unparse(o[2].test)) if isinstance(o[2], ast.While) else f"for {unparse(o[2].target)} in {unparse(o[2].iter)}"
                rep.fail(mk_finding(prog, prop, "C05-COST", fi, node,
                                    f"{why}, nested inside the wire-controlled loop `{ohead}`: work per datagram is the product, "
                                    f"out of proportion to the datagram size", construct=head))
            else:
                rep.ok("C05-COST", f"{fn}: {head}", sample=f"class {cls}: {why} @ {fi.module.relpath}:{node.lineno}")
