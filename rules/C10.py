"""C10 — jitter buffer: whole ordered frames, bounded, never raises.

  C10-EXC      exception-escape analysis with root JitterBuffer.add (facts + class invariant): nothing escapes
  C10-BOUND    _packets is allocated once with `capacity` slots and afterwards only index-assigned
  C10-PLI      every direct discard (remove / smart_remove) in add() is followed by the video PLI flag
  C10-MISORDER the buffer is reset for a late packet exactly when it is >= 100 positions late (constant threshold)
  C10-SERIAL   serial-number discipline (rule set of C17) inside jitterbuffer.py, incl. `is None` sentinels
  C10-FEED     the receiver sends a PLI iff add()'s first result is true and queues exactly its second result
  C10-ACCEPT   _handle_rtp_packet evaluated with stubbed collaborators: every packet of a negotiated codec (empty payloads and
               retransmissions included) is handed to add() exactly once with its own sequence number, timestamp and depayloaded data
  C10-FRAMES   add() evaluated on loss-free arrival schedules (frame-size patterns x prefetch 0..3 x one adjacent swap x origin at the
               16-bit wrap): whole frames, in order, every packet used once, nothing withheld, no spurious PLI
  C10-OVERFLOW add() evaluated with a packet lost for good and a burst gap at the moment of overflow: every released frame is a
               complete sent frame or - only right after a discard - the tail of one; increasing order; PLI raised
Does not decide: frame integrity for all arrival histories (only the enumerated schedule families).
"""
from __future__ import annotations

import ast
from typing import Dict, List, Optional, Set

from engine.absint import Absint
from engine.index import AnalysisError, Program, unparse, walk_no_nested
from engine.report import Report, mk_finding

from .common import origin_finding, receive_config, record_obligations

PROP = "C10"
JB = "jitterbuffer.JitterBuffer"
GROW = {"append", "insert", "extend", "pop", "remove", "clear", "appendleft", "popleft"}


def run(rep: Report, prog: Program, tier: str) -> None:
    rep.explanation = (
        "Static checks of jitterbuffer.py: exception-escape analysis of add() under the inferred class invariant "
        "len(_packets) == _capacity, who-may-write on the ring, sibling/structure rules for the PLI flag and the misorder "
        "threshold, the serial-number discipline of C17, and def-use of add()'s results in the receiver."
    )
    rep.assumptions += ["threshold 100 is taken from the property statement"]
    ci = prog.cls(JB)
    add = prog.func(JB + ".add")

    # ---- C10-EXC
    rep.rule("C10-EXC", "nothing escapes JitterBuffer.add", min_instances=6)
    cfg = receive_config(prog)
    cfg.taint_params[JB + ".add"] = {"packet"}
    ai = Absint(prog, cfg)
    from engine.invariants import Invariants
    ai.invariants = Invariants(ai)
    summ = ai.analyze_root(add)
    for exc_name, wits in summ.raises.items():
        for w in wits:
            o = w[0]
            rep.fail(origin_finding(prog, PROP, "C10-EXC", o, [str(x) for x in w[1:]],
                                    f"may raise {exc_name} ({o.message}) out of JitterBuffer.add: the buffer must never raise for any arrival order"))
    funcs = {q for q in ai.analysed_funcs if q.startswith("jitterbuffer.")}
    record_obligations(rep, ai, "C10-EXC", funcs=funcs)
    inv = ai.invariants.for_class(ci)
    rep.analysed["class_invariant"] = repr(inv)
    if inv is None or "len(self._packets) - self._capacity == 0" not in repr(inv):
        raise AnalysisError("class invariant len(self._packets) == self._capacity could not be established")

    # ---- C10-BOUND
    rep.rule("C10-BOUND", "_packets never grows", min_instances=3)
    bad = []
    allocs = 0
    for fi in prog.functions.values():
        for n in walk_no_nested(fi.node):
            if isinstance(n, ast.Call) and isinstance(n.func, ast.Attribute) and n.func.attr in GROW and unparse(n.func.value).endswith("._packets"):
                bad.append((fi, n, f"{n.func.attr}() changes the number of slots"))
            if isinstance(n, (ast.Assign, ast.AugAssign, ast.AnnAssign)):
                tg = n.targets if isinstance(n, ast.Assign) else [n.target]
                for t in tg:
                    if isinstance(t, ast.Attribute) and t.attr == "_packets":
                        if fi.qualname == JB + ".__init__" and isinstance(n, (ast.Assign, ast.AnnAssign)):
                            allocs += 1
                        else:
                            bad.append((fi, n, "the ring is re-allocated outside __init__"))
    for fi, n, why in bad:
        rep.fail(mk_finding(prog, PROP, "C10-BOUND", fi, n, f"{why}: the buffer could hold more than its capacity"))
    if allocs != 1:
        raise AnalysisError(f"expected exactly one allocation of _packets in __init__, found {allocs}")
    rep.ok("C10-BOUND", "JitterBuffer.__init__: single allocation of _packets", sample="[None for i in range(capacity)]")
    stores = [n for fi in ci.methods.values() for n in walk_no_nested(fi.node)
              if isinstance(n, ast.Subscript) and isinstance(n.ctx, ast.Store) and unparse(n.value) == "self._packets"]
    for n in stores:
        rep.ok("C10-BOUND", f"index store {unparse(n)} @ line {n.lineno}", sample="element store keeps the length")
    if not bad:
        rep.ok("C10-BOUND", "no growing operation on _packets in the whole package", sample="who-may-write scan")

    # ---- C10-PLI
    rep.rule("C10-PLI", "discards in add() raise the PLI flag for video", min_instances=2)

    def is_discard(e: ast.AST) -> bool:
        return isinstance(e, ast.Call) and unparse(e.func) in ("self.remove", "self.smart_remove")

    def blocks(stmts: List[ast.stmt]):
        yield stmts
        for s in stmts:
            for name in ("body", "orelse", "finalbody"):
                sub = getattr(s, name, None)
                if isinstance(sub, list) and sub and isinstance(sub[0], ast.stmt):
                    yield from blocks(sub)

    found = 0
    for blk in blocks(add.node.body):
        for i, s in enumerate(blk):
            hit = None
            if isinstance(s, ast.Expr) and is_discard(s.value):
                hit = s.value
            elif isinstance(s, ast.If) and any(is_discard(x) for x in ast.walk(s.test)):
                hit = next(x for x in ast.walk(s.test) if is_discard(x))
            if hit is None:
                continue
            found += 1
            ok = False
            for later in blk[i + 1:]:
                if isinstance(later, ast.If) and unparse(later.test) == "self._is_video" and any(
                        unparse(b) == "pli_flag = True" for b in later.body):
                    ok = True
            if ok:
                rep.ok("C10-PLI", f"add(): {unparse(hit)} @ line {hit.lineno}", sample="followed in the same block by `if self._is_video: pli_flag = True`")
            else:
                rep.fail(mk_finding(prog, PROP, "C10-PLI", add, hit, "packets are discarded here but the video key-frame request flag is not raised afterwards"))
    if found < 2:
        raise AnalysisError("discard sites (remove/smart_remove) not found in JitterBuffer.add")
    for n in walk_no_nested(add.node):
        if isinstance(n, ast.Return) and not (isinstance(n.value, ast.Tuple) and unparse(n.value.elts[0]) == "pli_flag"):
            rep.fail(mk_finding(prog, PROP, "C10-PLI", add, n, "add() does not return pli_flag as its first result"))

    # ---- C10-MISORDER (evaluation: the structure of the branch may change, its decision table may not)
    rep.rule("C10-MISORDER", "a late packet is ignored when it is less than 100 positions late and resets the buffer otherwise, whatever the capacity", min_instances=20)
    import itertools as _it0
    from types import SimpleNamespace as _NS0

    from engine.index import Unknown as _U0
    from engine.peval import Evaluator as _Ev0, Raised as _R0

    from .objhook import make_hook as _mk0
    oh0 = _mk0(prog)
    ev0_ = _Ev0(prog, prog.modules["jitterbuffer"], None, {}, oh0)
    for capacity, video, d in _it0.product((16, 128), (True, False), (1, 2, 50, 99, 100, 101, 500, 30000)):
        label = f"capacity {capacity}, {'video' if video else 'audio'}, packet {d} positions late"
        try:
            jb0 = oh0.instantiate(ci, [], dict(capacity=capacity, prefetch=0, is_video=video), ev0_)
            for k in range(3):
                oh0.run_method(add, jb0, [_NS0(sequence_number=(1000 + k) % 65536, timestamp=5000, _data=b"x")], {})
            origin_before = jb0._origin
            late = _NS0(sequence_number=(origin_before - d) % 65536, timestamp=1, _data=b"late")
            r = oh0.run_method(add, jb0, [late], {})
        except (_R0, _U0) as ex:
            raise AnalysisError(f"C10-MISORDER cannot evaluate [{label}]: {ex}")
        reset = jb0._origin == late.sequence_number and all(p is None or p is late for p in jb0._packets)
        ignored = jb0._origin == origin_before and late not in jb0._packets and r[1] is None and not r[0]
        want_reset = d >= 100
        good = (reset and (bool(r[0]) == video)) if want_reset else ignored
        if good:
            rep.ok("C10-MISORDER", label, sample="buffer reset" + (", PLI" if video else "") if want_reset else "ignored")
        else:
            rep.fail(mk_finding(prog, PROP, "C10-MISORDER", add, add.node,
                                f"[{label}] the buffer is {'reset' if reset else ('left alone' if ignored else 'in an unexpected state')} (PLI {bool(r[0])}); the property fixes the threshold "
                                f"at 100 positions independently of the capacity: it must be {'reset' + (' with a key-frame request' if video else '') if want_reset else 'ignored'}",
                                construct=f"late packet threshold ({'>= 100' if want_reset else '< 100'}, capacity {capacity})"))

    # ---- C10-SERIAL (C17 rule set on jitterbuffer.py)
    from . import C17
    sub = Report("C17", tier, 0)
    saved = C17.MODULES
    try:
        C17.MODULES = ["jitterbuffer"]
        try:
            C17.run(sub, prog, tier)
        except AnalysisError:
            pass  # instance minimum of the full C17 run does not apply to one module
    finally:
        C17.MODULES = saved
    rep.rule("C10-SERIAL", "serial-number discipline in jitterbuffer.py", min_instances=4)
    n_ok = sum(r["discharged"] for k, r in sub.rules.items() if k != "C17-HELPERS")
    for f in sub.findings:
        f.property = PROP
        f.rule = "C10-SERIAL/" + f.rule
        rep.fail(f)
    for _ in range(n_ok):
        pass
    rep.rules["C10-SERIAL"]["instances"] += n_ok
    rep.rules["C10-SERIAL"]["discharged"] += n_ok
    rep.obligations += n_ok
    rep.discharged += n_ok
    for s in sub.samples[:2]:
        rep.samples.append(s)

    # ---- C10-FEED
    rep.rule("C10-FEED", "receiver uses add()'s results faithfully and feeds it depayloaded packets only (original codec for retransmissions); the key-frame request goes out for every RTCP SSRC", min_instances=12)
    h = prog.func("rtcrtpreceiver.RTCRtpReceiver._handle_rtp_packet")
    assign = None
    for n in walk_no_nested(h.node):
        if isinstance(n, ast.Assign) and isinstance(n.value, ast.Call) and unparse(n.value.func).endswith("__jitter_buffer.add"):
            assign = n
    if assign is None or not isinstance(assign.targets[0], ast.Tuple) or len(assign.targets[0].elts) != 2:
        raise AnalysisError("jitter buffer add() call not found in _handle_rtp_packet")
    pli_var, frame_var = (unparse(x) for x in assign.targets[0].elts)
    pli_ok = frame_ok = False
    for n in walk_no_nested(h.node):
        if isinstance(n, ast.If) and unparse(n.test) == pli_var and any("_send_rtcp_pli" in unparse(b) for b in n.body):
            pli_ok = True
        if isinstance(n, ast.Call) and unparse(n.func).endswith("__decoder_queue.put") and n.args:
            a = n.args[0]
            if isinstance(a, ast.Tuple) and len(a.elts) == 2 and unparse(a.elts[1]) == frame_var:
                frame_ok = True
    for ok, what, msg in ((pli_ok, "PLI sent iff first result", "the PLI is not sent under exactly add()'s first result"),
                          (frame_ok, "decoder gets second result", "the frame queued for the decoder is not add()'s second result")):
        if ok:
            rep.ok("C10-FEED", f"_handle_rtp_packet: {what}", sample=unparse(assign)[:80])
        else:
            rep.fail(mk_finding(prog, PROP, "C10-FEED", h, assign, msg, construct="feed: " + what))

    # what reaches add(): evaluated on the real _handle_rtp_packet with the jitter buffer, the codec depayloader and the RTCP senders stubbed
    from types import SimpleNamespace as _NSf

    from engine.index import Unknown as _Uf
    from engine.peval import Evaluator as _Evf, Raised as _Rf
    from .objhook import make_hook as _mkf
    fed: list = []

    def _fx(call, evl):
        nm = unparse(call.func)
        if nm.endswith("__jitter_buffer.add"):
            fed.append(evl.ev(call.args[0]))
            return (False, None)
        if nm.endswith("__log_debug") or nm.endswith("_send_rtcp_pli") or nm.endswith("_send_rtcp_nack"):
            return None
        if nm == "depayload":
            codec_, payload_ = evl.ev(call.args[0]), evl.ev(call.args[1])
            if payload_.startswith(b"BAD"):
                raise _Rf("ValueError", call)
            return codec_.name.encode() + b":" + payload_
        if nm in ("clock.current_datetime", "current_datetime"):
            return 0
        if nm == "time.time":
            return 50.0
        if nm == "isinstance" and len(call.args) == 2 and unparse(call.args[1]) in ("int", "str", "bytes"):
            return isinstance(evl.ev(call.args[0]), {"int": int, "str": str, "bytes": bytes}[unparse(call.args[1])])
        return NotImplemented
    fh = _mkf(prog, _fx)
    fev = _Evf(prog, h.module, None, {}, fh)
    me_f = _NSf(__cls__=h.cls, _enabled=True)
    for k_, v_ in {"__remote_bitrate_estimator": None, "__rtcp_ssrc": 7, "__active_ssrc": {}, "__remote_streams": {}, "__rtx_ssrc": {2000: 1000}, "__decoder_thread": None,
                   "__jitter_buffer": _NSf(), "__kind": "video", "__nack_generator": None,
                   "__codecs": {96: _NSf(name="VP8", mimeType="video/VP8", clockRate=90000, parameters={}), 97: _NSf(name="rtx", mimeType="video/rtx", clockRate=90000, parameters={"apt": 96})}}.items():
        setattr(me_f, k_, v_)

    def _fp(pt, ssrc, seq, payload):
        return fh.instantiate(prog.cls("rtp.RtpPacket"), [], dict(payload_type=pt, sequence_number=seq, timestamp=9000, ssrc=ssrc, payload=payload), fev)
    feed_cases = [("a media packet", _fp(96, 1000, 500, b"a"), [(500, b"VP8:a")]),
                  ("a packet whose codec payload does not parse", _fp(96, 1000, 501, b"BAD"), []),
                  ("a retransmission on the RTX stream (original sequence number 502)", _fp(97, 2000, 7001, b"\x01\xf6c"), [(502, b"VP8:c")]),
                  ("a retransmission whose inner payload does not parse", _fp(97, 2000, 7002, b"\x01\xf7BAD"), []),
                  ("a retransmission with a 1-byte payload (too short for the original sequence number)", _fp(97, 2000, 7003, b"\x01"), []),
                  ("a retransmission with an empty payload", _fp(97, 2000, 7004, b""), []),
                  ("an empty media packet (padding probe)", _fp(96, 1000, 504, b""), None)]
    for what, pkt_, want_ in feed_cases:
        del fed[:]
        try:
            fh.run_method(h, me_f, [pkt_, 1], {})
            got_ = [(getattr(x, "sequence_number", None), getattr(x, "_data", "no _data")) for x in fed]
        except _Rf as ex_:
            rep.fail(mk_finding(prog, PROP, "C10-FEED", h, getattr(ex_, "node", None), f"_handle_rtp_packet raises {ex_.name} on {what}", construct=f"feed raises {ex_.name}"))
            continue
        except _Uf as ex_:
            raise AnalysisError(f"C10-FEED cannot evaluate _handle_rtp_packet on {what}: {ex_}")
        if want_ is None:       # empty payload: either skipped or fed with empty data, never without _data
            good = all(d == b"" or isinstance(d, bytes) for _s, d in got_)
        else:
            good = got_ == want_
        if good:
            rep.ok("C10-FEED", f"_handle_rtp_packet on {what}", sample=f"add() receives {got_}")
        else:
            rep.fail(mk_finding(prog, PROP, "C10-FEED", h, assign, f"on {what} the jitter buffer is fed {got_}; expected {want_}: the buffer concatenates `_data` of the packets of a frame, so a packet "
                                "that was not depayloaded (or was depayloaded with the wrong codec) corrupts the frame or makes add() raise", construct="feed: " + what[:50]))

    # the key-frame request itself: sent for every local RTCP SSRC that is set - 0 is a legal SSRC (random32() can return it)
    pli_f = prog.func("rtcrtpreceiver.RTCRtpReceiver._send_rtcp_pli")
    for ssrc_, want_sent in ((1234, True), (0, True), (None, False)):
        sent_: list = []

        def _px(call, evl, sent_=sent_):
            nm = unparse(call.func)
            if nm == "self._send_rtcp":
                sent_.append(evl.ev(call.args[0]))
                return None
            if nm.endswith("__log_debug"):
                return None
            return NotImplemented
        ph_ = _mkf(prog, _px)
        me_p = _NSf(__cls__=pli_f.cls)
        setattr(me_p, "__rtcp_ssrc", ssrc_)
        try:
            ph_.run_method(pli_f, me_p, [4321], {})
        except (_Rf, _Uf) as ex_:
            raise AnalysisError(f"C10-FEED cannot evaluate _send_rtcp_pli: {ex_}")
        ok_ = (len(sent_) == 1 and getattr(sent_[0], "media_ssrc", None) == 4321 and getattr(sent_[0], "ssrc", None) == ssrc_) if want_sent else not sent_
        if ok_:
            rep.ok("C10-FEED", f"_send_rtcp_pli with local RTCP SSRC {ssrc_}", sample="one PLI for the media SSRC" if want_sent else "nothing sent")
        else:
            rep.fail(mk_finding(prog, PROP, "C10-FEED", pli_f, pli_f.node, f"with local RTCP SSRC {ssrc_} the key-frame request sends {len(sent_)} packet(s); expected {'one PLI' if want_sent else 'none'}: "
                                "the buffer threw packets away and the sender is never asked for a key frame", construct=f"PLI with RTCP SSRC {ssrc_}"))

    accept_rule(rep, prog, PROP, "C10-ACCEPT")

    # ---- C10-FRAMES (finite evaluation of add() over enumerated loss-free arrival schedules)
    rep.rule("C10-FRAMES", "loss-free arrival: whole frames, in order, every packet used once", min_instances=60)
    import itertools
    from types import SimpleNamespace

    from engine.index import Unknown
    from engine.peval import Evaluator, Raised

    from .objhook import make_hook
    oh = make_hook(prog)
    evj = Evaluator(prog, prog.modules["jitterbuffer"], None, {}, oh)
    size_sets = [(1, 1, 1, 1), (2, 2, 2, 2), (3, 1, 2, 1), (1, 3, 1, 2), (2, 1, 3, 3), (3, 3, 1, 1), (1, 2, 3, 1),
                 (15, 1, 15, 1), (14, 2, 13, 3), (1, 15, 1, 14)]  # frames that (almost) fill the 16 slots
    if tier == "thorough":
        size_sets = [s + (1,) for s in itertools.product((1, 2, 3), repeat=4)]
    n_sched = 0
    for prefetch, sizes, start, swap in itertools.product((0, 1, 2, 3), size_sets, (0, 65530), (None, 1, 3, "pairs")):
        if max(sizes) > 8 and (prefetch > 1 or swap == "pairs"):
            continue  # (with every pair swapped the packet behind a 15-packet frame overtakes the one that would mark its end: the span exceeds the 16 slots, a discard is forced)  # a prefetch window of several near-capacity frames cannot fit into the 16 slots: the buffer has to drop, nothing to decide
        # packets of consecutive frames; an extra 1-packet frame at the end flushes the previous ones
        pkts = []
        seq = start
        for fi_, n in enumerate(list(sizes) + [1, 1, 1, 1]):
            for k in range(n):
                pkts.append(SimpleNamespace(sequence_number=seq % 65536, timestamp=((1000 if start == 0 else (1 << 32) - 7000) + 3000 * fi_) % (1 << 32), _data=bytes([fi_, k]), frame=fi_))
                seq += 1
        order = list(range(len(pkts)))
        if swap == "pairs":
            for k_ in range(1, len(order) - 1, 2):                            # 0,2,1,4,3,...: every packet after the first displaced by one
                order[k_], order[k_ + 1] = order[k_ + 1], order[k_]
        elif swap is not None and swap + 1 < len(order):
            order[swap], order[swap + 1] = order[swap + 1], order[swap]      # one adjacent reordering
        label = f"prefetch {prefetch}, frame sizes {sizes}, first seq {start}, " + ("in order" if swap is None else "every pair of packets swapped" if swap == "pairs" else f"packets {swap}/{swap + 1} swapped")
        n_sched += 1
        try:
            jb = oh.instantiate(ci, [], dict(capacity=16, prefetch=prefetch, is_video=True), evj)
            out = []
            pli = False
            for i in order:
                r = oh.run_method(add, jb, [pkts[i]], {})
                pli = pli or bool(r[0])
                if r[1] is not None:
                    out.append(r[1])
        except Raised as ex:
            rep.fail(mk_finding(prog, PROP, "C10-FRAMES", add, getattr(ex, "node", None), f"[{label}] add() raises {ex.name}", construct=f"frames raises {ex.name}"))
            continue
        except Unknown as ex:
            raise AnalysisError(f"C10-FRAMES cannot evaluate [{label}]: {ex}")
        want = []
        for fi_ in range(len(sizes) + 4):
            want.append((b"".join(p._data for p in pkts if p.frame == fi_), pkts[[p.frame for p in pkts].index(fi_)].timestamp))
        got = [(f.data, f.timestamp) for f in out]
        problems = []
        if got != want[:len(got)]:
            bad = next(i for i, g in enumerate(got) if i >= len(want) or g != want[i])
            problems.append(f"released frame #{bad} is {got[bad][0].hex()} but frame #{bad} sent was {(want[bad][0].hex() if bad < len(want) else 'nothing')}")
        if len(got) < len(sizes):
            problems.append(f"only {len(got)} of the first {len(sizes)} frames were released although {4} later frames arrived completely")
        if pli:
            problems.append("a key-frame request was raised although nothing was lost")
        if problems:
            rf = prog.func(JB + "._remove_frame")
            rep.fail(mk_finding(prog, PROP, "C10-FRAMES", rf, rf.node, f"[{label}] " + "; ".join(problems), construct="frames: " + problems[0].split(" is ")[0][:40] + f" (prefetch {prefetch})"))
        else:
            rep.ok("C10-FRAMES", label, sample=f"{len(got)} frames released, each complete and in order")

    # ---- C10-OVERFLOW (finite evaluation with losses: a packet lost for good pins the buffer until it overflows)
    rep.rule("C10-OVERFLOW", "losses and overflow: only whole sent frames (or, right after a discard, the tail of one) are released, in sending order, and a key-frame request is raised", min_instances=30)
    pattern = (2, 3, 1, 4, 2, 1, 3)
    n_cases = 0
    combos = [c + (None,) for c in itertools.product((0, 65520), (1, 3), (14, 17, 22), (0, 1, 4, 7), (0, 2))]
    # one packet arrives far too early (2 x capacity or more ahead) while the packets before it keep arriving in order
    combos += [(st_, 1, 30, 0, pf_, (12, ahead)) for st_ in (0, 65520) for pf_ in (0, 2) for ahead in (33, 37, 45)]
    # a stalled head-of-line frame followed by a forward jump whose mandatory eviction ends inside a later frame
    combos += [(st_, 1, g_at, g_, 0, None) for st_ in (0, 65520) for g_at, g_ in ((14, 3), (15, 4), (16, 5), (13, 6))]
    for start, lost_at, gap_at, gap, prefetch, early in combos:
        pkts = []
        seq = start
        fi_ = 0
        while len(pkts) < 60:
            n = pattern[fi_ % len(pattern)]
            for k in range(n):
                pkts.append(SimpleNamespace(sequence_number=seq % 65536, timestamp=(90000 + 3000 * fi_) % (1 << 32), _data=bytes([fi_, k]), frame=fi_))
                seq += 1
            fi_ += 1
        lost = {lost_at} | set(range(gap_at, gap_at + gap))
        label = f"first seq {start}, packet #{lost_at} lost for good, {gap} more lost from #{gap_at}, prefetch {prefetch}" + \
            (f", packet #{early[0] + early[1]} arrives right after #{early[0]}" if early else "")
        order_ = [i for i in range(len(pkts)) if i not in lost]
        if early:
            e_ = early[0] + early[1]
            order_.remove(e_)
            order_.insert(order_.index(early[0]) + 1, e_)
        n_cases += 1
        try:
            jb = oh.instantiate(ci, [], dict(capacity=16, prefetch=prefetch, is_video=True), evj)
            out = []
            pli = False
            since = True  # the first released frame may be a tail (stream start)
            index_of = {id(p_): k_ for k_, p_ in enumerate(pkts)}
            split = None

            def held_() -> set:
                store = next((v for v in vars(jb).values() if isinstance(v, list) and len(v) == 16), None)
                if store is None:
                    raise AnalysisError("C10-OVERFLOW: the packet store of the jitter buffer (a list of `capacity` slots) was not found")
                return {index_of[id(x)] for x in store if x is not None and id(x) in index_of}
            for i in order_:
                p = pkts[i]
                h0 = held_()
                r = oh.run_method(add, jb, [p], {})
                h1 = held_()
                # a discard never separates two held packets of one frame: the head would be thrown away and the tail handed to the decoder
                chunks_ = {r[1].data[x_:x_ + 2] for x_ in range(0, len(r[1].data), 2)} if r[1] is not None else set()
                released_ = {k_ for k_ in h0 | {i} if pkts[k_]._data in chunks_}
                for j in sorted(h0 - h1 - released_):
                    if j + 1 in h0 and (j + 1 in h1 or j + 1 in released_) and pkts[j + 1].frame == pkts[j].frame and split is None:
                        split = (f"when packet #{i} arrived, packet #{j} of frame #{pkts[j].frame} was thrown away while packet #{j + 1} of the same frame "
                                 f"{'was handed to the decoder' if j + 1 in released_ else 'stayed in the buffer'}")
                pli = pli or bool(r[0])
                since = since or bool(r[0])
                if r[1] is not None:
                    out.append((r[1], since))
                    since = False
        except Raised as ex:
            rep.fail(mk_finding(prog, PROP, "C10-OVERFLOW", add, getattr(ex, "node", None), f"[{label}] add() raises {ex.name}", construct=f"overflow raises {ex.name}"))
            continue
        except Unknown as ex:
            raise AnalysisError(f"C10-OVERFLOW cannot evaluate [{label}]: {ex}")
        frames = {}
        for i, p in enumerate(pkts):
            frames.setdefault(p.frame, []).append((i, p))
        problems = []
        last_end = -1
        used = set()
        for fr, discarded_before in out:
            # identify the run of sent packets this frame is made of
            run = None
            for f, v in frames.items():
                datas = [p._data for _i, p in v]
                for a in range(len(v)):
                    if b"".join(datas[a:]) == fr.data and not any(v[x][0] in lost for x in range(a, len(v))):
                        run = (f, a, [v[x][0] for x in range(a, len(v))])
                        break
                if run:
                    break
            if run is None:
                problems.append(f"released {fr.data.hex()}, which is neither a complete sent frame nor the tail of one (hole or splice)")
                break
            f, a, idxs = run
            if a != 0 and not discarded_before:
                problems.append(f"released the tail of frame #{f} although nothing had been discarded since the previous frame")
                break
            if idxs[0] <= last_end or used & set(idxs):
                problems.append(f"frame #{f} released out of order / a packet used twice")
                break
            used |= set(idxs)
            last_end = idxs[-1]
        if split:
            problems.append(split + ": eviction did not stop at a frame boundary")
        if not pli:
            problems.append("packets were discarded but no key-frame request was raised")
        if len(out) < 3 and not early:
            problems.append(f"only {len(out)} frames were released: the buffer did not recover")
        if problems:
            sr = prog.func(JB + ".smart_remove")
            rep.fail(mk_finding(prog, PROP, "C10-OVERFLOW", sr, sr.node, f"[{label}] " + "; ".join(problems), construct="overflow: " + problems[0].split(",")[0].split(" #")[0][:50]))
        else:
            rep.ok("C10-OVERFLOW", label, sample=f"{len(out)} frames released in order (tails only right after a discard), PLI raised")


def accept_rule(rep: Report, prog: Program, PROP: str, RULE: str) -> None:
    """_handle_rtp_packet evaluated with stubbed collaborators: every packet of a negotiated codec - also one with an empty payload
    (padding probe / empty audio frame) and a retransmission carrying one - is handed to JitterBuffer.add() exactly once, with
    its own sequence number and timestamp and the depayloaded data.  A packet dropped between the transport and the buffer is a
    permanent hole in a loss-free stream: frames behind it are withheld until the buffer overflows."""
    from types import SimpleNamespace

    from engine.index import Unknown
    from engine.peval import Evaluator, Raised

    from .objhook import make_hook
    rep.rule(RULE, "every packet of a negotiated codec reaches JitterBuffer.add() exactly once with its own numbers", min_instances=8)
    h = prog.func("rtcrtpreceiver.RTCRtpReceiver._handle_rtp_packet")
    calls: List = []
    sent: List = []

    def extra(call: ast.Call, ev: Evaluator):
        name = unparse(call.func)
        if name.endswith("__jitter_buffer.add"):
            p = ev.ev(call.args[0])
            calls.append(p)
            return (False, None)
        if name.endswith("__log_debug") or name.endswith("__log_warning"):
            return None
        if name.endswith("_send_rtcp_pli") or name.endswith("_send_rtcp_nack") or name.endswith("_send_rtcp"):
            sent.append(name)
            return None
        if name == "depayload":
            payload = ev.ev(call.args[1])
            if payload[:1] == b"\xff":
                raise Raised("ValueError", call)
            return b"D" + payload
        if name in ("clock.current_datetime", "current_datetime"):
            return 0
        if name == "time.time":
            return 100.0
        if name == "isinstance" and len(call.args) == 2 and unparse(call.args[1]) in ("int", "str", "bytes"):
            return isinstance(ev.ev(call.args[0]), {"int": int, "str": str, "bytes": bytes}[unparse(call.args[1])])
        return NotImplemented
    oh = make_hook(prog, extra)
    ev0 = Evaluator(prog, h.module, None, {}, oh)

    def receiver(nack: bool):
        r = SimpleNamespace(__cls__=h.cls)
        r._enabled = True
        for k, v in {"__remote_bitrate_estimator": None, "__rtcp_ssrc": 7, "__active_ssrc": {}, "__remote_streams": {}, "__rtx_ssrc": {2000: 1000},
                     "__decoder_thread": None, "__jitter_buffer": SimpleNamespace(), "__kind": "video"}.items():
            setattr(r, k, v)
        setattr(r, "__codecs", {96: SimpleNamespace(name="VP8", mimeType="video/VP8", clockRate=90000, parameters={}),
                                97: SimpleNamespace(name="rtx", mimeType="video/rtx", clockRate=90000, parameters={"apt": 96})})
        setattr(r, "__nack_generator", oh.instantiate(prog.cls("rtcrtpreceiver.NackGenerator"), [], {}, ev0) if nack else None)
        return r

    def packet(pt, ssrc, seq, ts, payload):
        p = oh.instantiate(prog.cls("rtp.RtpPacket"), [], dict(payload_type=pt, sequence_number=seq, timestamp=ts, ssrc=ssrc, payload=payload), ev0)
        return p
    cases = [
        ("media packet", packet(96, 1000, 500, 9000, b"abc"), (500, 9000, b"Dabc")),
        ("media packet with an empty payload (padding probe)", packet(96, 1000, 501, 9000, b""), (501, 9000, b"")),
        ("media packet, sequence number 0", packet(96, 1000, 0, 0, b"x"), (0, 0, b"Dx")),
        ("retransmission", packet(97, 2000, 77, 9000, b"\x01\xf4abc"), (500, 9000, b"Dabc")),
        ("retransmission of an empty packet", packet(97, 2000, 78, 9000, b"\x01\xf5"), (501, 9000, b"")),
        ("retransmission with original sequence number 0", packet(97, 2000, 79, 12000, b"\x00\x00q"), (0, 12000, b"Dq")),
    ]
    for nack in (False, True):
        for label, pkt, (seq, ts, data) in cases:
            label = f"{label}, NACK generator {'on' if nack else 'off'}"
            del calls[:]
            try:
                oh.run_method(h, receiver(nack), [pkt, 1234], {})
            except Raised as ex:
                rep.fail(mk_finding(prog, PROP, RULE, h, getattr(ex, "node", None), f"[{label}] _handle_rtp_packet raises {ex.name}", construct=f"accept raises {ex.name}"))
                continue
            except Unknown as ex:
                raise AnalysisError(f"{RULE}: cannot evaluate _handle_rtp_packet [{label}]: {ex}")
            got = [(p.sequence_number, p.timestamp, getattr(p, "_data", None)) for p in calls]
            if got == [(seq, ts, data)]:
                rep.ok(RULE, label, sample=f"add() called once with seq {seq}, ts {ts}, data {data!r}")
            else:
                rep.fail(mk_finding(prog, PROP, RULE, h, h.node, f"[{label}] JitterBuffer.add() receives {got or 'nothing'}; expected exactly one packet (seq {seq}, ts {ts}, data {data!r}): "
                                    "a dropped packet is a permanent hole in a loss-free stream", construct=f"accept: {label.split(',')[0]}"))
