"""C14 — JSEP signalling state machine; illegal calls have no side effects.

  C14-TABLE   the state/type guard of __validate_description and the guard of createAnswer, evaluated over
              {local,remote} x {offer,answer} x 6 signalling states, equal the JSEP table; __assertNotClosed
              is the first statement of the five mutating API entry points
  C14-NEXT    the literal passed to __setSignalingState after validation, per (side, type)
  C14-ATOMIC  every write to signalingState / the four description slots in setLocal/RemoteDescription is
              dominated by the __validate_description call; nothing called before it may write them
  C14-MATCH   the answer/offer m-line comparison is order- and multiplicity-sensitive
  C14-CLOSED  close() latches __isClosed before its first suspension point and returns early when latched
  C14-SLOTS   the 'replace description' step evaluated per type: answer -> current := new, pending := None; offer -> pending := new
  C14-VALID   the per-section structural checks evaluated for audio / video / application sections x defect (ICE ufrag or password
              missing, answer with role actpass, rtcp-mux missing): ValueError exactly for the defective descriptions
Does not decide: pranswer/rollback, side effects on objects other than the five slots.
"""
from __future__ import annotations

import ast
import itertools
from types import SimpleNamespace
from typing import Any, Dict, List, Optional, Set, Tuple

from engine.absint import Absint, Config
from engine.events import EventsDomain, EvState, call_name
from engine.index import AnalysisError, Program, Unknown, unparse, walk_no_nested
from engine.peval import Evaluator, Raised, Ret
from engine.report import Report, mk_finding

PROP = "C14"
PC = "rtcpeerconnection.RTCPeerConnection"
STATES = ["stable", "have-local-offer", "have-remote-offer", "have-local-pranswer", "have-remote-pranswer", "closed"]
JSEP = {  # (is_local, type) -> states in which the description is acceptable (RFC 8829 5.5/5.6)
    (True, "offer"): {"stable", "have-local-offer"},
    (True, "answer"): {"have-remote-offer", "have-local-pranswer"},
    (False, "offer"): {"stable", "have-remote-offer"},
    (False, "answer"): {"have-local-offer", "have-remote-pranswer"},
}
NEXT = {(True, "offer"): "have-local-offer", (True, "answer"): "stable", (False, "offer"): "have-remote-offer", (False, "answer"): "stable"}
SLOTS = {"__signalingState", "__currentLocalDescription", "__currentRemoteDescription", "__pendingLocalDescription",
         "__pendingRemoteDescription"}
ENTRY_POINTS = ["createOffer", "createAnswer", "setLocalDescription", "addTrack", "addTransceiver"]


def _body(fi) -> List[ast.stmt]:
    b = list(fi.node.body)
    if b and isinstance(b[0], ast.Expr) and isinstance(b[0].value, ast.Constant) and isinstance(b[0].value.value, str):
        b = b[1:]
    return b


def _raises_invalid_state(stmts: List[ast.stmt]) -> bool:
    for s in stmts:
        for n in ast.walk(s):
            if isinstance(n, ast.Raise) and n.exc is not None and "InvalidStateError" in unparse(n.exc):
                return True
    return False


def _guard_eval(prog: Program, fi, env: Dict[str, Any], hook) -> Tuple[str, Optional[ast.AST]]:
    """Run the leading guard statements of `fi` under env.
    -> ('raise:<Exc>', node) | ('pass', None) | ('opaque-guard', node)"""
    ev = Evaluator(prog, fi.module, fi.cls, env, hook)
    for s in _body(fi):
        try:
            ev.exec_stmt(s)
        except Raised as r:
            return "raise:" + r.name.split(".")[-1], r.node
        except Ret:
            return "pass", None
        except Unknown:
            # a guard whose condition is not a function of the signalling state is a violation; anything else
            # means the guard prefix is over
            if isinstance(s, ast.If) and _raises_invalid_state([s]):
                return "opaque-guard", s
            return "pass", None
    return "pass", None


def run(rep: Report, prog: Program, tier: str) -> None:
    rep.explanation = (
        "The state guards of the JSEP entry points are extracted by evaluating their guard expressions (AST-level, pure "
        "fragment) for every cell of the finite domain side x type x signalling state and compared with the RFC 8829 table; "
        "ordering clauses (validate-before-mutate, latch-before-await) are decided by a must-event analysis on every path of "
        "the function bodies; transitive may-write sets come from the call graph. Decides these clauses for all call sequences "
        "only in so far as the guards and next-state literals determine the state machine."
    )
    rep.assumptions += ["JSEP acceptance table and next-state table hard-coded from RFC 8829", "pranswer / rollback are outside the property's alphabet"]
    ci = prog.cls(PC)
    validate = prog.func(PC + ".__validate_description")
    create_answer = prog.func(PC + ".createAnswer")
    assert_nc = prog.func(PC + ".__assertNotClosed")

    def hook(call: ast.Call, ev: Evaluator) -> Any:
        name = unparse(call.func)
        if name == "self.__assertNotClosed":
            sub = Evaluator(prog, assert_nc.module, ci, ev.env, hook)
            sub.exec_block(_body(assert_nc))  # may raise Raised
            return None
        if name in ("self.__remoteDescription", "self.__localDescription"):
            return ev.env.get("@offer")
        return NotImplemented

    # ---------------- C14-TABLE: __validate_description
    rep.rule("C14-TABLE", "state/type guards equal the JSEP table", min_instances=30)
    for is_local in (True, False):
        for typ in ("offer", "answer"):
            for state in STATES:
                desc = SimpleNamespace(type=typ, media=[])
                env = {"self.signalingState": state, "is_local": is_local, "description": desc,
                       "@offer": SimpleNamespace(media=[]), "self.__isClosed": state == "closed"}
                got, node = _guard_eval(prog, validate, env, hook)
                want = "pass" if state in JSEP[(is_local, typ)] else "raise:InvalidStateError"
                cell = f"{'setLocal' if is_local else 'setRemote'}({typ}) in state {state}"
                if got == want:
                    rep.ok("C14-TABLE", cell, sample=f"__validate_description -> {got}")
                else:
                    rep.fail(mk_finding(prog, PROP, "C14-TABLE", validate, node or validate.node,
                                        f"{cell}: __validate_description {got if got != 'pass' else 'accepts the description'}; JSEP requires "
                                        f"{'acceptance' if want == 'pass' else 'InvalidStateError'}", construct=f"validate cell {cell}"))
    # createAnswer guard
    for state in STATES:
        env = {"self.signalingState": state, "self.__isClosed": state == "closed"}
        got, node = _guard_eval(prog, create_answer, env, hook)
        want = "pass" if state in JSEP[(True, "answer")] else "raise:InvalidStateError"
        cell = f"createAnswer() in state {state}"
        if got == want:
            rep.ok("C14-TABLE", cell, sample=f"guard -> {got}")
        elif got == "opaque-guard":
            rep.fail(mk_finding(prog, PROP, "C14-TABLE", create_answer, node,
                                f"{cell}: the InvalidStateError guard `{unparse(node.test)}` is not a function of the signalling state; "
                                f"an answer can then be created without a pending offer", construct=f"createAnswer guard {unparse(node.test)}"))
        else:
            rep.fail(mk_finding(prog, PROP, "C14-TABLE", create_answer, node or create_answer.node,
                                f"{cell}: guard gives {got}; JSEP requires {'acceptance' if want == 'pass' else 'InvalidStateError'}",
                                construct=f"createAnswer cell {cell}"))
    # __assertNotClosed first
    for name in ENTRY_POINTS:
        fi = prog.func(f"{PC}.{name}")
        b = _body(fi)
        first = unparse(b[0]) if b else ""
        if first == "self.__assertNotClosed()":
            rep.ok("C14-TABLE", f"{name}: first statement is __assertNotClosed()", sample="closed is absorbing for this entry point")
        else:
            rep.fail(mk_finding(prog, PROP, "C14-TABLE", fi, b[0] if b else fi.node,
                                f"{name} does not start with self.__assertNotClosed(): negotiation after close() is not rejected up front",
                                construct=f"{name}: first statement"))
    # closed evaluates to raise in assertNotClosed
    for closed in (True, False):
        ev = Evaluator(prog, assert_nc.module, ci, {"self.__isClosed": closed})
        try:
            ev.exec_block(_body(assert_nc))
            got = "pass"
        except Raised as r:
            got = "raise:" + r.name.split(".")[-1]
        want = "raise:InvalidStateError" if closed else "pass"
        if got == want:
            rep.ok("C14-TABLE", f"__assertNotClosed with closed={closed}", sample=got)
        else:
            rep.fail(mk_finding(prog, PROP, "C14-TABLE", assert_nc, assert_nc.node, f"__assertNotClosed with closed={closed} gives {got}"))

    # ---------------- C14-NEXT and C14-ATOMIC (must-event analysis)
    rep.rule("C14-NEXT", "next signalling state literal per (side, type)", min_instances=4)
    rep.rule("C14-ATOMIC", "validate-before-mutate", min_instances=10)
    ai = Absint(prog, Config())

    def attr_name(n: ast.AST) -> Optional[str]:
        if isinstance(n, ast.Attribute) and isinstance(n.value, ast.Name) and n.value.id == "self":
            return n.attr
        return None

    set_state = prog.func(PC + ".__setSignalingState")
    w, _ = ai.writes(set_state)
    if "__signalingState" not in w:
        raise AnalysisError("__setSignalingState no longer writes __signalingState")

    for fname, is_local in (("setLocalDescription", True), ("setRemoteDescription", False)):
        fi = prog.func(f"{PC}.{fname}")
        seen_next: Dict[str, Set[str]] = {}
        validated_calls = 0

        def event_of(node: ast.AST, f) -> List[str]:
            if isinstance(node, (ast.Call, ast.Await)) and call_name(node) == "self.__validate_description":
                return ["validated"]
            return []

        def observe(node: ast.AST, st: EvState, f) -> None:
            nonlocal validated_calls
            if isinstance(node, ast.Call):
                cn = call_name(node)
                if cn == "self.__validate_description":
                    validated_calls += 1
                if cn == "self.__setSignalingState":
                    ok = "validated" in st.events
                    lit = prog.try_const(node.args[0], f.module, f.cls) if node.args else None
                    typ = None
                    for g, t in st.guards:
                        if t and g.replace('"', "'") in ("description.type == 'offer'", "description.type == 'answer'"):
                            typ = g.split("'")[1] if "'" in g else g.split('"')[1]
                    seen_next.setdefault(typ or "?", set()).add(str(lit))
                    if ok:
                        rep.ok("C14-ATOMIC", f"{fname}: {unparse(node)}", sample="dominated by __validate_description")
                    else:
                        rep.fail(mk_finding(prog, PROP, "C14-ATOMIC", f, node,
                                            "signalling state is changed on a path that has not passed __validate_description: an illegal "
                                            "call would leave side effects"))
                elif "validated" not in st.events and cn.startswith("self.") and cn != "self.__validate_description":
                    # callee before validation must not write the slots
                    for cs in ai.cg.sites(f):
                        if cs.node is node:
                            for tg in cs.targets:
                                ws, _all = ai.writes(tg)
                                hit = sorted(SLOTS & set(ws))
                                # createOffer/createAnswer are API calls of their own (implicit description): they may not write either
                                if hit:
                                    rep.fail(mk_finding(prog, PROP, "C14-ATOMIC", f, node,
                                                        f"`{cn}` is called before validation and may write {hit}"))
                                else:
                                    rep.ok("C14-ATOMIC", f"{fname}: pre-validation call {cn}", sample="transitive may-write set misses the five slots")
            elif isinstance(node, (ast.Assign, ast.AugAssign, ast.AnnAssign)):
                tgts = node.targets if isinstance(node, ast.Assign) else [node.target]
                for t in tgts:
                    a = attr_name(t)
                    if a in SLOTS:
                        if "validated" in st.events:
                            rep.ok("C14-ATOMIC", f"{fname}: {unparse(node)}", sample="dominated by __validate_description")
                        else:
                            rep.fail(mk_finding(prog, PROP, "C14-ATOMIC", f, node,
                                                f"`self.{a}` is assigned on a path that has not passed __validate_description"))

        dom = EventsDomain(prog, event_of, observe)
        dom.run(fi)
        if validated_calls == 0:
            raise AnalysisError(f"{fname} no longer calls __validate_description")
        for typ in ("offer", "answer"):
            got = seen_next.get(typ, set())
            want = NEXT[(is_local, typ)]
            what = f"{fname}({typ}) -> {sorted(got)}"
            if got == {want}:
                rep.ok("C14-NEXT", what, sample=f"JSEP next state {want}")
            else:
                rep.fail(mk_finding(prog, PROP, "C14-NEXT", fi, fi.node,
                                    f"after a valid {typ} the signalling state is set to {sorted(got) or 'nothing'}; JSEP requires {want}",
                                    construct=f"{fname} next state for {typ}"))
        extra = {k: v for k, v in seen_next.items() if k not in ("offer", "answer")}
        if extra:
            rep.fail(mk_finding(prog, PROP, "C14-NEXT", fi, fi.node, f"signalling state set outside the offer/answer branches: {extra}",
                                construct=f"{fname} unguarded next state"))
    # __validate_description itself writes nothing
    wv, _ = ai.writes(validate)
    hit = sorted(SLOTS & set(wv))
    if hit:
        rep.fail(mk_finding(prog, PROP, "C14-ATOMIC", validate, validate.node, f"__validate_description may write {hit}", construct="validate writes"))
    else:
        rep.ok("C14-ATOMIC", "__validate_description: transitive may-write set", sample="misses the five slots")
    # the only other literal is "closed", only in close()
    for fi in prog.iter_functions(["rtcpeerconnection"]):
        for n in walk_no_nested(fi.node):
            if isinstance(n, ast.Call) and call_name(n) == "self.__setSignalingState" and fi.name not in ("setLocalDescription", "setRemoteDescription"):
                lit = prog.try_const(n.args[0], fi.module, fi.cls) if n.args else None
                if fi.name == "close" and lit == "closed":
                    rep.ok("C14-NEXT", "close(): __setSignalingState('closed')", sample="only other writer")
                else:
                    rep.fail(mk_finding(prog, PROP, "C14-NEXT", fi, n, f"unexpected signalling state write {lit!r} in {fi.name}"))

    # ---------------- C14-MATCH
    rep.rule("C14-MATCH", "answer/offer m-line comparison is order sensitive", min_instances=1)
    defs: Dict[str, ast.expr] = {}
    for n in walk_no_nested(validate.node):
        if isinstance(n, ast.Assign) and len(n.targets) == 1 and isinstance(n.targets[0], ast.Name):
            defs[n.targets[0].id] = n.value
    found = 0
    for n in walk_no_nested(validate.node):
        if isinstance(n, ast.If) and isinstance(n.test, ast.Compare) and any(
                isinstance(x, ast.Raise) and "ValueError" in unparse(x) for x in n.body):
            operands = [n.test.left] + list(n.test.comparators)
            exprs = [defs.get(o.id, o) if isinstance(o, ast.Name) else o for o in operands]
            if not any(".media" in unparse(x) for x in exprs):
                continue
            found += 1
            bad = None
            for x in exprs:
                for sub in ast.walk(x):
                    if isinstance(sub, (ast.SetComp, ast.Set, ast.DictComp)):
                        bad = sub
                    if isinstance(sub, ast.Call) and isinstance(sub.func, ast.Name) and sub.func.id in ("set", "frozenset", "sorted", "Counter", "dict"):
                        bad = sub
            if not all(isinstance(op, (ast.Eq, ast.NotEq)) for op in n.test.ops):
                bad = n.test
            if bad is not None:
                rep.fail(mk_finding(prog, PROP, "C14-MATCH", validate, n,
                                    f"the media sections of answer and offer are compared through `{unparse(bad)[:60]}`, which forgets order or "
                                    f"multiplicity: a permuted or duplicated answer is accepted", construct="media section match " + unparse(n.test)))
            else:
                rep.ok("C14-MATCH", f"__validate_description: {unparse(n.test)}", sample="ordered sequences compared with ==/!=")
    if not found:
        raise AnalysisError("m-line match check not found in __validate_description")

    # ---------------- C14-CLOSED
    rep.rule("C14-CLOSED", "close() is latched before its first suspension point", min_instances=2)
    close = prog.func(PC + ".close")
    b = _body(close)
    first_ok = bool(b) and isinstance(b[0], ast.If) and unparse(b[0].test) == "self.__isClosed" and \
        isinstance(b[0].body[-1], ast.Return)
    if first_ok:
        rep.ok("C14-CLOSED", "close(): early return when already closed", sample="if self.__isClosed: ...; return")
    else:
        rep.fail(mk_finding(prog, PROP, "C14-CLOSED", close, b[0] if b else close.node, "close() does not start with the `if self.__isClosed: ... return` latch test",
                            construct="close latch test"))
    awaits_before = []
    awaits_before_sig = []

    def ev2(node, f):
        if isinstance(node, (ast.Assign, ast.AnnAssign)):
            tg = node.targets if isinstance(node, ast.Assign) else [node.target]
            if any(attr_name(t) == "__isClosed" for t in tg):
                return ["latched"]
        if isinstance(node, ast.Call) and unparse(node.func) == "self.__setSignalingState" and node.args and isinstance(node.args[0], ast.Constant) and node.args[0].value == "closed":
            return ["signaling-closed"]
        return []

    def ob2(node, st, f):
        if isinstance(node, ast.Await) and "latched" not in st.events and not st.has_guard("self.__isClosed", True):
            awaits_before.append(node)
        # setRemoteDescription / setLocalDescription are fenced off a closing connection only by `closed` being absent from the state table
        if isinstance(node, ast.Await) and "latched" in st.events and "signaling-closed" not in st.events:
            awaits_before_sig.append(node)

    EventsDomain(prog, ev2, ob2).run(close)
    if awaits_before:
        rep.fail(mk_finding(prog, PROP, "C14-CLOSED", close, awaits_before[0], "close() suspends before latching __isClosed: a concurrent close() would run the teardown twice"))
    else:
        rep.ok("C14-CLOSED", "close(): __isClosed assigned before the first await of the teardown", sample="must-event analysis over all paths")
    if awaits_before_sig:
        rep.fail(mk_finding(prog, PROP, "C14-CLOSED", close, awaits_before_sig[0], "close() suspends before signalingState is `closed`: a description that arrives while the teardown is suspended passes the "
                            "state table of __validate_description and is applied to the closing connection", construct="close suspends before signalingState is closed"))
    else:
        rep.ok("C14-CLOSED", "close(): signalingState is `closed` before the first await of the teardown", sample="must-event analysis over all paths")

    # ---------------- C14-SLOTS (shared with C03)
    from .common import description_slots_rule
    description_slots_rule(rep, prog, PROP, "C14-SLOTS")

    # ---------------- C14-VALID: the per-section structural checks, evaluated for every section kind and defect
    rep.rule("C14-VALID", "defective descriptions are rejected with ValueError whatever the kind of the defective section", min_instances=30)
    from types import SimpleNamespace as _NS
    val_f = prog.func(PC + ".__validate_description")
    loops = [n for n in val_f.node.body if isinstance(n, ast.For) and unparse(n.iter) == "description.media"]
    if not loops:
        raise AnalysisError("__validate_description: per-section loop `for media in description.media` not found at the top level")
    all_loops = ast.Module(body=list(loops), type_ignores=[])      # several per-section loops are evaluated one after the other, in source order

    def section(kind: str, **defect) -> Any:
        m = _NS(kind=kind, ice=_NS(usernameFragment="ufrag", password="pwd"), dtls=_NS(role="client"), rtcp_mux=(kind != "application"),
                rtp=_NS(muxId="0"))
        for k, v in defect.items():
            tgt, attr = (m, k) if "." not in k else (getattr(m, k.split(".")[0]), k.split(".")[1])
            setattr(tgt, attr, v)
        return m
    init_f = prog.func(PC + ".__init__")
    _hist_cache: Dict[str, Any] = {}

    def _histories(stmt: ast.stmt, env: Dict[str, Any]):
        """(label, self object) pairs: the fields of the connection that `stmt` reads, as __init__ leaves them and as an earlier negotiation leaves them."""
        fields = sorted({n.attr for n in ast.walk(stmt) if isinstance(n, ast.Attribute) and isinstance(n.value, ast.Name) and n.value.id == "self"
                         and isinstance(n.ctx, ast.Load) and not any(isinstance(p, ast.Call) and p.func is n for p in ast.walk(stmt))})
        if not fields:
            return [("", _NS())]
        variants: List[List[Any]] = []
        for f in fields:
            if f not in _hist_cache:
                init = next((x for x in walk_no_nested(init_f.node) if isinstance(x, (ast.Assign, ast.AnnAssign))
                             and any(isinstance(t, ast.Attribute) and t.attr == f for t in (x.targets if isinstance(x, ast.Assign) else [x.target]))), None)
                if init is None or init.value is None:
                    raise AnalysisError(f"C14-VALID: the section loop reads self.{f}, which __init__ does not initialise")
                v = init.value
                if isinstance(v, ast.Dict) and not v.keys:
                    _hist_cache[f] = [("{}", dict), ("non-empty", lambda: {"earlier": "earlier"})]
                elif isinstance(v, ast.List) and not v.elts:
                    _hist_cache[f] = [("[]", list), ("non-empty", lambda: ["earlier"])]
                elif isinstance(v, ast.Call) and unparse(v.func) == "set" and not v.args:
                    _hist_cache[f] = [("set()", set), ("non-empty", lambda: {"earlier"})]
                elif isinstance(v, ast.Constant) and v.value is None:
                    _hist_cache[f] = [("None", lambda: None), ("set", lambda: _NS())]
                elif isinstance(v, ast.Constant) and isinstance(v.value, bool):
                    _hist_cache[f] = [("False", lambda: False), ("True", lambda: True)]
                else:
                    raise AnalysisError(f"C14-VALID: the section loop reads self.{f} (initialised as `{unparse(v)[:40]}`): no history domain for it")
            variants.append([(f, lab, mkv) for lab, mkv in _hist_cache[f]])
        out = []
        import itertools as _it
        for combo in _it.product(*variants):
            o = _NS()
            for f, lab, mkv in combo:
                setattr(o, f, mkv())
            out.append((", ".join(f"self.{f} {lab}" for f, lab, _ in combo), o))
        return out
    cases = []
    for kind in ("audio", "video", "application"):
        for typ in ("offer", "answer"):
            cases.append((kind, typ, "well-formed", {}, False))
            cases.append((kind, typ, "ICE username fragment missing", {"ice.usernameFragment": None}, True))
            cases.append((kind, typ, "ICE password missing", {"ice.password": ""}, True))
            cases.append((kind, typ, "DTLS role auto (actpass)", {"dtls.role": "auto"}, typ == "answer"))
            cases.append((kind, typ, "no a=setup line at all (the parser leaves the DTLS parameters unset)", {"dtls": None}, True))
            if kind != "application":
                cases.append((kind, typ, "rtcp-mux missing", {"rtcp_mux": False}, True))
    for kind, typ, what, defect, want_reject in cases:
        for position in (0, 1):
            good = section("audio")
            bad = section(kind, **defect)
            media = [bad, good] if position == 0 else [good, bad]
            label = f"{typ}: {kind} section #{position} {what}"
            # the verdict may not depend on what the connection has been through: every field of the connection the loop reads is tried
            # both as __init__ leaves it and as it looks after an earlier negotiation
            verdicts = []
            for hist_label, self_obj in _histories(all_loops, {"description": _NS(type=typ, media=media), "is_local": False}):
                ev4 = Evaluator(prog, val_f.module, val_f.cls, {"description": _NS(type=typ, media=media), "self": self_obj, "is_local": False})
                try:
                    from .common import run_prelude
                    run_prelude(ev4, val_f.node, loops[0])
                    ev4.exec_block(loops)
                    rejected = False
                except Raised as ex:
                    rejected = ex.name
                except Unknown as ex:
                    raise AnalysisError(f"C14-VALID cannot evaluate the section loop: {ex}")
                verdicts.append((hist_label, rejected))
            wrong = [(h, r) for h, r in verdicts if not (want_reject and r == "ValueError" or (not want_reject and r is False))]
            if not wrong:
                rep.ok("C14-VALID", label, sample=("ValueError" if want_reject else "accepted") + (f" in {len(verdicts)} connection histories" if len(verdicts) > 1 else ""))
            else:
                h, rejected = wrong[0]
                rep.fail(mk_finding(prog, PROP, "C14-VALID", val_f, loops[0],
                                    f"{label}{' [' + h + ']' if h else ''}: the description is {'accepted' if rejected is False else 'rejected with ' + str(rejected)}; it must be "
                                    f"{'rejected with ValueError before any state changes' if want_reject else 'accepted'}", construct=f"validation of {kind} sections: {what}"))

    # ---------------- C14-ABSORB: `closed` is absorbing at the setter, whatever call resumes later
    rep.rule("C14-ABSORB", "__setSignalingState never leaves `closed`", min_instances=5)
    setter = prog.func(PC + ".__setSignalingState")
    for target in ("stable", "have-local-offer", "have-remote-offer", "closed", "have-local-pranswer"):
        emitted = []

        def hk_(call, ev, emitted=emitted):
            if unparse(call.func) == "self.emit":
                emitted.append(ev.ev(call.args[0]))
                return None
            return NotImplemented
        me = SimpleNamespace(**{"__signalingState": "closed"})
        ev6 = Evaluator(prog, setter.module, setter.cls, {"self": me, "state": target}, hk_)
        try:
            ev6.exec_block(setter.node.body)
        except Ret:
            pass
        except (Raised, Unknown) as ex:
            raise AnalysisError(f"C14-ABSORB cannot evaluate __setSignalingState: {ex}")
        if getattr(me, "__signalingState") == "closed" and (not emitted or target == "closed"):
            rep.ok("C14-ABSORB", f"closed -> {target}", sample="state stays closed" + ("" if emitted else ", no event"))
        else:
            rep.fail(mk_finding(prog, PROP, "C14-ABSORB", setter, setter.node, f"__setSignalingState({target!r}) on a closed connection sets the state to "
                                f"{getattr(me, '__signalingState')!r} / emits {emitted}: a negotiation call that was suspended when close() ran resurrects the connection",
                                construct="closed not absorbing"))

    # ---------------- C14-EARLY: setLocalDescription publishes the new state before it suspends
    rep.rule("C14-EARLY", "setLocalDescription updates signalingState before its first suspension point after validation", min_instances=1)
    sl_f = prog.func(PC + ".setLocalDescription")

    def ev_early(node, f):
        if isinstance(node, ast.Call):
            nm = unparse(node.func)
            if nm == "self.__validate_description":
                return ["validated", "-suspended"]
            if nm == "self.__setSignalingState":
                return ["state-set"]
        if isinstance(node, ast.Await):
            return ["suspended"]
        return []
    sites_e = []

    def ob_early(node, st, f):
        if isinstance(node, ast.Call) and unparse(node.func) == "self.__setSignalingState":
            sites_e.append((node, "validated" in st.events, "suspended" in st.events))
    # `suspended` is a may-fact here: use a separate pass that records whether an await lies textually between validation and the setter calls
    val_calls = [n for n in walk_no_nested(sl_f.node) if isinstance(n, ast.Call) and unparse(n.func) == "self.__validate_description"]
    set_calls = [n for n in walk_no_nested(sl_f.node) if isinstance(n, ast.Call) and unparse(n.func) == "self.__setSignalingState"]
    if len(val_calls) != 1 or not set_calls:
        raise AnalysisError("setLocalDescription: validation / state update not found")
    awaits_between = [n for n in walk_no_nested(sl_f.node) if isinstance(n, ast.Await) and val_calls[0].lineno < n.lineno < min(c.lineno for c in set_calls)]
    if not awaits_between:
        rep.ok("C14-EARLY", "setLocalDescription: no await between __validate_description and __setSignalingState", sample=f"{len(set_calls)} state update(s)")
    else:
        rep.fail(mk_finding(prog, PROP, "C14-EARLY", sl_f, awaits_between[0], "setLocalDescription suspends between validating the description and publishing the new signalling state: a call made "
                            "in that window (a remote offer, close()) is validated against the stale state", construct="await before state update"))

    # ---------------- C14-REF: the answer is matched against the *pending* offer (after a role switch the current descriptions are the previous round's)
    rep.rule("C14-REF", "an answer is matched against the pending offer of the other side, not against the previous round", min_instances=8)
    match_ifs = [n for n in validate.node.body if isinstance(n, ast.If) and "answer" in unparse(n.test) and any(isinstance(x, ast.Raise) for x in ast.walk(n)) and ".media" in unparse(n)]
    if len(match_ifs) != 1:
        raise AnalysisError("__validate_description: the answer / offer media-section match block not found at the top level")
    mblock = match_ifs[0]

    def sd_(*sections):
        return SimpleNamespace(media=[SimpleNamespace(kind=k, rtp=SimpleNamespace(muxId=m)) for k, m in sections])
    old_round = sd_(("audio", "0"))
    new_offer = sd_(("audio", "0"), ("video", "1"))
    acc_l, acc_r = prog.func(PC + ".__localDescription"), prog.func(PC + ".__remoteDescription")

    def hk7(call, ev):
        nm = unparse(call.func)
        me_ = ev.env.get("self")
        if nm in ("self.__localDescription", "self.__remoteDescription"):
            fi_ = acc_l if nm.endswith("__localDescription") else acc_r
            sub = Evaluator(prog, fi_.module, fi_.cls, {"self": me_}, hk7)
            try:
                sub.exec_block(fi_.node.body)
            except Ret as r:
                return r.value
            return None
        return NotImplemented
    for is_local, typ in itertools.product((True, False), ("answer", "pranswer")):
        for label, pending, current, answer, want_ok in (
                ("answer to the pending offer, previous round differs", new_offer, old_round, sd_(("audio", "0"), ("video", "1")), True),
                ("answer that only matches the previous round", new_offer, old_round, sd_(("audio", "0")), False),
                ("first round (nothing current yet)", new_offer, None, sd_(("audio", "0"), ("video", "1")), True),
                ("first round, truncated answer", new_offer, None, sd_(("audio", "0")), False)):
            # a local answer answers the remote offer and vice versa
            slots = {"__pendingLocalDescription": None, "__currentLocalDescription": None, "__pendingRemoteDescription": None, "__currentRemoteDescription": None}
            side = "Remote" if is_local else "Local"
            slots[f"__pending{side}Description"] = pending
            slots[f"__current{side}Description"] = current
            me7 = SimpleNamespace(**slots)
            answer.type = typ
            ev7 = Evaluator(prog, validate.module, validate.cls, {"self": me7, "description": answer, "is_local": is_local}, hk7)
            try:
                from .common import run_prelude
                run_prelude(ev7, validate.node, mblock)
                ev7.exec_stmt(mblock)
                accepted = True
            except Raised as ex:
                accepted = False if "ValueError" in ex.name else None
            except Unknown as ex:
                raise AnalysisError(f"C14-REF cannot evaluate the match block: {ex}")
            what = f"{'local' if is_local else 'remote'} {typ}: {label}"
            if accepted == want_ok:
                rep.ok("C14-REF", what, sample="accepted" if want_ok else "ValueError")
            else:
                rep.fail(mk_finding(prog, PROP, "C14-REF", validate, mblock, f"{what}: the description is {'accepted' if accepted else 'rejected'}; it must be "
                                    f"{'accepted' if want_ok else 'rejected with ValueError'} — the reference must be the pending offer, falling back to the current description only when none is pending",
                                    construct="answer reference: " + label[:50]))

    # ---------------- C14-TYPE: the constructor gate - the state table above only knows 'offer' and 'answer'; anything else that got past the constructor
    # would be applied with no state check at all
    rep.rule("C14-TYPE", "RTCSessionDescription accepts exactly the four SDP types; the state table covers every type that reaches it", min_instances=10)
    sd_cls = prog.cls("rtcsessiondescription.RTCSessionDescription")
    post = prog.find_method(sd_cls, "__post_init__")
    if post is None:
        raise AnalysisError("RTCSessionDescription.__post_init__ (type check) not found")
    from .objhook import make_hook as _mkh
    th = _mkh(prog)
    legal = ["offer", "pranswer", "answer", "rollback"]
    illegal = ["", " ", "r", "offe", "ffer", "swer", "answer rollback", "offer ", " offer", "Offer", "ANSWER", "bogus", "pranswerx", "roll back", "offer\n"]
    for t in legal + illegal:
        obj = _NS(__cls__=sd_cls, sdp="v=0\r\n", type=t)
        try:
            th.run_method(post, obj, [], {})
            res = "accepted"
        except Raised as ex:
            res = ex.name
        except Unknown as ex:
            raise AnalysisError(f"C14-TYPE cannot evaluate __post_init__ for type {t!r}: {ex}")
        want = "accepted" if t in legal else "ValueError"
        if res == want:
            rep.ok("C14-TYPE", f"type {t!r}: {want}")
        else:
            rep.fail(mk_finding(prog, PROP, "C14-TYPE", post, post.node, f"RTCSessionDescription(type={t!r}) is {res}, expected {want}: a description whose type is neither 'offer' nor "
                                "'answer' passes __validate_description without any state check and is stored as the pending description", construct=f"description type {t!r}"))

    # ---------------- C14-IMPLICIT: setLocalDescription() without an argument creates the description the state machine allows next
    rep.rule("C14-IMPLICIT", "implicit setLocalDescription(): an answer in have-remote-offer / have-local-pranswer, an offer in stable and have-local-offer", min_instances=4)
    sld = prog.func(PC + ".setLocalDescription")
    imp_if = next((n for n in sld.node.body if isinstance(n, ast.If) and unparse(n.test).replace("(", "").replace(")", "") in ("sessionDescription is None", "not sessionDescription")), None)
    if imp_if is None:
        raise AnalysisError("setLocalDescription: the `sessionDescription is None` branch was not found")
    made: List[str] = []

    def _ix(call, evl):
        nm = unparse(call.func)
        if nm in ("self.createOffer", "self.createAnswer"):
            made.append(nm.split(".")[-1])
            return _NS(type="offer" if nm.endswith("Offer") else "answer", sdp="v=0")
        if nm == "self.__log_debug":
            return None
        return NotImplemented
    ih = _mkh(prog, _ix)
    for state, want in (("stable", "createOffer"), ("have-local-offer", "createOffer"), ("have-remote-offer", "createAnswer"), ("have-local-pranswer", "createAnswer")):
        del made[:]
        me = _NS(__cls__=sld.cls, signalingState=state)
        setattr(me, "__signalingState", state)
        try:
            ev_imp = Evaluator(prog, sld.module, sld.cls, {"self": me, "sessionDescription": None}, ih)
            from .common import run_prelude
            run_prelude(ev_imp, sld.node, imp_if)
            ev_imp.exec_stmt(imp_if)
        except Raised as ex:
            rep.fail(mk_finding(prog, PROP, "C14-IMPLICIT", sld, getattr(ex, "node", None), f"implicit setLocalDescription() in {state}: raises {ex.name}", construct=f"implicit description raises {ex.name}"))
            continue
        except Unknown as ex:
            raise AnalysisError(f"C14-IMPLICIT cannot evaluate the implicit branch in state {state}: {ex}")
        if made == [want]:
            rep.ok("C14-IMPLICIT", f"state {state}: {want}()")
        elif state == "have-local-pranswer" and made == ["createOffer"]:
            # pranswer is outside the property's alphabet; aiortc never enters this state
            rep.ok("C14-IMPLICIT", f"state {state}: not decided (pranswer is outside the property's alphabet)", nontrivial=False)
        else:
            rep.fail(mk_finding(prog, PROP, "C14-IMPLICIT", sld, imp_if, f"implicit setLocalDescription() in state {state} calls {made}, the JSEP state machine allows {want}() there: a legal call is refused "
                                "(createAnswer raises InvalidStateError without a remote offer) or the wrong kind of description is applied", construct=f"implicit description in {state}"))

    # ---------------- C14-SIM: call sequences through the negotiation simulator (rules/pcnego.py)
    from .pcnego import c14_sim
    c14_sim(rep, prog, tier)
