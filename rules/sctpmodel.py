"""Object model shared by the rules that evaluate SCTP transport methods (C06-WHOLE / C06-RECV / C01-REASM): interpreter hook
for deques, closures, sorted(key=...), delivery recording, and factories for abstract DATA chunks."""
from __future__ import annotations

import ast
from collections import deque
from types import SimpleNamespace
from typing import Any, List, Optional

from engine.index import Program, Unknown, unparse
from engine.peval import Evaluator, Raised

from .objhook import make_hook

M = "rtcsctptransport"


def build(prog: Program, stubs=None):
    """stubs: {callee text: fn(call, ev) -> value} consulted before anything else (collaborators replaced by recorders)."""
    mod = prog.module(M)
    FIRST, LAST, UNORD = (prog.const(mod, n) for n in ("SCTP_DATA_FIRST_FRAG", "SCTP_DATA_LAST_FRAG", "SCTP_DATA_UNORDERED"))

    def extra(call: ast.Call, ev: Evaluator) -> Any:
        name = unparse(call.func)
        if stubs and name in stubs:
            return stubs[name](call, ev)
        if name == "time.time":
            return 1000.0
        if name == "cast" and len(call.args) == 2:
            return ev.ev(call.args[1])
        if isinstance(call.func, ast.Attribute) and call.func.attr in ("popleft", "append", "appendleft", "index", "pop", "clear", "extend", "remove", "insert"):
            try:
                base = ev.ev(call.func.value)
            except Unknown:
                base = None
            if isinstance(base, deque):
                try:
                    return getattr(base, call.func.attr)(*[ev.ev(a) for a in call.args])
                except (ValueError, IndexError) as ex:
                    raise Raised(type(ex).__name__, call)
        if name in ("self.__log_debug", "logger.debug", "logger.warning"):
            return None
        if name == "filter" and len(call.args) == 2 and isinstance(call.args[0], ast.Name) and call.args[0].id in ev.env:
            out = []
            for x in list(ev.ev(call.args[1])):
                ev.env["__flt"] = x
                if ev.ev(ast.Call(func=call.args[0], args=[ast.Name(id="__flt", ctx=ast.Load())], keywords=[])):
                    out.append(x)
            return out
        if name == "sorted" and call.args:
            seq = list(ev.ev(call.args[0]))
            key = next((k.value for k in call.keywords if k.arg == "key"), None)
            if key is None:
                return sorted(seq)
            if not isinstance(key, ast.Lambda):
                raise Unknown("sorted key")

            def keyf(x: Any) -> Any:
                sub = Evaluator(prog, ev.module, ev.cls, dict(ev.env), hook)
                sub.env[key.args.args[0].arg] = x
                return sub.ev(key.body)
            return sorted(seq, key=keyf)
        if name == "deque":
            return deque(*[ev.ev(a) for a in call.args])
        if name == "list" and len(call.args) == 1:
            return list(ev.ev(call.args[0]))
        if name == "ForwardTsnChunk" and not call.args:
            return SimpleNamespace(cumulative_tsn=0, streams=[], flags=0)
        if name == "self._receive":
            args = []
            for a in call.args:
                if isinstance(a, ast.Starred):
                    args.extend(ev.ev(a.value))
                else:
                    args.append(ev.ev(a))
            ev.env["self"].delivered.append(tuple(args))
            return None
        return NotImplemented

    hook = make_hook(prog, extra)

    def chunk(tsn: int, stream: int, seq: int, flags: int, data: bytes, policy: Optional[int] = None, sent: int = 1) -> Any:
        return SimpleNamespace(tsn=tsn, stream_id=stream, stream_seq=seq, flags=flags, protocol=53, user_data=data, _abandoned=False, _acked=False, _retransmit=False,
                               _book_size=len(data), _expiry=None, _max_retransmits=policy, _misses=0, _sent_count=sent, _sent_time=1.0 if sent else None)

    def message(first_tsn: int, stream: int, seq: int, nfrag: int, unordered: bool, policy: Optional[int], tag: str, nsent: Optional[int] = None) -> List[Any]:
        out = []
        for i in range(nfrag):
            fl = (UNORD if unordered else 0) | (FIRST if i == 0 else 0) | (LAST if i == nfrag - 1 else 0)
            out.append(chunk((first_tsn + i) % (1 << 32), stream, seq, fl, f"{tag}{i}".encode(), policy, 1 if nsent is None or i < nsent else 0))
        return out


    return hook, chunk, message
