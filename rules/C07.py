"""C07 — RTP/RTCP serialisation round trips with exact field semantics.

Writer and reader of each codec pair are evaluated (AST level, engine.peval + a small object model) over enumerated
boundary-class domains and must agree; this decides *agreement of sibling implementations*, not equality for all values.

  C07-EXT    header extensions: one-/two-byte form selection and round trip for all (id, length) boundary classes and
             mixed lists; per-extension value widths of HeaderExtensionsMap.set/get agree
  C07-NACK   generic NACK: same set of 16-bit sequence numbers on both sides, also across the wrap, for any order
  C07-LOST   24-bit signed cumulative loss: clamp/pack/unpack at the boundaries
  C07-REMB   REMB: mantissa/exponent round trip never rounds up, relative error < 2^-17, SSRC list preserved
  C07-RTCP   RR / SR / SDES / BYE / PSFB compound packets parse back to equal values (chunk/report counts 0..3, item
             lengths over all residues modulo 4, padding)
  C07-RTP    RtpPacket.serialize/parse for CSRC counts, marker, padding, payload sizes; wrap_rtx/unwrap_rtx inverse
  C07-LEN    every RTCP payload is a multiple of 4 (the exemption C05 relies on)
"""
from __future__ import annotations

import ast
import itertools
from types import SimpleNamespace
from typing import Any, Dict, List

from engine.index import AnalysisError, Program, Unknown, unparse
from engine.peval import Evaluator, Raised, Ret
from engine.report import Report, mk_finding

from .objhook import ClassRef, make_hook, new

PROP = "C07"


def same(a: Any, b: Any) -> bool:
    if isinstance(a, SimpleNamespace) and isinstance(b, SimpleNamespace):
        da = {k: v for k, v in vars(a).items() if k != "__cls__"}
        db = {k: v for k, v in vars(b).items() if k != "__cls__"}
        return da.keys() == db.keys() and all(same(da[k], db[k]) for k in da)
    if isinstance(a, (list, tuple)) and isinstance(b, (list, tuple)):
        return len(a) == len(b) and all(same(x, y) for x, y in zip(a, b))
    return a == b and type(a) is type(b) or (a == b and isinstance(a, (int, bool)) and isinstance(b, (int, bool)))


def show(a: Any) -> str:
    if isinstance(a, SimpleNamespace):
        return "{" + ", ".join(f"{k}={show(v)}" for k, v in vars(a).items() if k != "__cls__") + "}"
    if isinstance(a, list):
        return "[" + ", ".join(show(x) for x in a) + "]"
    return repr(a)


def run(rep: Report, prog: Program, tier: str) -> None:
    rep.explanation = (
        "Sibling agreement of the RTP/RTCP writers and readers: both function bodies are evaluated at the AST level over enumerated "
        "boundary-class domains (ids 1/14/15/255, lengths 0/1/16/17, residues modulo 4, sequence numbers around the wrap, 24-bit and "
        "18-bit mantissa boundaries) and compared. This is a finite evaluation over class representatives, not a proof for all values."
    )
    rep.assumptions += ["struct.pack/unpack of the standard library interpret the format strings; os.urandom is replaced by zero bytes"]
    rtp = prog.module("rtp")
    hook = make_hook(prog)

    def call(qual: str, *args: Any) -> Any:
        fi = prog.func(qual)
        if fi.kind == "classmethod":
            return hook.run_method(fi, ClassRef(fi.cls), list(args), {})
        return hook.run_method(fi, None, list(args), {})

    def safely(fn, *a):
        try:
            return fn(*a)
        except Raised as r:
            return f"raises {r.name}"
        except Unknown as u:
            raise AnalysisError(f"C07: cannot evaluate: {u}")

    # ---------------- C07-EXT
    rep.rule("C07-EXT", "header extension forms and widths", min_instances=60)
    pk, up = prog.func("rtp.pack_header_extensions"), prog.func("rtp.unpack_header_extensions")
    ids = [1, 14, 15, 255]
    lens = [0, 1, 16, 17, 255]
    singles = [(i, bytes([7] * ln)) for i in ids for ln in lens]
    lists = [[s] for s in singles] + [[a, b] for a in singles[::3] for b in singles[1::4]] + [[singles[1], singles[6], singles[12]]]
    for exts in lists:
        res = safely(call, "rtp.pack_header_extensions", list(exts))
        desc = ", ".join(f"id {i} len {len(v)}" for i, v in exts)
        if isinstance(res, str):
            rep.fail(mk_finding(prog, PROP, "C07-EXT", pk, pk.node, f"extensions [{desc}]: serialisation {res}", construct=f"ext [{desc}]"))
            continue
        profile, value = res
        want_one = all(i <= 14 and 1 <= len(v) <= 16 for i, v in exts)
        back = safely(call, "rtp.unpack_header_extensions", profile, value)
        ok = back == list(exts) and profile == (0xBEDE if want_one else 0x1000) and len(value) % 4 == 0
        if ok:
            rep.ok("C07-EXT", f"ext [{desc}]", sample=f"profile {profile:#06x}, {len(value)} bytes, parsed back identically")
        else:
            rep.fail(mk_finding(prog, PROP, "C07-EXT", pk, pk.node,
                                f"extensions [{desc}] are written with profile {profile:#06x} as {value.hex()} and read back as {back}", construct=f"ext [{desc}]"))
    # per-extension widths through HeaderExtensionsMap.set/get
    hem = prog.cls("rtp.HeaderExtensionsMap")
    fields = {"abs_send_time": [0, 1, 0xFFFFFF], "transmission_offset": [0, 5, -5, (1 << 23) - 1, -(1 << 23)], "audio_level": [(False, 0), (True, 127), (True, 0), (False, 127), (True, 1)],
              "transport_sequence_number": [0, 65535], "mid": ["0", "audio-mid"], "rtp_stream_id": ["hi"], "repaired_rtp_stream_id": ["lo"]}
    set_f, get_f = prog.func("rtp.HeaderExtensionsMap.set"), prog.func("rtp.HeaderExtensionsMap.get")
    for ext_id in (3, 20):
        for fname, values in fields.items():
            for v in values:
                idsobj = new(prog, hook, "rtp.HeaderExtensions")
                setattr(idsobj, fname, ext_id)
                m = SimpleNamespace(__cls__=hem)
                setattr(m, "__ids", idsobj)
                vals = new(prog, hook, "rtp.HeaderExtensions")
                setattr(vals, fname, v)
                res = safely(hook.run_method, set_f, m, [vals], {})
                desc = f"{fname}={v!r} with id {ext_id}"
                if isinstance(res, str):
                    rep.fail(mk_finding(prog, PROP, "C07-EXT", set_f, set_f.node, f"{desc}: set() {res}", construct=f"extmap {desc}"))
                    continue
                back = safely(hook.run_method, get_f, m, list(res), {})
                if isinstance(back, SimpleNamespace) and getattr(back, fname) == v:
                    rep.ok("C07-EXT", f"extmap {desc}", sample=f"{len(res[1])} bytes, value read back")
                else:
                    rep.fail(mk_finding(prog, PROP, "C07-EXT", get_f, get_f.node,
                                        f"{desc}: written as {res[1].hex() if isinstance(res[1], bytes) else res}, read back as {show(back)}", construct=f"extmap {desc}"))

    # several maps in one process (one per transport, plus the default map of RtpPacket.parse / serialize): each one only knows the ids it was configured with
    cfg_f = prog.func("rtp.HeaderExtensionsMap.configure")
    URI = {"mid": "urn:ietf:params:rtp-hdrext:sdes:mid", "audio_level": "urn:ietf:params:rtp-hdrext:ssrc-audio-level",
           "abs_send_time": "http://www.webrtc.org/experiments/rtp-hdrext/abs-send-time",
           "transport_sequence_number": "http://www.ietf.org/id/draft-holmer-rmcat-transport-wide-cc-extensions-01"}

    def configured(assign):
        mp = new(prog, hook, "rtp.HeaderExtensionsMap")
        hook.run_method(cfg_f, mp, [SimpleNamespace(headerExtensions=[SimpleNamespace(id=i, uri=URI[k]) for k, i in assign.items()])], {})
        return mp
    try:
        map_a = configured({"mid": 1, "audio_level": 2})
        map_b = configured({"abs_send_time": 1, "transport_sequence_number": 2, "mid": 3})
        fresh = new(prog, hook, "rtp.HeaderExtensionsMap")
        vals = new(prog, hook, "rtp.HeaderExtensions")
        vals.abs_send_time, vals.transport_sequence_number, vals.mid = 0x010203, 515, "vid"
        res = safely(hook.run_method, set_f, map_b, [vals], {})
        back_b = safely(hook.run_method, get_f, map_b, list(res), {}) if not isinstance(res, str) else res
        back_fresh = safely(hook.run_method, get_f, fresh, list(res), {}) if not isinstance(res, str) else res
        vals_a = new(prog, hook, "rtp.HeaderExtensions")
        vals_a.mid, vals_a.audio_level = "aud", (True, 30)
        res_a = safely(hook.run_method, set_f, map_a, [vals_a], {})
        back_a = safely(hook.run_method, get_f, map_a, list(res_a), {}) if not isinstance(res_a, str) else res_a
    except Unknown as u:
        raise AnalysisError(f"C07-EXT: cannot evaluate HeaderExtensionsMap.configure: {u}")
    empty = new(prog, hook, "rtp.HeaderExtensions")
    for desc, got_, want_ in (("map B (abs-send-time=1, transport-cc=2, mid=3) configured after map A (mid=1, audio-level=2)", back_b, vals),
                              ("map A (mid=1, audio-level=2) after map B was configured", back_a, vals_a),
                              ("a map that was never configured reading map B's extensions", back_fresh, empty)):
        if isinstance(got_, SimpleNamespace) and same(got_, want_):
            rep.ok("C07-EXT", f"extmap independence: {desc}", sample="values read back with the map's own id table")
        else:
            rep.fail(mk_finding(prog, PROP, "C07-EXT", cfg_f, cfg_f.node, f"{desc}: read back {show(got_) if not isinstance(got_, str) else got_}, expected {show(want_)}: "
                                "the id tables of different maps are not independent", construct="extmap independence"))

    # ---------------- C07-NACK
    rep.rule("C07-NACK", "generic NACK sets", min_instances=8)
    fb = prog.func("rtp.RtcpRtpfbPacket.__bytes__")
    lost_lists = [[], [5], [5, 6, 7], [5, 21], [5, 22], [65535, 0], [65534, 65535, 0, 1, 20], [0, 65535], [9, 3], [100, 116, 117, 300]]
    if tier == "thorough":
        for base in (0, 1, 15, 16, 17, 32767, 65519, 65520, 65534, 65535):
            for offs in ((0,), (0, 1), (0, 16), (0, 17), (0, 1, 16, 17, 33), (0, 15, 16, 31, 32, 48)):
                lost_lists.append([(base + o) % 65536 for o in offs])
    for lost in lost_lists:
        pkt = new(prog, hook, "rtp.RtcpRtpfbPacket", fmt=1, ssrc=11, media_ssrc=22, lost=list(lost))
        raw = safely(hook.run_method, fb, pkt, [], {})
        desc = f"lost={lost}"
        if isinstance(raw, str):
            rep.fail(mk_finding(prog, PROP, "C07-NACK", fb, fb.node, f"NACK {desc}: serialisation {raw}", construct=f"nack {desc}"))
            continue
        back = safely(call, "rtp.RtcpPacket.parse", raw)
        got = back[0].lost if isinstance(back, list) and back else back
        ok = isinstance(got, list) and set(got) == set(lost) and all(0 <= x <= 65535 for x in got) and back[0].media_ssrc == 22 and back[0].ssrc == 11
        if ok:
            rep.ok("C07-NACK", f"nack {desc}", sample=f"{len(raw)} bytes -> {got}")
        else:
            rep.fail(mk_finding(prog, PROP, "C07-NACK", fb, fb.node, f"NACK {desc} is read back as {got}: not the same set of 16-bit sequence numbers", construct=f"nack {desc}"))

    # ---------------- C07-LOST
    rep.rule("C07-LOST", "24-bit cumulative loss", min_instances=8)
    lo, hi = -(1 << 23), (1 << 23) - 1
    for v in (0, 1, -1, hi, lo, hi + 1, lo - 1, 1 << 30, -(1 << 30)):
        c = safely(call, "rtp.clamp_packets_lost", v)
        raw = safely(call, "rtp.pack_packets_lost", c) if not isinstance(c, str) else c
        back = safely(call, "rtp.unpack_packets_lost", raw) if isinstance(raw, bytes) else raw
        want = max(lo, min(v, hi))
        if c == want and isinstance(raw, bytes) and len(raw) == 3 and back == want:
            rep.ok("C07-LOST", f"packets_lost {v}", sample=f"clamped to {c}, 3 bytes, read back {back}")
        else:
            rep.fail(mk_finding(prog, PROP, "C07-LOST", prog.func("rtp.pack_packets_lost"), None, f"packets_lost {v}: clamp {c}, bytes {raw!r}, read back {back}; expected {want}",
                                construct=f"packets_lost {v}"))

    # ---------------- C07-REMB
    rep.rule("C07-REMB", "REMB mantissa/exponent", min_instances=12)
    bitrates = [0, 1, 0x3FFFF, 0x40000, 0x40001, 1000000, 4160000000, (1 << 40) + 12345, (0x3FFFF << 20) + 1]
    if tier == "thorough":
        bitrates += sorted({(1 << e) + d for e in range(0, 46) for d in (-1, 0, 1) if (1 << e) + d >= 0} | {0x3FFFF << e for e in range(0, 40, 3)})
    for bitrate in bitrates:
        for ssrcs in ([], [1], [1, 2, 0xFFFFFFFF]):
            raw = safely(call, "rtp.pack_remb_fci", bitrate, list(ssrcs))
            back = safely(call, "rtp.unpack_remb_fci", raw) if isinstance(raw, bytes) else raw
            desc = f"bitrate {bitrate}, {len(ssrcs)} ssrcs"
            ok = isinstance(back, tuple) and back[1] == list(ssrcs) and back[0] <= bitrate and (bitrate - back[0]) * (1 << 17) <= bitrate
            if ok:
                rep.ok("C07-REMB", f"remb {desc}", sample=f"decoded {back[0]} (never above, error < 2^-17)")
            else:
                rep.fail(mk_finding(prog, PROP, "C07-REMB", prog.func("rtp.pack_remb_fci"), None, f"REMB {desc} decodes to {back}", construct=f"remb {desc}"))

    # ---------------- C07-RTCP
    rep.rule("C07-RTCP", "compound RTCP round trips", min_instances=30)
    lens_seen: List[int] = []

    def rinfo(i: int) -> Any:
        return new(prog, hook, "rtp.RtcpReceiverInfo", ssrc=100 + i, fraction_lost=255 - i, packets_lost=-5 + i * (1 << 20), highest_sequence=0xFFFFFFFF - i,
                   jitter=i, lsr=0x12345678, dlsr=65536 * i)

    packets: List[Any] = []
    for n in range(0, 4):
        packets.append(new(prog, hook, "rtp.RtcpRrPacket", ssrc=7, reports=[rinfo(i) for i in range(n)]))
        packets.append(new(prog, hook, "rtp.RtcpSrPacket", ssrc=8, sender_info=new(prog, hook, "rtp.RtcpSenderInfo", ntp_timestamp=(1 << 63) + 5, rtp_timestamp=0xFFFFFFFF,
                                                                                       packet_count=3, octet_count=4), reports=[rinfo(i) for i in range(n)]))
        packets.append(new(prog, hook, "rtp.RtcpByePacket", sources=[50 + i for i in range(n)]))
    for fci in (b"", b"\x01\x02\x03\x04", b"REMB\x00\x00\x00\x00"):
        packets.append(new(prog, hook, "rtp.RtcpPsfbPacket", fmt=1 if not fci else 15, ssrc=9, media_ssrc=10, fci=fci))
    for item_lens in ([], [1], [2], [3], [4], [5], [1, 1], [3, 6]):
        for nchunks in (1, 2, 3):
            chunks = [new(prog, hook, "rtp.RtcpSourceInfo", ssrc=200 + c, items=[(1 + j, bytes([65 + j] * (ln + c))) for j, ln in enumerate(item_lens)])
                      for c in range(nchunks)]
            packets.append(new(prog, hook, "rtp.RtcpSdesPacket", chunks=chunks))
    for pkt in packets:
        m = prog.find_method(pkt.__cls__, "__bytes__")
        raw = safely(hook.run_method, m, pkt, [], {})
        desc = f"{pkt.__cls__.name} {show(pkt)[:110]}"
        if isinstance(raw, str):
            rep.fail(mk_finding(prog, PROP, "C07-RTCP", m, m.node, f"{desc}: serialisation {raw}", construct=f"rtcp {desc}"))
            continue
        lens_seen.append(len(raw))
        back = safely(call, "rtp.RtcpPacket.parse", raw)
        if isinstance(back, list) and len(back) == 1 and same(back[0], pkt):
            rep.ok("C07-RTCP", f"rtcp {desc}", sample=f"{len(raw)} bytes parse back to an equal packet")
        else:
            rep.fail(mk_finding(prog, PROP, "C07-RTCP", m, m.node, f"{desc} serialises to {raw.hex()[:80]} and parses back as {show(back)[:200]}", construct=f"rtcp {desc}"))
    # a compound of two packets
    a, b = packets[1], packets[-1]
    raw = safely(hook.run_method, prog.find_method(a.__cls__, "__bytes__"), a, [], {}) + safely(hook.run_method, prog.find_method(b.__cls__, "__bytes__"), b, [], {})
    back = safely(call, "rtp.RtcpPacket.parse", raw)
    if isinstance(back, list) and len(back) == 2 and same(back[0], a) and same(back[1], b):
        rep.ok("C07-RTCP", "compound SR + SDES", sample="both packets recovered")
    else:
        rep.fail(mk_finding(prog, PROP, "C07-RTCP", prog.func("rtp.RtcpPacket.parse"), None, f"compound SR+SDES parses back as {show(back)[:200]}", construct="rtcp compound"))

    # ---------------- C07-LEN
    rep.rule("C07-LEN", "RTCP payloads are 4-byte multiples", min_instances=1)
    if lens_seen and all(x % 4 == 0 for x in lens_seen):
        rep.ok("C07-LEN", f"{len(lens_seen)} serialised RTCP packets", sample="all lengths are multiples of 4 (pack_rtcp_packet's assertion held in every evaluation)")
    else:
        rep.fail(mk_finding(prog, PROP, "C07-LEN", prog.func("rtp.pack_rtcp_packet"), None, "an RTCP packet is not a multiple of 4 bytes", construct="rtcp length"))

    # ---------------- C07-RTP
    rep.rule("C07-RTP", "RTP packet and RTX round trips", min_instances=12)
    ser, par = prog.func("rtp.RtpPacket.serialize"), prog.func("rtp.RtpPacket.parse")
    emap = SimpleNamespace(__cls__=hem)
    setattr(emap, "__ids", new(prog, hook, "rtp.HeaderExtensions"))
    def _rtp_case(ncsrc, marker, pad, plen, ext_label, the_map, ext_vals):
        import struct as _st
        p = new(prog, hook, "rtp.RtpPacket", payload_type=127, marker=marker, sequence_number=65535, timestamp=0xFFFFFFFF, ssrc=0xDEADBEEF, payload=bytes([9] * plen))
        p.csrc = [1000 + i for i in range(ncsrc)]
        p.padding_size = pad
        for k_, v_ in ext_vals.items():
            setattr(p.extensions, k_, v_)
        raw = safely(hook.run_method, ser, p, [the_map], {})
        desc = f"{ncsrc} csrc, marker {marker}, padding {pad}, payload {plen}" + ("" if not ext_vals else f", {ext_label}")
        if isinstance(raw, str):
            rep.fail(mk_finding(prog, PROP, "C07-RTP", ser, ser.node, f"RTP {desc}: {raw}", construct=f"rtp {desc}"))
            return
        # RFC 3550 section 5.1 layout of what was written: V=2, X, CC, then the CSRC list directly after the 12-byte fixed header,
        # then (X=1) the extension header
        problems = []
        if len(raw) < 12 + 4 * ncsrc or raw[0] >> 6 != 2 or raw[0] & 0x0F != ncsrc or bool(raw[0] & 0x10) != bool(ext_vals) or bool(raw[0] & 0x20) != bool(pad):
            problems.append(f"first octet {raw[0]:#04x} does not say V=2, P={int(bool(pad))}, X={int(bool(ext_vals))}, CC={ncsrc}")
        elif raw[12:12 + 4 * ncsrc] != b"".join(_st.pack("!L", c) for c in p.csrc):
            problems.append("the CSRC list does not directly follow the 12-byte fixed header")
        elif ext_vals and _st.unpack_from("!H", raw, 12 + 4 * ncsrc)[0] not in (0xBEDE, 0x1000):
            problems.append("the extension header does not follow the CSRC list")
        if raw[1] != (marker << 7 | 127) or raw[2:12] != _st.pack("!HLL", 65535, 0xFFFFFFFF, 0xDEADBEEF):
            problems.append("marker / payload type / sequence number / timestamp / SSRC are not at their RFC 3550 offsets")
        if problems:
            rep.fail(mk_finding(prog, PROP, "C07-RTP", ser, ser.node, f"RTP {desc} is written as {raw[:40].hex()}…: {problems[0]}", construct=f"rtp layout {desc}"))
            return
        back = safely(hook.run_method, par, ClassRef(prog.cls("rtp.RtpPacket")), [raw, the_map], {})
        if isinstance(back, SimpleNamespace) and same(back, p):
            rep.ok("C07-RTP", f"rtp {desc}", sample=f"{len(raw)} bytes with the RFC 3550 layout parse back to an equal packet")
        else:
            rep.fail(mk_finding(prog, PROP, "C07-RTP", par, par.node, f"RTP {desc} parses back as {show(back)[:200]}", construct=f"rtp {desc}"))

    # extension maps: none configured / one-byte ids / a two-byte id
    emap1 = SimpleNamespace(__cls__=hem)
    ids1 = new(prog, hook, "rtp.HeaderExtensions")
    ids1.mid, ids1.abs_send_time = 3, 4
    setattr(emap1, "__ids", ids1)
    emap2 = SimpleNamespace(__cls__=hem)
    ids2 = new(prog, hook, "rtp.HeaderExtensions")
    ids2.mid, ids2.audio_level = 20, 2
    setattr(emap2, "__ids", ids2)
    ext_cases = [("no extension", emap, {})]
    for ncsrc, marker, pad, plen in itertools.product((0, 1, 15), (0, 1), (0, 1, 4), (0, 1, 200)):
        ext_cases_here = [("no extension", emap, {})]
        if marker == 1 and pad in (0, 4) and plen in (0, 200):
            ext_cases_here += [("mid+abs-send-time (one-byte form)", emap1, {"mid": "a", "abs_send_time": 0x010203}),
                               ("mid (one-byte form)", emap1, {"mid": "audio"}),
                               ("mid+audio-level (two-byte form)", emap2, {"mid": "0", "audio_level": (True, 5)})]
        for ext_label, the_map, ext_vals in ext_cases_here:
            _rtp_case(ncsrc, marker, pad, plen, ext_label, the_map, ext_vals)
    for plen in (0, 1, 100):
        p = new(prog, hook, "rtp.RtpPacket", payload_type=96, marker=1, sequence_number=65535, timestamp=77, ssrc=5, payload=bytes([3] * plen))
        p.csrc = [4]
        rtx = safely(call, "rtp.wrap_rtx", p, 97, 12, 6)
        back = safely(call, "rtp.unwrap_rtx", rtx, 96, 5) if isinstance(rtx, SimpleNamespace) else rtx
        ok = isinstance(back, SimpleNamespace) and same(back, p) and rtx.payload_type == 97 and rtx.sequence_number == 12 and rtx.ssrc == 6 and len(rtx.payload) == plen + 2
        if ok:
            rep.ok("C07-RTP", f"rtx wrap/unwrap, payload {plen}", sample="OSN prefix 2 bytes; original packet recovered")
        else:
            rep.fail(mk_finding(prog, PROP, "C07-RTP", prog.func("rtp.unwrap_rtx"), None, f"RTX round trip with payload {plen} gives {show(back)[:160]}", construct=f"rtx {plen}"))
