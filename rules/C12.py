"""C12 — bundled RTP/RTCP routing (RtpRouter).

  C12-SYM   every table that can hold a receiver/sender is scrubbed by unregister_* with a
            removal that deletes *all* entries mapping to the object (value scan / set.discard)
  C12-PROV  route_rtp / route_rtcp only hand out objects read from the routing tables
  C12-RTP   route_rtp's decision, evaluated over a finite abstract domain of table states,
            equals the specified decision table; the SSRC latch is the only write
  C12-RTCP  route_rtcp consults exactly the SSRC-bearing fields of every RTCP packet type
  C12-FRESH a routing decision is consumed by the very next delivery (loop over route_rtcp's result / immediate use of
            route_rtp's); decisions for several packets are never collected ahead of their deliveries
Does not decide: behaviour over interleavings beyond what the tables determine.
"""
from __future__ import annotations

import ast
import itertools
from types import SimpleNamespace
from typing import Any, Dict, List, Optional, Set, Tuple

from engine.index import AnalysisError, Program, Unknown, unparse, walk_no_nested
from engine.peval import Evaluator, Raised, Ret
from engine.report import Report, mk_finding

PROP = "C12"
ROUTER = "rtcdtlstransport.RtpRouter"
MUT_ADD = {"add", "append"}


def _self_field(e: ast.AST) -> Optional[str]:
    """self.F, self.F[...], self.F.setdefault(k, d) / self.F.get(k) -> F"""
    while True:
        if isinstance(e, ast.Subscript):
            e = e.value
        elif isinstance(e, ast.Call) and isinstance(e.func, ast.Attribute) and e.func.attr in ("setdefault", "get"):
            e = e.func.value
        else:
            break
    if isinstance(e, ast.Attribute) and isinstance(e.value, ast.Name) and e.value.id == "self":
        return e.attr
    return None


def _stores_of(fi, value_names: Set[str]) -> Dict[str, ast.AST]:
    """Fields of self into which one of `value_names` is stored (as value or element)."""
    out: Dict[str, ast.AST] = {}
    for n in walk_no_nested(fi.node):
        if isinstance(n, ast.Assign) and isinstance(n.value, ast.Name) and n.value.id in value_names:
            for t in n.targets:
                if isinstance(t, ast.Subscript):
                    f = _self_field(t)
                    if f:
                        out[f] = n
        elif isinstance(n, ast.Call) and isinstance(n.func, ast.Attribute) and n.func.attr in MUT_ADD and n.args \
                and isinstance(n.args[0], ast.Name) and n.args[0].id in value_names:
            f = _self_field(n.func.value)
            if f:
                out[f] = n
    return out


def _value_scan_helper(prog: Program, fi) -> bool:
    """Does this helper delete every key of dict `d` whose value equals `value`?"""
    params = [p.arg for p in fi.pos_params]
    if len(params) != 3:
        return False
    d, v = params[1], params[2]
    for n in walk_no_nested(fi.node):
        if isinstance(n, ast.For) and isinstance(n.iter, ast.Call):
            it = unparse(n.iter)
            if f"{d}.items()" not in it:
                continue
            if not it.startswith("list(") and not it.startswith("tuple("):
                continue  # deleting while iterating the live view would raise
            if isinstance(n.target, ast.Tuple) and len(n.target.elts) == 2:
                k, val = unparse(n.target.elts[0]), unparse(n.target.elts[1])
                body = n.body
                if len(body) == 1 and isinstance(body[0], ast.If):
                    t = unparse(body[0].test)
                    if t in (f"{val} == {v}", f"{v} == {val}", f"{val} is {v}", f"{v} is {val}"):
                        act = unparse(body[0].body[0]) if body[0].body else ""
                        if act in (f"{d}.pop({k})", f"del {d}[{k}]", f"{d}.pop({k}, None)"):
                            return len(body[0].body) == 1 and not body[0].orelse
    return False


def _scrubbed(prog: Program, fi, param: str, kinds: Dict[str, str]) -> Dict[str, str]:
    """field -> how unregister removes `param` from it."""
    out: Dict[str, str] = {}
    for n in walk_no_nested(fi.node):
        if isinstance(n, ast.Call) and isinstance(n.func, ast.Attribute):
            # self.F.discard(x)
            if n.func.attr in ("discard",) and n.args and unparse(n.args[0]) == param:
                f = _self_field(n.func.value)
                if f and kinds.get(f) == "set":
                    out[f] = "set.discard"
            # self.__discard(self.F, x)
            if isinstance(n.func.value, ast.Name) and n.func.value.id == "self" and len(n.args) == 2 and unparse(n.args[1]) == param:
                f = _self_field(n.args[0])
                helper = None
                for m in fi.cls.methods.values():
                    if m.name == n.func.attr or m.name == n.func.attr.lstrip("_") or n.func.attr.endswith(m.name):
                        helper = m
                if f and helper is not None and _value_scan_helper(prog, helper):
                    out[f] = f"value scan via {helper.name}"
        if isinstance(n, ast.For):
            # for pt, receivers in self.F.items(): receivers.discard(x)   /  for s in self.F.values(): s.discard(x)
            it = n.iter
            if isinstance(it, ast.Call) and isinstance(it.func, ast.Attribute) and it.func.attr in ("items", "values"):
                f = _self_field(it.func.value)
                if f and kinds.get(f) == "dict-of-set":
                    var = None
                    if it.func.attr == "items" and isinstance(n.target, ast.Tuple) and len(n.target.elts) == 2:
                        var = unparse(n.target.elts[1])
                    elif it.func.attr == "values" and isinstance(n.target, ast.Name):
                        var = n.target.id
                    if var and len(n.body) == 1 and unparse(n.body[0]) == f"{var}.discard({param})":
                        out[f] = "discard from every member set"
    return out


def run(rep: Report, prog: Program, tier: str) -> None:
    rep.explanation = (
        "Structural checks of RtpRouter: (SYM) set comparison between the tables that register_*/route_rtp can store an object "
        "into and the tables unregister_* scrubs with an all-keys removal; (PROV) def-use provenance of everything the router "
        "returns; (RTP/RTCP) the routing functions' bodies are partially evaluated (AST interpretation of the pure fragment, "
        "not execution of aiortc) over an enumerated abstract domain of table states / packet types and compared with the "
        "specified decision tables. Decides these clauses; does not decide interleavings beyond what the tables determine."
    )
    rep.assumptions += ["oracle decision tables are hard-coded from the property statement", "peval interprets only the pure AST fragment"]
    ci = prog.cls(ROUTER)
    init = prog.func(ROUTER + ".__init__")
    kinds: Dict[str, str] = {}
    for n in walk_no_nested(init.node):
        if isinstance(n, ast.AnnAssign) and _self_field(n.target):
            a = unparse(n.annotation)
            f = _self_field(n.target)
            if a.startswith("set["):
                kinds[f] = "set"
            elif a.startswith("dict[") and "set[" in a:
                kinds[f] = "dict-of-set"
            elif a.startswith("dict["):
                kinds[f] = "dict"
    if len(kinds) < 5:
        raise AnalysisError(f"RtpRouter tables not recognised: {kinds}")
    rep.analysed["router_tables"] = kinds

    # ---------------- C12-SYM
    rep.rule("C12-SYM", "unregister_* scrubs every table register_*/route_rtp may store the object into", min_instances=5)
    reg_r = prog.func(ROUTER + ".register_receiver")
    reg_s = prog.func(ROUTER + ".register_sender")
    unreg_r = prog.func(ROUTER + ".unregister_receiver")
    unreg_s = prog.func(ROUTER + ".unregister_sender")
    route_rtp = prog.func(ROUTER + ".route_rtp")
    route_rtcp = prog.func(ROUTER + ".route_rtcp")
    recv_tables = dict(_stores_of(reg_r, {"receiver"}))
    # latching writes in route_rtp store a receiver read from the tables
    latch_names = {n.targets[0].id for n in walk_no_nested(route_rtp.node)
                   if isinstance(n, ast.Assign) and len(n.targets) == 1 and isinstance(n.targets[0], ast.Name)}
    for f, node in _stores_of(route_rtp, latch_names).items():
        recv_tables.setdefault(f, node)
    send_tables = _stores_of(reg_s, {"sender"})
    if len(recv_tables) < 4 or not send_tables:
        raise AnalysisError(f"register_* writes not recognised: {sorted(recv_tables)} / {sorted(send_tables)}")
    for (tables, unreg, param, what) in ((recv_tables, unreg_r, "receiver", "receiver"), (send_tables, unreg_s, "sender", "sender")):
        scr = _scrubbed(prog, unreg, param, kinds)
        for f in sorted(tables):
            if f in scr:
                rep.ok("C12-SYM", f"{unreg.qualname}: table {f} ({kinds.get(f)})", sample=f"removed by {scr[f]}")
            else:
                rep.fail(mk_finding(prog, PROP, "C12-SYM", unreg, unreg.node,
                                    f"table `{f}` can hold a {what} (written at {tables[f].lineno}: `{unparse(tables[f])}`) but "
                                    f"{unreg.name} does not remove every entry mapping to the {what} (no value scan / discard over "
                                    f"the whole table): an unregistered {what} can still be routed to",
                                    construct=f"{unreg.name}: table {f}"))

    # ---------------- C12-PROV
    rep.rule("C12-PROV", "route_rtp / route_rtcp only return objects read from the routing tables", min_instances=4)
    defs: Dict[str, ast.expr] = {}
    for n in walk_no_nested(route_rtp.node):
        if isinstance(n, ast.Assign) and len(n.targets) == 1 and isinstance(n.targets[0], ast.Name):
            defs[n.targets[0].id] = n.value

    def origin(e: ast.expr, depth: int = 0) -> Set[str]:
        if depth > 5:
            return {"?"}
        if isinstance(e, ast.Constant) and e.value is None:
            return set()
        if isinstance(e, ast.Name):
            if e.id in defs:
                return origin(defs[e.id], depth + 1)
            return {"?" + e.id}
        f = _self_field(e)
        if f:
            return {f}
        if isinstance(e, ast.Call):
            if isinstance(e.func, ast.Attribute) and e.func.attr == "get":
                f = _self_field(e.func.value)
                if f:
                    out = {f}
                    for d in e.args[1:]:
                        if not (isinstance(d, ast.Call) and unparse(d) in ("set()", "dict()", "[]")):
                            out |= origin(d, depth + 1)
                    return out
            if isinstance(e.func, ast.Name) and e.func.id in ("list", "tuple", "sorted", "set") and e.args:
                return origin(e.args[0], depth + 1)
        if isinstance(e, ast.Subscript):
            return origin(e.value, depth + 1)
        return {"?" + unparse(e)[:30]}

    for n in walk_no_nested(route_rtp.node):
        if isinstance(n, ast.Return):
            o = origin(n.value) if n.value is not None else set()
            bad = {x for x in o if x.startswith("?") or x not in kinds}
            what = f"route_rtp: return {unparse(n.value) if n.value else None}"
            if bad:
                rep.fail(mk_finding(prog, PROP, "C12-PROV", route_rtp, n, f"returned object does not come from a routing table ({sorted(bad)})"))
            else:
                rep.ok("C12-PROV", what, sample=f"origin {sorted(o) or 'None'}")
    for n in walk_no_nested(route_rtcp.node):
        if isinstance(n, ast.Call) and isinstance(n.func, ast.Name) and n.func.id == "add_recipient" and n.args:
            a = n.args[0]
            o = origin(a)
            bad = {x for x in o if x.startswith("?") or x not in kinds}
            if bad:
                rep.fail(mk_finding(prog, PROP, "C12-PROV", route_rtcp, n, f"recipient does not come from a routing table ({sorted(bad)})"))
            else:
                rep.ok("C12-PROV", f"route_rtcp: {unparse(n)}", sample=f"origin {sorted(o)}")

    # ---------------- C12-RTP (finite evaluation)
    rep.rule("C12-RTP", "route_rtp decision table", min_instances=12)
    A, B = "recvA", "recvB"
    cases = 0
    for ssrc_state, pt_state in itertools.product([None, A, B], [(), (A,), (B,), (A, B)]):
        ssrc_table = {} if ssrc_state is None else {1: ssrc_state}
        pt_table = {96: set(pt_state)} if pt_state else {}
        before = dict(ssrc_table)
        env = {"self.ssrc_table": ssrc_table, "self.payload_type_table": pt_table,
               "packet": SimpleNamespace(ssrc=1, payload_type=96)}
        # specification
        if ssrc_state is not None and ssrc_state in pt_state:
            want, want_table = ssrc_state, before
        elif ssrc_state is None and len(pt_state) == 1:
            want, want_table = pt_state[0], {1: pt_state[0]}
        else:
            want, want_table = None, before
        ev = Evaluator(prog, route_rtp.module, ci, env)
        try:
            try:
                ev.exec_block(route_rtp.node.body)
                got = None
            except Ret as r:
                got = r.value
        except Unknown as u:
            raise AnalysisError(f"C12-RTP: cannot evaluate route_rtp: {u}")
        cases += 1
        desc = f"ssrc_table[ssrc]={ssrc_state}, receivers accepting the payload type={list(pt_state)}"
        if got != want or ssrc_table != want_table:
            rep.fail(mk_finding(prog, PROP, "C12-RTP", route_rtp, route_rtp.node,
                                f"for {desc}: route_rtp returns {got} and leaves ssrc_table={ssrc_table}; the property requires "
                                f"{want} and ssrc_table={want_table}", construct=f"route_rtp case {desc}"))
        else:
            rep.ok("C12-RTP", f"route_rtp case {desc}", sample=f"returns {got}, ssrc_table -> {ssrc_table}")

    # ---------------- C12-RTCP (finite evaluation per packet type)
    rep.rule("C12-RTCP", "route_rtcp consults the SSRC-bearing fields of every RTCP packet type", min_instances=7)
    rtpm = prog.module("rtp")
    union = rtpm.assigns.get("AnyRtcpPacket")
    union_names = sorted(unparse(x) for x in union.slice.elts) if union is not None and isinstance(union, ast.Subscript) else []
    if len(union_names) < 6:
        raise AnalysisError("AnyRtcpPacket union not found")
    ssrc_table = {1: "R1", 3: "R3"}
    senders = {2: "S2", 4: "S4", 5: "S5", 6: "S6"}
    app = prog.const(rtpm, "RTCP_PSFB_APP")
    pli = prog.const(rtpm, "RTCP_PSFB_PLI")

    def pkt(cls: str, **kw: Any) -> SimpleNamespace:
        return SimpleNamespace(__cls__=cls, **kw)

    rep_info = lambda s: SimpleNamespace(ssrc=s)  # noqa: E731
    table = [
        ("RtcpSrPacket", pkt("RtcpSrPacket", ssrc=1, reports=[rep_info(2), rep_info(4)]), {"R1", "S2", "S4"}),
        ("RtcpSrPacket", pkt("RtcpSrPacket", ssrc=9, reports=[]), set()),
        ("RtcpRrPacket", pkt("RtcpRrPacket", ssrc=1, reports=[rep_info(5)]), {"S5"}),
        ("RtcpByePacket", pkt("RtcpByePacket", sources=[1, 3, 7]), {"R1", "R3"}),
        ("RtcpRtpfbPacket", pkt("RtcpRtpfbPacket", fmt=1, ssrc=1, media_ssrc=4, lost=[]), {"S4"}),
        ("RtcpPsfbPacket", pkt("RtcpPsfbPacket", fmt=pli, ssrc=1, media_ssrc=2, fci=b""), {"S2"}),
        ("RtcpPsfbPacket", pkt("RtcpPsfbPacket", fmt=app, ssrc=1, media_ssrc=0, fci=("REMB", [5, 6, 8])), {"S5", "S6"}),
        ("RtcpPsfbPacket", pkt("RtcpPsfbPacket", fmt=app, ssrc=1, media_ssrc=0, fci=("BAD", [])), set()),
        # unknown SSRCs first / in the middle must not hide the registered ones behind them
        ("RtcpPsfbPacket", pkt("RtcpPsfbPacket", fmt=app, ssrc=1, media_ssrc=0, fci=("REMB", [8, 5, 9, 6])), {"S5", "S6"}),
        ("RtcpByePacket", pkt("RtcpByePacket", sources=[7, 1, 8, 3]), {"R1", "R3"}),
        ("RtcpSrPacket", pkt("RtcpSrPacket", ssrc=1, reports=[rep_info(9), rep_info(2)]), {"R1", "S2"}),
        ("RtcpRrPacket", pkt("RtcpRrPacket", ssrc=7, reports=[rep_info(9), rep_info(5)]), {"S5"}),
        ("RtcpRtpfbPacket", pkt("RtcpRtpfbPacket", fmt=1, ssrc=1, media_ssrc=9, lost=[]), set()),
        ("RtcpPsfbPacket", pkt("RtcpPsfbPacket", fmt=pli, ssrc=1, media_ssrc=9, fci=b""), set()),
        ("RtcpSdesPacket", pkt("RtcpSdesPacket", chunks=[]), set()),
        # application layer feedback (fmt 15) reports on its media SSRC like every other payload-specific feedback, REMB or not
        ("RtcpPsfbPacket", pkt("RtcpPsfbPacket", fmt=app, ssrc=1, media_ssrc=2, fci=("BAD", [])), {"S2"}),
        ("RtcpPsfbPacket", pkt("RtcpPsfbPacket", fmt=app, ssrc=1, media_ssrc=4, fci=("REMB", [5])), {"S4", "S5"}),
        ("RtcpPsfbPacket", pkt("RtcpPsfbPacket", fmt=app, ssrc=1, media_ssrc=4, fci=("REMB", [])), {"S4"}),
        ("RtcpRtpfbPacket", pkt("RtcpRtpfbPacket", fmt=15, ssrc=1, media_ssrc=6, lost=[]), {"S6"}),
    ]
    covered = {t[0] for t in table}
    missing = [u for u in union_names if u not in covered]
    if missing:
        raise AnalysisError(f"C12-RTCP oracle has no row for packet type(s) {missing}")

    def hook(call: ast.Call, ev: Evaluator) -> Any:
        f = call.func
        if isinstance(f, ast.Name) and f.id == "isinstance" and len(call.args) == 2:
            obj = ev.ev(call.args[0])
            names = [unparse(x).split(".")[-1] for x in (call.args[1].elts if isinstance(call.args[1], ast.Tuple) else [call.args[1]])]
            return getattr(obj, "__cls__", None) in names
        if unparse(f).endswith("unpack_remb_fci"):
            v = ev.ev(call.args[0])
            if not isinstance(v, tuple) or v[0] != "REMB":
                raise Raised("ValueError", call)
            return (1000, list(v[1]))
        return NotImplemented

    for cls, p, want in table:
        env = {"self.ssrc_table": dict(ssrc_table), "self.senders": dict(senders), "packet": p}
        ev = Evaluator(prog, route_rtcp.module, ci, env, hook)
        try:
            try:
                ev.exec_block(route_rtcp.node.body)
                got = None
            except Ret as r:
                got = r.value
        except Unknown as u:
            raise AnalysisError(f"C12-RTCP: cannot evaluate route_rtcp for {cls}: {u}")
        except Raised as r:
            got = f"raises {r.name}"
        desc = f"{cls}({', '.join(f'{k}={v}' for k, v in vars(p).items() if k != '__cls__' and k != 'reports')}" \
               f"{', reports=' + str([x.ssrc for x in p.reports]) if hasattr(p, 'reports') else ''})"
        if not isinstance(got, set) or got != want:
            rep.fail(mk_finding(prog, PROP, "C12-RTCP", route_rtcp, route_rtcp.node,
                                f"{desc} with ssrc_table={ssrc_table}, senders={senders}: routed to {sorted(got) if isinstance(got, set) else got}, "
                                f"the property requires {sorted(want)}", construct=f"route_rtcp case {desc}"))
        else:
            rep.ok("C12-RTCP", f"route_rtcp case {desc}", sample=f"recipients {sorted(got)}")
    rep.analysed["rtcp_packet_types"] = union_names


    # ---------------- C12-FRESH: a routing decision is used at once, not computed ahead of other deliveries
    rep.rule("C12-FRESH", "routing decisions are taken immediately before the delivery they are used for", min_instances=2)
    tcls = prog.cls("rtcdtlstransport.RTCDtlsTransport")
    n_route = 0
    for fi in tcls.methods.values():
        parents: Dict[int, ast.AST] = {}
        for p_ in ast.walk(fi.node):
            for ch in ast.iter_child_nodes(p_):
                parents[id(ch)] = p_
        for n in walk_no_nested(fi.node):
            if not (isinstance(n, ast.Call) and isinstance(n.func, ast.Attribute) and n.func.attr in ("route_rtp", "route_rtcp")):
                continue
            n_route += 1
            par = parents.get(id(n))
            good = False
            why = "its result is not consumed by the statement that delivers the packet"
            if isinstance(par, ast.For) and par.iter is n and isinstance(par.target, ast.Name):
                awaits = [a for b in par.body for a in ast.walk(b) if isinstance(a, ast.Await)]
                good = bool(awaits) and all(isinstance(a.value, ast.Call) and unparse(a.value.func).startswith(par.target.id + "._handle_") for a in awaits)
                why = "the loop over its result awaits something other than the recipients' handlers"
            elif isinstance(par, ast.Assign) and len(par.targets) == 1 and isinstance(par.targets[0], ast.Name):
                var = par.targets[0].id
                blkp = parents.get(id(par))
                blk = next((lst for name in ("body", "orelse", "finalbody") for lst in [getattr(blkp, name, None)] if isinstance(lst, list) and any(x is par for x in lst)), [])
                idx = next((i for i, x in enumerate(blk) if x is par), -1)
                nxt = blk[idx + 1] if 0 <= idx < len(blk) - 1 else None
                if nxt is not None:
                    awaits = [a for a in ast.walk(nxt) if isinstance(a, ast.Await)]
                    good = bool(awaits) and all(isinstance(a.value, ast.Call) and unparse(a.value.func).startswith(var + "._handle_") for a in awaits)
                why = "other suspension points lie between the routing decision and the delivery"
            elif isinstance(par, (ast.ListComp, ast.GeneratorExp, ast.SetComp, ast.DictComp, ast.comprehension, ast.Tuple, ast.List)):
                why = "routing decisions for several packets are collected before any of them is delivered"
            if good:
                rep.ok("C12-FRESH", f"{fi.qualname}: {unparse(n)}", sample="consumed by the very next delivery")
            else:
                rep.fail(mk_finding(prog, PROP, "C12-FRESH", fi, n, f"{why}: a receiver or sender unregistered while an earlier packet of the same datagram is being handled would still "
                                    f"get the later packets", construct="stale routing decision " + n.func.attr))
    if n_route < 2:
        raise AnalysisError("route_rtp / route_rtcp call sites not found in RTCDtlsTransport")

    # ---------------- C12-REMB (= C07-REMB): the SSRC list inside a REMB is decoded as written
    from .common import import_rules
    import_rules(rep, prog, tier, PROP, "C12-REMB", "C07", ["C07-REMB", "C07-RTCP"],
                 "REMB SSRC lists and the report blocks of RR / SR packets survive pack / parse (rules C07-REMB, C07-RTCP): route_rtcp sees the SSRCs the peer listed, each block once", 12)

    # ---------------- C12-MODEL: the router class evaluated against a reference model over enumerated operation sequences
    rep.rule("C12-MODEL", "RtpRouter behaves like the reference model for sequences of register / unregister / route operations", min_instances=20)
    import itertools as _it2

    from .objhook import make_hook as _mkh2

    def _mx(call, evl):
        if unparse(call.func).endswith("unpack_remb_fci"):
            v = evl.ev(call.args[0])
            if not isinstance(v, tuple) or v[0] != "REMB":
                raise Raised("ValueError", call)
            return (1000, list(v[1]))
        if unparse(call.func) == "isinstance" and len(call.args) == 2:
            obj = evl.ev(call.args[0])
            names = [unparse(x).split(".")[-1] for x in (call.args[1].elts if isinstance(call.args[1], ast.Tuple) else [call.args[1]])]
            return getattr(obj, "kind_", None) in names
        return NotImplemented
    mh = _mkh2(prog, _mx)
    mev = Evaluator(prog, route_rtp.module, None, {}, mh)
    RC = prog.cls("rtcdtlstransport.RtpRouter")

    class Model:
        def __init__(self):
            self.ssrc = {}
            self.pt = {}
            self.senders = {}

        def reg_r(self, r, ssrcs, pts):
            for s_ in ssrcs:
                self.ssrc[s_] = r
            for p_ in pts:
                self.pt.setdefault(p_, set()).add(r)

        def unreg_r(self, r):
            self.ssrc = {k: v for k, v in self.ssrc.items() if v != r}
            for v in self.pt.values():
                v.discard(r)

        def reg_s(self, s_, ssrc):
            self.senders[ssrc] = s_

        def unreg_s(self, s_):
            self.senders = {k: v for k, v in self.senders.items() if v != s_}

        def rtp(self, ssrc, pt):
            r = self.ssrc.get(ssrc)
            acc = self.pt.get(pt, set())
            if r is not None:
                return r if r in acc else None
            if len(acc) == 1:
                r = next(iter(acc))
                self.ssrc[ssrc] = r
                return r
            return None

        def rtcp_senders(self, ssrcs):
            return {self.senders[x] for x in ssrcs if x in self.senders}

    class Party:
        """A receiver/sender stand-in: hashable, compared by identity; senders carry the real class's `_ssrc` (primary SSRC)."""
        def __init__(self, name, **kw):
            self.name = name
            self.__dict__.update(kw)

        def __repr__(self):
            return self.name

        def __lt__(self, other):
            return self.name < other.name
    R1, R2, R3 = Party("R1"), Party("R2"), Party("R3")
    S1, S2 = Party("S1", _ssrc=100), Party("S2", _ssrc=200)
    scripts = {
        "partly overlapping payload types": [("reg_r", R1, [10], [96, 97]), ("reg_r", R2, [20], [97, 98]), ("rtp", 10, 96), ("rtp", 20, 96), ("rtp", 20, 98), ("rtp", 30, 96),
                                              ("rtp", 30, 97), ("rtp", 31, 98), ("rtp", 31, 96)],
        "latched SSRC survives until unregistration": [("reg_r", R1, [], [96]), ("rtp", 50, 96), ("rtp", 50, 96), ("unreg_r", R1), ("rtp", 50, 96), ("rtp", 10, 96),
                                                        ("reg_r", R2, [], [96]), ("rtp", 50, 96)],
        "re-registration and take-over of an SSRC": [("reg_r", R1, [10, 11], [96]), ("reg_r", R2, [11], [96]), ("rtp", 11, 96), ("rtp", 10, 96), ("unreg_r", R2), ("rtp", 11, 96), ("rtp", 10, 96)],
        "three receivers, ambiguous payload type": [("reg_r", R1, [1], [96]), ("reg_r", R2, [2], [96, 100]), ("reg_r", R3, [3], [100]), ("rtp", 9, 96), ("rtp", 9, 100), ("unreg_r", R2),
                                                     ("rtp", 9, 96), ("rtp", 8, 100), ("rtp", 2, 100)],
        "senders: two SSRCs for one sender, take-over, unregister": [("reg_s", S1, 100), ("reg_s", S1, 101), ("reg_s", S2, 200), ("rr", [100, 101, 200, 7]), ("unreg_s", S1), ("rr", [100, 101, 200]),
                                                                       ("reg_s", S1, 200), ("rr", [200]), ("unreg_s", S2), ("rr", [200]), ("remb", [5, 200, 6]), ("unreg_s", S1), ("remb", [200])],
    }
    for label, script in scripts.items():
        try:
            router = mh.instantiate(RC, [], {}, mev)
            model = Model()
            problem = None
            for step_i, op in enumerate(script):
                kind = op[0]
                if kind == "reg_r":
                    mh.run_method(prog.find_method(RC, "register_receiver"), router, [op[1], list(op[2]), list(op[3])], {})
                    model.reg_r(op[1], op[2], op[3])
                elif kind == "unreg_r":
                    mh.run_method(prog.find_method(RC, "unregister_receiver"), router, [op[1]], {})
                    model.unreg_r(op[1])
                elif kind == "reg_s":
                    mh.run_method(prog.find_method(RC, "register_sender"), router, [op[1], op[2]], {})
                    model.reg_s(op[1], op[2])
                elif kind == "unreg_s":
                    mh.run_method(prog.find_method(RC, "unregister_sender"), router, [op[1]], {})
                    model.unreg_s(op[1])
                elif kind == "rtp":
                    got = mh.run_method(route_rtp, router, [SimpleNamespace(ssrc=op[1], payload_type=op[2])], {})
                    want = model.rtp(op[1], op[2])
                    if got != want:
                        problem = f"step {step_i} {op}: RTP packet routed to {got}, the model says {want}"
                        break
                elif kind in ("rr", "remb"):
                    if kind == "rr":
                        pkt_ = SimpleNamespace(kind_="RtcpRrPacket", ssrc=1, reports=[SimpleNamespace(ssrc=x) for x in op[1]])
                    else:
                        pkt_ = SimpleNamespace(kind_="RtcpPsfbPacket", fmt=app, ssrc=1, media_ssrc=0, fci=("REMB", list(op[1])))
                    got = mh.run_method(route_rtcp, router, [pkt_], {})
                    want = model.rtcp_senders(op[1])
                    if set(got) != want:
                        problem = f"step {step_i} {op}: RTCP routed to {sorted(got)}, the model says {sorted(want)}"
                        break
            if problem:
                rep.fail(mk_finding(prog, PROP, "C12-MODEL", route_rtp, route_rtp.node, f"[{label}] {problem}", construct=f"router model: {label}"))
            else:
                rep.ok("C12-MODEL", label, sample=f"{len(script)} operations agree with the model")
                for _ in range(len(script) - 1):
                    rep.ok("C12-MODEL", f"{label} (operation)", nontrivial=False)
        except Raised as ex:
            rep.fail(mk_finding(prog, PROP, "C12-MODEL", route_rtp, getattr(ex, "node", None), f"[{label}] raises {ex.name}", construct=f"router model raises {ex.name}"))
        except Unknown as ex:
            raise AnalysisError(f"C12-MODEL cannot evaluate [{label}]: {ex}")

    # ---------------- C12-REGISTER: what the transport tells the router about a receiver / sender
    rep.rule("C12-REGISTER", "the transport registers a receiver with the SSRCs of its encodings and the payload types of ALL its codecs (RTX included), a sender with its SSRC", min_instances=3)
    reg_recv = prog.func("rtcdtlstransport.RTCDtlsTransport._register_rtp_receiver")
    reg_send = prog.func("rtcdtlstransport.RTCDtlsTransport._register_rtp_sender")
    seen_reg: List[Any] = []

    def _rx(call, evl):
        nm = unparse(call.func)
        if nm.endswith("_rtp_router.register_receiver") or nm.endswith("_rtp_router.register_sender"):
            seen_reg.append((nm.rsplit(".", 1)[-1], [evl.ev(a) for a in call.args], {k.arg: evl.ev(k.value) for k in call.keywords}))
            return None
        if nm.endswith("_rtp_header_extensions_map.configure"):
            return None
        return NotImplemented
    rh = _mkh2(prog, _rx)
    cod = lambda pt: SimpleNamespace(payloadType=pt)  # noqa: E731
    for label, codecs, encodings in (("VP8 + RTX, one encoding", [96, 97], [(1000, 96)]), ("two codecs with RTX each, encoding of the first", [96, 97, 98, 99], [(1000, 96)]),
                                     ("no a=ssrc lines in the remote description (no encodings)", [0, 8], [])):
        del seen_reg[:]
        params = SimpleNamespace(codecs=[cod(p) for p in codecs], encodings=[SimpleNamespace(ssrc=s_, payloadType=p_, rtx=None) for s_, p_ in encodings], muxId="m1", headerExtensions=[])
        me = SimpleNamespace(__cls__=reg_recv.cls, _rtp_router=SimpleNamespace(), _rtp_header_extensions_map=SimpleNamespace())
        try:
            rh.run_method(reg_recv, me, ["RECV", params], {})
        except Raised as ex:
            rep.fail(mk_finding(prog, PROP, "C12-REGISTER", reg_recv, getattr(ex, "node", None), f"[{label}] raises {ex.name}", construct=f"register raises {ex.name}"))
            continue
        except Unknown as ex:
            raise AnalysisError(f"C12-REGISTER cannot evaluate _register_rtp_receiver [{label}]: {ex}")
        ok_ = False
        if len(seen_reg) == 1 and seen_reg[0][0] == "register_receiver":
            _, a_, k_ = seen_reg[0]
            names_ = [p.arg for p in reg_r.pos_params][1:]
            full = dict(zip(names_, a_))
            full.update(k_)
            ok_ = full.get("receiver") == "RECV" and sorted(full.get("ssrcs", [])) == sorted(s_ for s_, _ in encodings) and sorted(full.get("payload_types", [])) == sorted(codecs) and full.get("mid") == "m1"
        if ok_:
            rep.ok("C12-REGISTER", f"receiver: {label}", sample=str(seen_reg[0][2]))
        else:
            rep.fail(mk_finding(prog, PROP, "C12-REGISTER", reg_recv, reg_recv.node, f"[{label}] the router is told {seen_reg}; expected ssrcs {sorted(s_ for s_, _ in encodings)} and payload types {sorted(codecs)}: "
                                "packets of a codec that is not listed (RTX, or everything when the remote description has no a=ssrc lines) reach no receiver", construct="receiver registration: payload types"))
    del seen_reg[:]
    me = SimpleNamespace(__cls__=reg_send.cls, _rtp_router=SimpleNamespace(), _rtp_header_extensions_map=SimpleNamespace())
    try:
        rh.run_method(reg_send, me, [SimpleNamespace(name="SENDER", _ssrc=4321, _rtx_ssrc=8765),
                                   SimpleNamespace(headerExtensions=[], codecs=[], muxId="m1", encodings=[], rtcp=SimpleNamespace(ssrc=None, cname="c", mux=True))], {})
    except (Raised, Unknown) as ex:
        raise AnalysisError(f"C12-REGISTER cannot evaluate _register_rtp_sender: {ex}")
    ok_ = len(seen_reg) == 1 and seen_reg[0][0] == "register_sender" and 4321 in (seen_reg[0][1] + list(seen_reg[0][2].values()))
    if ok_:
        rep.ok("C12-REGISTER", "sender registered under its SSRC", sample=str(seen_reg[0][2]))
    else:
        rep.fail(mk_finding(prog, PROP, "C12-REGISTER", reg_send, reg_send.node, f"the router is told {seen_reg}; expected the sender under SSRC 4321", construct="sender registration"))
