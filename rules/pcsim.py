"""Peer-connection negotiation simulator.

The real `RTCPeerConnection.__init__`, `addTransceiver`, `createDataChannel`, `createOffer`, `createAnswer`, `setLocalDescription`, `setRemoteDescription`,
`__validate_description`, the helpers of rtcpeerconnection.py, `RTCRtpTransceiver` and the whole of sdp.py are interpreted at the AST level (engine.peval; no aiortc
code is imported or run).  Everything below the peer connection is replaced by small stand-ins written here: ICE gatherer / ICE transport / DTLS transport / SCTP
transport / RTP sender / RTP receiver objects that only remember what they were told (role, transport, started or stopped).  `__gather()` and `__connect()` are no-ops.

Two simulated connections exchange the SDP text that the real createOffer / createAnswer produce, so a rule can drive any call sequence and look at the outcome:
signalling states, description slots, transceiver directions and mids, which transport every object ended up on, roles, and the exception a call raised.
"""
from __future__ import annotations

import ast
import re
from types import SimpleNamespace
from typing import Any, Dict, List, Optional

from engine.index import AnalysisError, Program, Unknown, unparse
from engine.peval import Evaluator, Raised

from .objhook import ClassRef, make_hook

PC = "rtcpeerconnection.RTCPeerConnection"


class Stub:
    """Stand-in for an object below the peer connection: attribute bag with identity hash; methods are Python functions."""
    __hash__ = object.__hash__

    def __eq__(self, other: Any) -> bool:
        return self is other

    def __init__(self, stub_kind: str, **kw: Any) -> None:
        self.stub_kind = stub_kind
        self.log: List[Any] = []
        self.__dict__.update(kw)

    def __repr__(self) -> str:
        return f"<{self.stub_kind} {getattr(self, 'name', '')}>"

    # event emitter API: listeners are remembered but never called
    def on(self, *a: Any, **k: Any) -> Any:
        return (lambda f: f) if len(a) < 2 else None

    def remove_all_listeners(self, *a: Any) -> None:
        return None


class Gatherer(Stub):
    def getLocalCandidates(self) -> list:
        return []

    def getLocalParameters(self) -> Any:
        return self.params

    async def gather(self) -> None:
        return None


class IceTransport(Stub):
    def start(self, params: Any) -> None:
        self.log.append(("start", params))

    def stop(self) -> None:
        self.state = "closed"
        self.log.append(("stop",))

    def addRemoteCandidate(self, c: Any) -> None:
        self.log.append(("candidate", c))

    def getRemoteCandidates(self) -> list:
        return []


class DtlsTransport(Stub):
    def getLocalParameters(self) -> Any:
        return SimpleNamespace(fingerprints=[SimpleNamespace(algorithm="sha-256", value="AA:BB:" + self.name[-2:].upper().replace("-", "0"))], role="auto")

    def _set_role(self, role: str) -> None:
        self._role = role
        self.log.append(("role", role))

    def start(self, params: Any) -> None:
        self.log.append(("start", params))

    def stop(self) -> None:
        self.state = "closed"
        self.log.append(("stop",))


class SctpTransport(Stub):
    def getCapabilities(self) -> Any:
        return SimpleNamespace(maxMessageSize=65536)

    def setTransport(self, t: Any) -> None:
        self.transport = t

    def stop(self) -> None:
        self.log.append(("stop",))

    def start(self, *a: Any) -> None:
        self.log.append(("start",))


class Media(Stub):
    """RTCRtpSender / RTCRtpReceiver stand-in"""

    def setTransport(self, t: Any) -> None:
        self.transport = t

    def _set_rtcp_ssrc(self, ssrc: int) -> None:
        self.rtcp_ssrc = ssrc

    def replaceTrack(self, t: Any) -> None:
        self.track = t

    def stop(self) -> None:
        self.log.append(("stop",))

    def _enable(self, *a: Any) -> None:
        return None

    def _set_direction(self, *a: Any) -> None:
        return None


class PCSim:
    def __init__(self, prog: Program) -> None:
        self.prog = prog
        self.counter = 0
        self.created: List[Any] = []       # (owning connection, stand-in) for every transport / sender / receiver / channel the interpreted code created
        from .C09 import build_hook
        self.hook = build_hook(prog, self.extra)   # the SDP interpreter hook (re, ipaddress, map/int error behaviour) with the stand-ins in front
        self.mod = prog.modules["rtcpeerconnection"]
        self.ev = Evaluator(prog, self.mod, None, {}, self.hook)
        self.pc_cls = prog.cls(PC)
        # module constants keep their identity for this simulation, and the import-time side effect of codecs/__init__.py (init_codecs() fills CODECS["video"]) is replayed
        self.hook.const_cache = {}
        cm = prog.modules["codecs"]
        Evaluator(prog, cm, None, {}, self.hook).exec_block([st for st in cm.tree.body if isinstance(st, ast.Expr) and isinstance(st.value, ast.Call) and unparse(st.value.func) == "init_codecs"])

    def _n(self, prefix: str) -> str:
        self.counter += 1
        return f"{prefix}-{self.counter:02d}"

    # ------------------------------------------------------------------ interpreter hook
    def extra(self, call: ast.Call, ev: Evaluator) -> Any:
        r = self._extra(call, ev)
        if isinstance(r, Stub) and r.stub_kind in ("ice", "dtls", "sctp", "sender", "receiver", "datachannel", "gatherer"):
            self.created.append((ev.env.get("self"), r))
        return r

    def _extra(self, call: ast.Call, ev: Evaluator) -> Any:
        f = call.func
        name = unparse(f)
        me = ev.env.get("self")

        def args():
            return [ev.ev(a) for a in call.args], {k.arg: ev.ev(k.value) for k in call.keywords}
        if name == "super().__init__":
            me.events = []
            return None
        if name in ("self.emit",):
            a, _ = args()
            me.events.append(tuple(a))
            return None
        if name in ("self.__log_debug", "logger.debug", "logger.warning", "self.remove_all_listeners"):
            return None
        if name == "RTCCertificate.generateCertificate":
            return Stub("certificate", name=self._n("cert"))
        if name in ("uuid.uuid4",):
            return self._n("uuid")
        if name in ("clock.current_ntp_time",):
            return 3_900_000_000 << 32
        if name == "RTCIceGatherer":
            _, k = args()
            ufrag = k.get("local_username") or ("uf" + self._n("")[1:] + "x")[:6]
            pwd = k.get("local_password") or ("pw" + self._n("")[1:] + "0123456789abcdefghij")[:22]
            return Gatherer("gatherer", name=self._n("gatherer"), state="new", params=SimpleNamespace(usernameFragment=ufrag, password=pwd, iceLite=False))
        if name == "RTCIceTransport":
            a, _ = args()
            return IceTransport("ice", name=self._n("ice"), iceGatherer=a[0], state="new", role="controlled", _role_set=False, _connection=SimpleNamespace(ice_controlling=False, remote_candidates=[]))
        if name == "RTCDtlsTransport":
            a, _ = args()
            return DtlsTransport("dtls", name=self._n("dtls"), transport=a[0], state="new", _role="auto")
        if name == "RTCSctpTransport":
            a, _ = args()
            return SctpTransport("sctp", name=self._n("sctp"), transport=a[0], port=5000, mid=None, _bundled=False, _outbound_streams_count=65535, is_server=False)
        if name in ("RTCRtpSender", "RTCRtpReceiver"):
            a, _ = args()
            first = a[0]
            kind = first if isinstance(first, str) else getattr(first, "kind", "audio")
            self.counter += 1
            m = Media("sender" if name.endswith("Sender") else "receiver", name=self._n(name[6:].lower()), kind=kind, transport=a[1], track=None if isinstance(first, str) else first,
                      _track=None, _ssrc=1000 + self.counter, _rtx_ssrc=2000 + self.counter, _stream_id="stream", _track_id=self._n("track"))
            return m
        if name == "RTCDataChannel":
            a, _ = args()
            return Stub("datachannel", name=self._n("channel"), transport=a[0], parameters=a[1])
        if name in ("RemoteStreamTrack", "RTCTrackEvent"):
            _, k = args()
            return Stub("track" if name.startswith("Remote") else "trackevent", name=self._n("track"), readyState="live", **k)
        if name in ("self.__gather", "self.__connect"):
            return None
        if name == "asyncio.ensure_future":
            for a in call.args:
                ev.ev(a)
            return None
        if name == "asyncio.Future":
            return SimpleNamespace(result=None)
        if name.endswith(".set_result"):
            return None
        if name in ("add_remote_candidates",):
            return None
        if name == "asyncio.gather":
            for a in call.args:
                if isinstance(a, ast.Starred):
                    list(ev.ev(a.value))
                else:
                    ev.ev(a)
            return None
        if name == "copy.deepcopy":
            from .C03 import clone
            return clone(ev.ev(call.args[0]))
        if name == "re.match":
            return re.match(*[re.I if unparse(x) in ("re.I", "re.IGNORECASE") else ev.ev(x) for x in call.args])
        if name == "isinstance" and len(call.args) == 2:
            v = ev.ev(call.args[0])
            names = [unparse(x).split(".")[-1] for x in (call.args[1].elts if isinstance(call.args[1], ast.Tuple) else [call.args[1]])]
            if isinstance(v, SimpleNamespace) and hasattr(v, "__cls__"):
                return any(c.name in names for c in self.prog.mro(v.__cls__))
            if isinstance(v, Stub):
                return {"sender": "RTCRtpSender", "receiver": "RTCRtpReceiver", "sctp": "RTCSctpTransport", "dtls": "RTCDtlsTransport", "ice": "RTCIceTransport"}.get(v.stub_kind) in names
            py = {"int": int, "bytes": bytes, "str": str, "dict": dict, "list": list}
            return any(n in py and isinstance(v, py[n]) and not (n == "int" and isinstance(v, bool)) for n in names)
        # method call on a stand-in
        if isinstance(f, ast.Attribute):
            try:
                base = ev.ev(f.value)
            except Unknown:
                base = None
            if isinstance(base, Stub) and hasattr(type(base), f.attr):
                a, k = args()
                r = getattr(base, f.attr)(*a, **k)
                if hasattr(r, "__await__") or hasattr(r, "cr_frame"):
                    r.close()
                    return None
                return r
        return NotImplemented

    # ------------------------------------------------------------------ driving
    def new_pc(self, bundle_policy: str = "balanced") -> Any:
        cfg_cls = self.prog.cls("rtcconfiguration.RTCConfiguration")
        pol_cls = self.prog.cls("rtcconfiguration.RTCBundlePolicy")
        cfg = self.hook.instantiate(cfg_cls, [], {}, self.ev)
        cfg.bundlePolicy = self.hook.enum_member(pol_cls, {"balanced": "BALANCED", "max-compat": "MAX_COMPAT", "max-bundle": "MAX_BUNDLE"}[bundle_policy])
        return self.hook.instantiate(self.pc_cls, [cfg], {}, self.ev)

    def call(self, pc: Any, method: str, *args: Any, **kw: Any) -> Any:
        m = self.prog.find_method(self.pc_cls, method)
        if m is None:
            raise AnalysisError(f"pcsim: RTCPeerConnection.{method} not found")
        return self.hook.run_method(m, pc, list(args), kw)

    def get(self, obj: Any, prop: str) -> Any:
        return self.hook.getattr(obj, prop)

    def field(self, pc: Any, name: str) -> Any:
        return getattr(pc, name)

    def desc(self, typ: str, sdp_text: str) -> Any:
        return SimpleNamespace(type=typ, sdp=sdp_text)
