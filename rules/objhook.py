"""Small object model for finite-domain evaluation of codec classes with engine.peval:
constructor calls (dataclasses and classes with __init__), bytes(obj), Class.classmethod(...), obj.method(...),
struct pack/unpack.  Objects are SimpleNamespace instances tagged with __cls__ (ClassInfo)."""
from __future__ import annotations

import ast
import struct
from types import SimpleNamespace
from typing import Any, Callable, Dict, List, Optional

from engine.index import ClassInfo, Program, Unknown, unparse
from engine.peval import Evaluator, Raised, Ret


class ClassRef:
    def __init__(self, ci: ClassInfo) -> None:
        self.ci = ci


class Obj(SimpleNamespace):
    """instance of an interpreted class that defines __init__: usable as a dictionary key (identity hash); equality stays attribute-wise as for every SimpleNamespace"""
    __hash__ = object.__hash__


def make_hook(prog: Program, extra: Callable[[ast.Call, Evaluator], Any] = None):
    def instantiate(ci: ClassInfo, args: List[Any], kwargs: Dict[str, Any], ev: Evaluator) -> Any:
        if hook.enum_kind(ci) and len(args) == 1:
            for name in ci.attrs:
                m = hook.enum_member(ci, name)
                if (m if hook.enum_kind(ci) == "int" else m.value) == args[0]:
                    return m
            raise Raised("ValueError", ast.Constant(value=None))
        init = prog.find_method(ci, "__init__")
        obj = Obj(__cls__=ci) if init is not None else SimpleNamespace(__cls__=ci)
        if init is not None:
            run_method(init, obj, args, kwargs)
            return obj
        # dataclass: fields in declaration order with defaults
        names: List[str] = []
        for c in reversed(prog.mro(ci)):
            for n in c.ann:
                if n not in names:
                    names.append(n)
        for c in prog.mro(ci):
            for n, d in c.attrs.items():
                if n in names and not hasattr(obj, n):
                    try:
                        if isinstance(d, ast.Call) and unparse(d.func) == "field":
                            for k in d.keywords:
                                if k.arg == "default_factory":
                                    setattr(obj, n, {"list": [], "dict": {}, "set": set()}.get(unparse(k.value), None))
                        else:
                            setattr(obj, n, Evaluator(prog, c.module, c).ev(d))
                    except Unknown:
                        pass
        for n, v in zip(names, args):
            setattr(obj, n, v)
        for k, v in kwargs.items():
            setattr(obj, k, v)
        return obj

    def run_method(fi, self_obj: Any, args: List[Any], kwargs: Dict[str, Any]) -> Any:
        sub = Evaluator(prog, fi.module, fi.cls, {}, hook)
        params = [p.arg for p in fi.pos_params]
        a = fi.node.args
        for p, d in zip(params[len(params) - len(a.defaults):], a.defaults):
            try:
                sub.env[p] = sub.ev(d)
            except Unknown:
                sub.env[p] = None
        bound = [self_obj] + list(args) if fi.kind in ("method", "property", "classmethod") else list(args)
        for p, v in zip(params, bound):
            sub.env[p] = v
        for k, v in kwargs.items():
            sub.env[k] = v
        from engine.peval import is_generator
        gen = is_generator(fi.node)
        try:
            sub.exec_block(fi.node.body)
        except Ret as r:
            return sub.env.get("__yields__", []) if gen else r.value
        return sub.env.get("__yields__", []) if gen else None

    def hook(call: ast.Call, ev: Evaluator) -> Any:
        if extra is not None:
            r = extra(call, ev)
            if r is not NotImplemented:
                return r
        f = call.func
        name = unparse(f)
        if name in ("pack", "struct.pack"):
            try:
                return struct.pack(*[x for a in call.args for x in (ev.ev(a.value) if isinstance(a, ast.Starred) else [ev.ev(a)])])
            except struct.error:
                raise Raised("struct.error", call)
        if name in ("unpack", "unpack_from", "struct.unpack", "struct.unpack_from"):
            try:
                fn = struct.unpack if name.endswith("unpack") else struct.unpack_from
                return fn(*[ev.ev(a) for a in call.args])
            except struct.error:
                raise Raised("struct.error", call)
        if name == "os.urandom":
            return bytes(ev.ev(call.args[0]))
        args = None

        def get_args():
            return [ev.ev(a) for a in call.args], {k.arg: ev.ev(k.value) for k in call.keywords}

        # constructor by class name / cls
        if isinstance(f, ast.Name):
            target = ev.env.get(f.id)
            if isinstance(target, ClassRef):
                a, k = get_args()
                return instantiate(target.ci, a, k, ev)
            if f.id not in ev.env:
                r = prog.resolve_name(ev.module, f.id)
                if r and r[0] == "class":
                    a, k = get_args()
                    return instantiate(r[1], a, k, ev)
            if f.id == "str" and len(call.args) == 1 and "str" not in ev.env:
                v = ev.ev(call.args[0])
                if isinstance(v, SimpleNamespace) and hasattr(v, "__cls__"):
                    return to_str(v)
                return str(v)
            if f.id == "bytes" and len(call.args) == 1:
                v = ev.ev(call.args[0])
                if isinstance(v, SimpleNamespace) and hasattr(v, "__cls__"):
                    m = prog.find_method(v.__cls__, "__bytes__")
                    if m is None:
                        raise Unknown("no __bytes__")
                    return run_method(m, v, [], {})
                return bytes(v)
            if f.id == "filter" and len(call.args) == 2:
                fn = call.args[0]
                seq = ev.ev(call.args[1])
                if isinstance(fn, ast.Lambda):
                    out = []
                    for x in seq:
                        sub = Evaluator(prog, ev.module, ev.cls, dict(ev.env), hook)
                        sub.env[fn.args.args[0].arg] = x
                        if sub.ev(fn.body):
                            out.append(x)
                    return out
        if isinstance(f, ast.Attribute):
            # module.Class(...) / module.function(...) / module.Class.classmethod(...) for modules of the analysed package
            if isinstance(f.value, ast.Name) and f.value.id not in ev.env:
                r = prog.resolve_name(ev.module, f.value.id)
                if r and r[0] == "module":
                    r2 = prog.resolve_name(r[1], f.attr)
                    if r2 and r2[0] == "class":
                        a, k = get_args()
                        return instantiate(r2[1], a, k, ev)
                    if r2 and r2[0] == "func":
                        a, k = get_args()
                        return ev.call_function(r2[1], a, k)
            if isinstance(f.value, ast.Attribute) and isinstance(f.value.value, ast.Name) and f.value.value.id not in ev.env:
                r = prog.resolve_name(ev.module, f.value.value.id)
                if r and r[0] == "module":
                    r2 = prog.resolve_name(r[1], f.value.attr)
                    if r2 and r2[0] == "class":
                        m = prog.find_method(r2[1], f.attr)
                        if m is not None:
                            a, k = get_args()
                            return run_method(m, ClassRef(r2[1]), a, k) if m.kind == "classmethod" else run_method(m, None, a, k)
            # Class.classmethod(...)
            if isinstance(f.value, ast.Name) and f.value.id not in ev.env:
                r = prog.resolve_name(ev.module, f.value.id)
                if r and r[0] == "class":
                    m = prog.find_method(r[1], f.attr)
                    if m is not None:
                        a, k = get_args()
                        return run_method(m, ClassRef(r[1]), a, k) if m.kind == "classmethod" else run_method(m, None, a, k)
            try:
                base = ev.ev(f.value)
            except Unknown:
                base = None
            if isinstance(base, ClassRef):
                m = prog.find_method(base.ci, f.attr)
                if m is not None:
                    a, k = get_args()
                    return run_method(m, base, a, k) if m.kind == "classmethod" else run_method(m, None, a, k)
            if isinstance(base, SimpleNamespace) and hasattr(base, "__cls__"):
                m = prog.find_method(base.__cls__, f.attr)
                if m is not None:
                    a, k = get_args()
                    return run_method(m, base, a, k)
        return NotImplemented

    enum_members: Dict[Any, Any] = {}
    class_attr_cache: Dict[Any, Any] = {}

    def enum_kind(ci: ClassInfo) -> Optional[str]:
        for c in prog.mro(ci):
            for b in c.base_exprs:
                n = b.attr if isinstance(b, ast.Attribute) else getattr(b, "id", "")
                if n in ("IntEnum", "IntFlag"):
                    return "int"
                if n in ("Enum", "Flag"):
                    return "obj"
        return None

    def enum_member(ci: ClassInfo, attr: str) -> Any:
        """IntEnum members are modelled by their int value, Enum members by one object per member (identity equality)."""
        if attr not in ci.attrs:
            return NotImplemented
        val = Evaluator(prog, ci.module, ci).ev(ci.attrs[attr])
        if enum_kind(ci) == "int":
            return val
        key = (ci.qualname, attr)
        if key not in enum_members:
            enum_members[key] = SimpleNamespace(__cls__=ci, name=attr, value=val)
        return enum_members[key]

    def resolve(r: Any) -> Any:
        if r[0] == "class":
            return ClassRef(r[1])
        return NotImplemented

    def get_attr(base: Any, attr: str) -> Any:
        if isinstance(base, ClassRef) and enum_kind(base.ci):
            return enum_member(base.ci, attr)
        if isinstance(base, ClassRef):
            a = prog.class_attr_expr(base.ci, attr)
            if a:
                return Evaluator(prog, a[0].module, a[0], {}, hook).ev(a[1])
        if isinstance(base, SimpleNamespace) and hasattr(base, "__cls__"):
            a = prog.class_attr_expr(base.__cls__, attr)
            if a and prog.find_method(base.__cls__, attr) is None:
                # a class attribute is one object shared by all instances: evaluated once (mutable class-level state is visible as such)
                key = (a[0].qualname, attr)
                if key not in class_attr_cache:
                    class_attr_cache[key] = Evaluator(prog, a[0].module, a[0], {}, hook).ev(a[1])
                return class_attr_cache[key]
        if isinstance(base, SimpleNamespace) and hasattr(base, "__cls__"):
            m = prog.find_method(base.__cls__, attr)
            if m is not None and m.kind == "property":
                return run_method(m, base, [], {})
            if m is not None and not vars(base).get(attr):
                # a bound method taken as a value (callback registration): an opaque reference
                return SimpleNamespace(bound_method=m.qualname, bound_self=base)
        return NotImplemented

    def to_str(v: Any) -> str:
        if isinstance(v, SimpleNamespace) and hasattr(v, "__cls__"):
            m = prog.find_method(v.__cls__, "__str__")
            if m is None:
                raise Unknown("no __str__ on " + v.__cls__.qualname)
            return run_method(m, v, [], {})
        return str(v)

    hook.getattr = get_attr  # type: ignore
    hook.resolve = resolve  # type: ignore
    hook.enum_kind = enum_kind  # type: ignore
    hook.enum_member = enum_member  # type: ignore
    hook.to_str = to_str  # type: ignore
    hook.instantiate = instantiate  # type: ignore
    hook.run_method = run_method  # type: ignore
    return hook


def new(prog: Program, hook, qualname: str, **kw: Any) -> Any:
    ev = Evaluator(prog, prog.cls(qualname).module, None, {}, hook)
    return hook.instantiate(prog.cls(qualname), [], kw, ev)
