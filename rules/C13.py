"""C13 — data-channel lifecycle: faithful open, forward-only states, exact bufferedAmount.

  C13-TS     every _setReadyState(<literal>) call site: the set of possible prior states (from dominating guards,
             construction in the same function, or callers) only allows forward transitions; __readyState has two writers
  C13-DCEP   DATA_CHANNEL_OPEN writer and reader agree for every combination of ordering / reliability settings and for
             non-ASCII labels and protocols (finite-domain evaluation of both bodies)
  C13-BUF    bufferedAmount is increased by len(X) for the very bytes X that are queued and decreased by len(X) after X
             has been handed to _send; `bufferedamountlow` fires exactly on downward crossings (finite evaluation)
  C13-ID     automatic ids start with different parity per role and advance by 2; a stream reset is only queued for a
             channel that has an id; when the association closes every remaining channel is closed unconditionally
  C13-CLOSEALL every container of the transport that can hold a channel (registered table, pending-message queue) is drained when the
             association closes
  C13-LIFE   (rules/C13life.py) lifecycle scenarios between two abstract transports evaluated end to end: open with every settings class,
             messages both ways, close from either side, id reuse, simultaneous opens, negotiated pairs, close before the ACK, overlapping closes
  C13-RESETQ completing a stream-reset request clears it and then restarts _transmit_reconfig (overlapping close() calls)
Does not decide: behaviour under fault schedules and open/close races beyond the transition relation.
"""
from __future__ import annotations

import ast
import itertools
import struct
from types import SimpleNamespace
from typing import Any, Dict, List, Optional, Set

from engine.callgraph import CallGraph
from engine.events import EventsDomain, EvState
from engine.index import AnalysisError, Program, Unknown, unparse, walk_no_nested
from engine.peval import Evaluator, Raised, Ret
from engine.report import Report, mk_finding
from engine.types import Types

PROP = "C13"
T = "rtcsctptransport.RTCSctpTransport"
DC = "rtcdatachannel.RTCDataChannel"
ORDER = ["connecting", "open", "closing", "closed"]


def run(rep: Report, prog: Program, tier: str) -> None:
    rep.explanation = (
        "Typestate of readyState decided per call site from dominating guards (must-event analysis) evaluated over the four states; "
        "DCEP writer/reader agreement and the bufferedamountlow predicate decided by evaluating the function bodies (AST level) over "
        "enumerated finite domains; buffered-amount pairing, id allocation and close-all decided structurally / by must-event analysis."
    )
    sctp = prog.module("rtcsctptransport")
    tcls = prog.cls(T)
    types = Types(prog)
    cg = CallGraph(prog, types)

    # ---------------- C13-TS
    rep.rule("C13-TS", "readyState only moves forward", min_instances=7)
    sites = 0
    for fi in prog.iter_functions(["rtcsctptransport", "rtcdatachannel", "rtcpeerconnection"]):
        calls = [n for n in walk_no_nested(fi.node) if isinstance(n, ast.Call) and isinstance(n.func, ast.Attribute) and n.func.attr == "_setReadyState"]
        if not calls:
            continue
        states_at: Dict[int, EvState] = {}

        def observe(node, st, f):
            if isinstance(node, ast.Call) and isinstance(node.func, ast.Attribute) and node.func.attr == "_setReadyState":
                states_at[id(node)] = st

        EventsDomain(prog, lambda n, f: [], observe).run(fi)
        constructed = {unparse(n.targets[0]) for n in walk_no_nested(fi.node) if isinstance(n, ast.Assign) and isinstance(n.value, ast.Call)
                       and unparse(n.value.func) == "RTCDataChannel"}
        callers = {cs.caller.qualname for cs in cg.callers_of(fi)}
        for c in calls:
            sites += 1
            new = prog.try_const(c.args[0], fi.module, fi.cls) if c.args else None
            if new not in ORDER:
                rep.fail(mk_finding(prog, PROP, "C13-TS", fi, c, f"readyState set to a non-literal / unknown state {unparse(c)}"))
                continue
            recv = unparse(c.func.value)
            prior: Set[str] = set(ORDER)
            why = "no guard"
            if recv in constructed:
                prior, why = {"connecting"}, "channel constructed in this function"
            elif callers and callers <= {DC + ".__init__"}:
                prior, why = {"connecting"}, "only called from RTCDataChannel.__init__"
            else:
                st = states_at.get(id(c))
                if st is not None:
                    for g, truth in st.guards:
                        if f"{recv}.readyState" not in g:
                            continue
                        keep = set()
                        for s_ in prior:
                            try:
                                expr = ast.parse(g, mode="eval").body
                                v = Evaluator(prog, fi.module, fi.cls, {f"{recv}.readyState": s_}).ev(expr)
                            except (Unknown, SyntaxError):
                                v = truth
                            if bool(v) == truth:
                                keep.add(s_)
                        prior = keep
                        why = f"guard {'' if truth else 'not '}({g})"
            bad = [p for p in prior if ORDER.index(p) > ORDER.index(new)]
            what = f"{fi.qualname}: {unparse(c)} from {sorted(prior, key=ORDER.index)}"
            if bad:
                rep.fail(mk_finding(prog, PROP, "C13-TS", fi, c,
                                    f"readyState can move backwards here: prior state may be {sorted(bad, key=ORDER.index)} ({why}) and is set to '{new}'"))
            else:
                rep.ok("C13-TS", what, sample=why)
    if sites < 7:
        raise AnalysisError(f"only {sites} _setReadyState call sites found; expected >= 7")
    writers = sorted({fi.qualname for fi in prog.iter_functions() for n in walk_no_nested(fi.node)
                      if isinstance(n, ast.Attribute) and isinstance(n.ctx, ast.Store) and n.attr == "__readyState"})
    if writers == [DC + ".__init__", DC + "._setReadyState"]:
        rep.ok("C13-TS", "__readyState is written only by __init__ and _setReadyState", sample=str(writers))
    else:
        rep.fail(mk_finding(prog, PROP, "C13-TS", prog.func(DC + "._setReadyState"), None, f"unexpected writers of __readyState: {writers}", construct="readyState writers"))

    # ---------------- C13-DCEP
    rep.rule("C13-DCEP", "DATA_CHANNEL_OPEN writer/reader agreement", min_instances=40)
    w = prog.func(T + "._data_channel_open")
    r = prog.func(T + "._data_channel_receive")

    def hook(call: ast.Call, ev: Evaluator) -> Any:
        name = unparse(call.func)
        if name == "pack":
            try:
                return struct.pack(*[ev.ev(a) for a in call.args])
            except struct.error:
                raise Raised("struct.error", call)
        if name == "unpack_from":
            try:
                return struct.unpack_from(*[ev.ev(a) for a in call.args])
            except struct.error:
                raise Raised("struct.error", call)
        if name.endswith("ensure_future") or name in ("self._data_channel_flush", "self.__log_debug"):
            return None
        if name == "RTCDataChannelParameters":
            return SimpleNamespace(**{k.arg: ev.ev(k.value) for k in call.keywords})
        if name == "RTCDataChannel":
            return SimpleNamespace(parameters=ev.ev(call.args[1]), state=[])
        if name.endswith("._setReadyState"):
            return None
        if name == "self.emit":
            ev.env.setdefault("@emitted", []).append([ev.ev(a) for a in call.args])
            return None
        return NotImplemented

    n_cases = 0
    for ordered, (mr, mplt), label, proto in itertools.product(
            [True, False], [(None, None), (0, None), (5, None), (None, 0), (None, 1), (None, 700), (65535, None), (None, 65535)], ["", "chat", "héllo ✓"], ["", "ö-proto"]):
        n_cases += 1
        ch = SimpleNamespace(id=7, ordered=ordered, maxRetransmits=mr, maxPacketLifeTime=mplt, label=label, protocol=proto)
        desc = f"ordered={ordered} maxRetransmits={mr} maxPacketLifeTime={mplt} label={label!r} protocol={proto!r}"
        try:
            q: List[Any] = []
            ev = Evaluator(prog, sctp, tcls, {"channel": ch, "self._data_channels": {}, "self._data_channel_queue": q}, hook)
            ev.exec_block(w.node.body)
            if len(q) != 1:
                raise AnalysisError("DCEP open message was not queued exactly once")
            _c, ppid, data = q[0]
            env = {"stream_id": 7, "pp_id": ppid, "data": data, "self._data_channels": {}, "self._data_channel_queue": []}
            ev2 = Evaluator(prog, sctp, tcls, env, hook)
            try:
                ev2.exec_block(r.node.body)
            except Ret:
                pass
            emitted = ev2.env.get("@emitted", [])
        except Unknown as u:
            raise AnalysisError(f"C13-DCEP: cannot evaluate DCEP code: {u}")
        except Raised as ex:
            rep.fail(mk_finding(prog, PROP, "C13-DCEP", r, ex.node, f"{desc}: the open message raises {ex.name}", construct=f"dcep {desc}"))
            continue
        got = emitted[0][1].parameters if emitted and emitted[0][0] == "datachannel" else None
        ok = got is not None and len(emitted) == 1 and got.label == label and got.protocol == proto and got.ordered == ordered \
            and got.maxRetransmits == mr and got.maxPacketLifeTime == mplt and got.id == 7
        if ok:
            rep.ok("C13-DCEP", f"dcep {desc}", sample=f"open message {data[:12].hex()}.. decodes to the same settings, one datachannel event")
        else:
            rep.fail(mk_finding(prog, PROP, "C13-DCEP", r, r.node,
                                f"{desc}: the remote side sees {vars(got) if got is not None else 'no datachannel event'}", construct=f"dcep {desc}"))
    rep.analysed["dcep_cases"] = n_cases

    # ---------------- C13-BUF
    rep.rule("C13-BUF", "bufferedAmount pairing and threshold event", min_instances=30)
    send = prog.func(T + "._data_channel_send")
    body = [unparse(s) for s in send.node.body]
    app = [s for s in body if s.startswith("self._data_channel_queue.append(")]
    ok = False
    if len(app) == 1:
        tup = ast.parse(app[0], mode="eval").body.args[0]
        if isinstance(tup, ast.Tuple) and len(tup.elts) == 3:
            x = unparse(tup.elts[2])
            inc = f"channel._addBufferedAmount(len({x}))"
            ok = inc in body and body.index(inc) < body.index(app[0]) and unparse(tup.elts[0]) == "channel"
    if ok:
        rep.ok("C13-BUF", "_data_channel_send: +len(X) for the very bytes X queued", sample=inc)
    else:
        rep.fail(mk_finding(prog, PROP, "C13-BUF", send, send.node, "the bytes queued are not the bytes added to bufferedAmount", construct="buffered increment"))
    flush = prog.func(T + "._data_channel_flush")
    dec_ok = False
    for n in walk_no_nested(flush.node):
        if isinstance(n, ast.If):
            for branch in (n.body, n.orelse):
                texts = [unparse(s) for s in branch]
                sends = [i for i, t in enumerate(texts) if t.startswith("await self._send(")]
                decs = [i for i, t in enumerate(texts) if t == "channel._addBufferedAmount(-len(user_data))"]
                if sends and decs and decs[0] > sends[-1] and "user_data" in texts[sends[-1]]:
                    dec_ok = True
    pops = [unparse(s) for s in walk_no_nested(flush.node) if isinstance(s, ast.Assign) and "popleft()" in unparse(s.value)]
    if dec_ok and pops == ["channel, protocol, user_data = self._data_channel_queue.popleft()"]:
        rep.ok("C13-BUF", "_data_channel_flush: -len(X) after X went to _send, same channel", sample=pops[0])
    else:
        rep.fail(mk_finding(prog, PROP, "C13-BUF", flush, flush.node, "bufferedAmount is not decreased by len() of the bytes handed to _send on the same channel", construct="buffered decrement"))
    others = sorted({fi.qualname for fi in prog.iter_functions() for n in walk_no_nested(fi.node)
                     if isinstance(n, ast.Call) and isinstance(n.func, ast.Attribute) and n.func.attr == "_addBufferedAmount"})
    if others == [T + "._data_channel_flush", T + "._data_channel_send"]:
        rep.ok("C13-BUF", "no other caller of _addBufferedAmount", sample=str(others))
    else:
        rep.fail(mk_finding(prog, PROP, "C13-BUF", send, None, f"unexpected callers of _addBufferedAmount: {others}", construct="buffered callers"))
    aba = prog.func(DC + "._addBufferedAmount")
    dcm = prog.module("rtcdatachannel")

    def hook2(call, ev):
        if unparse(call.func) == "self.emit":
            ev.env.setdefault("@emitted", []).append(ev.ev(call.args[0]))
            return None
        return NotImplemented

    for before, amount, thr in itertools.product(range(0, 4), range(-3, 4), range(0, 4)):
        if before + amount < 0:
            continue
        obj = SimpleNamespace(bufferedAmountLowThreshold=thr)
        setattr(obj, "__bufferedAmount", before)
        env = {"self": obj, "amount": amount}
        ev = Evaluator(prog, dcm, prog.cls(DC), env, hook2)
        try:
            ev.exec_block(aba.node.body)
        except Unknown as u:
            raise AnalysisError(f"cannot evaluate _addBufferedAmount: {u}")
        fired = ev.env.get("@emitted", []) == ["bufferedamountlow"]
        after = getattr(obj, "__bufferedAmount")
        want = before > thr and before + amount <= thr
        cell = f"before={before} amount={amount} threshold={thr}"
        if fired == want and after == before + amount and ev.env.get("@emitted", []) in ([], ["bufferedamountlow"]):
            rep.ok("C13-BUF", f"_addBufferedAmount {cell}", sample=f"fires={fired}, bufferedAmount -> {after}")
        else:
            rep.fail(mk_finding(prog, PROP, "C13-BUF", aba, aba.node, f"{cell}: event fired={fired} (expected {want}), bufferedAmount -> {after}", construct=f"bufferedamountlow {cell}"))

    # ---------------- C13-ID
    rep.rule("C13-ID", "id allocation, reset only with an id, close-all", min_instances=4)
    start = prog.func(T + ".start")
    ids = {}
    for n in walk_no_nested(start.node):
        if isinstance(n, ast.If) and unparse(n.test) == "self.is_server":
            for br, key in ((n.body, True), (n.orelse, False)):
                for s in br:
                    if isinstance(s, ast.Assign) and unparse(s.targets[0]) == "self._data_channel_id":
                        ids[key] = prog.try_const(s.value, sctp)
    if set(ids) == {True, False} and isinstance(ids[True], int) and isinstance(ids[False], int) and ids[True] % 2 != ids[False] % 2:
        rep.ok("C13-ID", f"initial ids: server {ids[True]}, client {ids[False]}", sample="different parity")
    else:
        rep.fail(mk_finding(prog, PROP, "C13-ID", start, start.node, f"initial data channel ids per role are {ids}: they can collide", construct="id parity"))
    steps = [unparse(s) for s in walk_no_nested(flush.node) if isinstance(s, ast.AugAssign) and unparse(s.target) == "stream_id"]
    if steps == ["stream_id += 2"]:
        rep.ok("C13-ID", "ids advance by 2", sample=steps[0])
    else:
        rep.fail(mk_finding(prog, PROP, "C13-ID", flush, flush.node, f"id step is {steps}", construct="id step"))
    close = prog.func(T + "._data_channel_close")
    seen = []

    def ob(node, st: EvState, f):
        if isinstance(node, ast.Call) and unparse(node.func) == "self._reconfig_queue.append":
            seen.append((node, st.has_guard("channel.id is not None", True) or st.has_guard("channel.id is None", False)))

    EventsDomain(prog, lambda n, f: [], ob).run(close)
    if not seen:
        raise AnalysisError("_reconfig_queue.append not found in _data_channel_close")
    for node, guarded in seen:
        if guarded and unparse(node.args[0]) == "channel.id":
            rep.ok("C13-ID", f"_data_channel_close: {unparse(node)}", sample="dominated by `channel.id is not None`")
        else:
            rep.fail(mk_finding(prog, PROP, "C13-ID", close, node,
                                "a stream reset is queued for channel.id, which is None until the channel's first flush: closing right after "
                                "creating the channel makes the RE-CONFIG request unserialisable and the channel never closes"))
    # close-all on association CLOSED
    ss = prog.func(T + "._set_state")
    target = None
    for n in walk_no_nested(ss.node):
        if isinstance(n, ast.If):
            node = n
            while True:
                if "State.CLOSED" in unparse(node.test):
                    for s in node.body:
                        if isinstance(s, ast.For) and "_data_channels" in unparse(s.iter):
                            target = s
                    break
                if len(node.orelse) == 1 and isinstance(node.orelse[0], ast.If):
                    node = node.orelse[0]
                else:
                    break
    if target is None:
        raise AnalysisError("_set_state(CLOSED): loop over _data_channels not found")
    callee = None
    for s in target.body:
        if isinstance(s, ast.Expr) and isinstance(s.value, ast.Call) and unparse(s.value.func).startswith("self."):
            callee = prog.func(T + "." + unparse(s.value.func)[5:])
    if callee is None:
        raise AnalysisError("_set_state(CLOSED): per-channel call not found")
    exits_bad = []
    closed_sites = []

    def ob3(node, st: EvState, f):
        if isinstance(node, ast.Call) and isinstance(node.func, ast.Attribute) and node.func.attr == "_setReadyState" \
                and node.args and prog.try_const(node.args[0], f.module) == "closed":
            closed_sites.append([g for g, t in st.guards if not (g.endswith(" is not None") and t) and not (g.endswith(" is None") and not t)])

    EventsDomain(prog, lambda n, f: [], ob3).run(callee)
    if not closed_sites:
        exits_bad.append(["no _setReadyState('closed') in " + callee.name])
    elif all(cs_ for cs_ in closed_sites):
        exits_bad.append(sorted(set(g for cs_ in closed_sites for g in cs_)))
    if exits_bad:
        rep.fail(mk_finding(prog, PROP, "C13-ID", ss, target,
                            f"when the association closes each channel is passed to {callee.name}(), which can return without closing the channel "
                            f"(the close is conditional on {exits_bad[0][:3]}): such a channel never reaches 'closed' and keeps its id",
                            construct=f"close-all via {callee.name}"))
    else:
        rep.ok("C13-ID", f"_set_state(CLOSED): every remaining channel goes through {callee.name}()", sample="sets 'closed' on every exit where the channel exists")

    # ---------------- C13-RESETQ (shared with C02-KICK)
    rep.rule("C13-RESETQ", "overlapping close() calls: the reset queue is restarted after each completed request", min_instances=1)
    from .common import reset_rekick_rule
    reset_rekick_rule(rep, prog, PROP, "C13-RESETQ")

    # ---------------- C13-CLOSEALL (shared with C19)
    rep.rule("C13-CLOSEALL", "closing the association closes the channels in every container that can hold one", min_instances=2)
    from .common import close_all_channels_rule
    close_all_channels_rule(rep, prog, PROP, "C13-CLOSEALL")

    # ---------------- C13-LIFE (rules/C13life.py): lifecycle scenarios between two abstract transports
    from .C13life import run_life
    run_life(rep, prog, tier)

    # ---------------- C13-POLICY (rules/C13life.py): per-channel reliability parameters at the hand-over to _send()
    from .C13life import run_policy
    run_policy(rep, prog, PROP, "C13-POLICY")
    from .C13life import run_open_first
    run_open_first(rep, prog, PROP, "C13-OPENFIRST")
    close_once_rule(rep, prog)


def close_once_rule(rep: Report, prog: Program) -> None:
    """C13-CLOSEONCE: _data_channel_close() evaluated for every ready state of the channel: a channel that is already closing / closed is left alone - a second stream reset for the
    same id would go out after the id has been freed and tear down whichever channel re-uses it."""
    from collections import deque
    RULE = "C13-CLOSEONCE"
    rep.rule(RULE, "closing a channel queues at most one stream reset for its id", min_instances=6)
    fi = prog.func("rtcsctptransport.RTCSctpTransport._data_channel_close")

    def hk(call: ast.Call, ev: Evaluator) -> Any:
        nm = unparse(call.func)
        if nm == "channel._setReadyState":
            ev.env["channel"].readyState = ev.ev(call.args[0])
            return None
        if nm.endswith("ensure_future"):
            return None
        if nm == "self._transmit_reconfig":
            return None
        if nm == "deque":
            return deque(*[ev.ev(a) for a in call.args])
        return NotImplemented
    for established in (True, False):
        for state in ("connecting", "open", "closing", "closed"):
            ch = SimpleNamespace(id=5, readyState=state, negotiated=False, label="x", protocol="", ordered=True, maxRetransmits=None, maxPacketLifeTime=None, bufferedAmount=0)
            st = SimpleNamespace(ESTABLISHED="ESTABLISHED", CLOSED="CLOSED")
            me = SimpleNamespace(_association_state="ESTABLISHED" if established else "CLOSED", State=st, _reconfig_queue=[5] if state == "closing" and established else [],
                                 _data_channel_queue=deque(), _data_channels={5: ch} if state != "closed" else {}, _outbound_stream_seq={}, _inbound_streams={}, _data_channel_id=1,
                                 _reconfig_request=None)
            before = list(me._reconfig_queue)
            ev = Evaluator(prog, fi.module, fi.cls, {"self": me, "channel": ch}, hk)
            try:
                try:
                    ev.exec_block(fi.node.body)
                except Ret:
                    pass
            except Raised as ex:
                rep.fail(mk_finding(prog, PROP, RULE, fi, getattr(ex, "node", None), f"close() on a channel that is {state} ({'established' if established else 'no'} association) raises {ex.name}", construct=f"close {state} raises"))
                continue
            except Unknown as ex:
                # (a supplementary evaluation on a minimal stand-in object: code that needs more of the transport than the stand-in has is left to the lifecycle rules)
                rep.ok(RULE, f"close() on a channel that is {state}: not decided ({str(ex)[:60]})", nontrivial=False)
                continue
            what = f"close() on a channel that is {state}, association {'established' if established else 'not established'}"
            if state in ("closing", "closed"):
                ok = me._reconfig_queue == before and ch.readyState == state
                want = "nothing changes"
            elif established:
                ok = me._reconfig_queue == [5] and ch.readyState == "closing"
                want = "one reset queued, channel closing"
            else:
                ok = me._reconfig_queue == [] and ch.readyState == "closed" and 5 not in me._data_channels
                want = "closed at once, id freed"
            if ok:
                rep.ok(RULE, what, sample=want)
            else:
                rep.fail(mk_finding(prog, PROP, RULE, fi, fi.node, f"{what}: reset queue {before} -> {me._reconfig_queue}, channel is {ch.readyState}; expected: {want}", construct=f"close on {state} channel"))
