"""C09 — session descriptions survive parse / serialise round trips.

  C09-ATTR   writer/reader attribute tables: every line kind SessionDescription.__str__ / MediaDescription.__str__ can emit
             (`x=` prefixes and `a=<name>` literals, plus the direction attribute) has a branch in the matching loop of
             SessionDescription.parse (session loop for session lines, media loops for media lines); DTLS_ROLE_SETUP and
             DTLS_SETUP_ROLE are mutual inverses; SSRC_INFO_ATTRS is the table used by both sides
  C09-ROUND  the ast of writer and reader is evaluated by the checker's interpreter on an enumerated family of descriptions
             shaped like createOffer/createAnswer output (audio / video / application sections, every optional field present
             and absent one at a time, all directions and DTLS roles): str(parse(str(d))) == str(d) and parse recovers every
             field that was put in
  C09-IDEM   for accepted texts the library would not generate (session-level ICE/DTLS attributes, extmap directions,
             wildcard rtcp-fb, unknown attributes, legacy sctpmap, ...) one round of parse-and-serialise is idempotent
  C09-CAND   candidate_to_sdp / candidate_from_sdp agree on host/srflx/relay x udp/tcp x optional raddr/rport/tcptype, IPv4
             and IPv6; the contrib signaling codec strips exactly the prefix it adds
  C09-FMTP   parameters_to_sdp / parameters_from_sdp agree for None / 0 / non-zero / empty / '='-bearing values
These decide agreement of the sibling writer/reader implementations on class representatives, not equality for all texts.
"""
from __future__ import annotations

import ast
import ipaddress
import itertools
import json
import re
from types import SimpleNamespace
from typing import Any, Dict, List, Optional, Set, Tuple

from engine.index import AnalysisError, Program, Unknown, unparse, walk_no_nested
from engine.peval import Evaluator, Raised, Ret
from engine.report import Report, mk_finding

from .objhook import ClassRef, make_hook, new

PROP = "C09"
SD = "sdp.SessionDescription"
MD = "sdp.MediaDescription"


# ------------------------------------------------------------------ interpreter glue
def build_hook(prog: Program, outer=None):
    def extra(call: ast.Call, ev: Evaluator) -> Any:
        if outer is not None:
            r_ = outer(call, ev)
            if r_ is not NotImplemented:
                return r_
        name = unparse(call.func)
        if name == "re.match":
            return re.match(*[ev.ev(x) for x in call.args])
        if name == "ipaddress.ip_address":
            try:
                return ipaddress.ip_address(ev.ev(call.args[0]))
            except ValueError:
                raise Raised("ValueError", call)
        if name == "json.loads":
            try:
                return json.loads(ev.ev(call.args[0]))
            except ValueError:
                raise Raised("ValueError", call)
        if name == "json.dumps":
            return json.dumps(ev.ev(call.args[0]), **{k.arg: ev.ev(k.value) for k in call.keywords})
        if isinstance(call.func, ast.Attribute) and call.func.attr == "group":
            b = ev.ev(call.func.value)
            if isinstance(b, re.Match):
                return b.group(*[ev.ev(x) for x in call.args])
        if name == "str" and len(call.args) == 1:
            return hook.to_str(ev.ev(call.args[0]))
        if name == "map" and len(call.args) == 2:
            f = call.args[0]
            seq = ev.ev(call.args[1])
            fn = None
            if isinstance(f, ast.Name):
                if f.id in ev.env:
                    fn = ev.env[f.id]
                    if fn is str:
                        fn = hook.to_str
                elif f.id == "str":
                    fn = hook.to_str
                elif f.id == "int":
                    fn = int
            if fn is None:
                return NotImplemented   # lambdas and other callables: the interpreter's generic map
            try:
                return [fn(x) for x in seq]
            except ValueError:
                raise Raised("ValueError", call)
        if name == "int" and call.args:
            try:
                return int(*[ev.ev(x) for x in call.args])
            except (ValueError, TypeError):
                raise Raised("ValueError", call)
        if name == "getattr":
            a = [ev.ev(x) for x in call.args]
            try:
                return getattr(*a)
            except AttributeError:
                raise Raised("AttributeError", call)
        if name == "setattr":
            setattr(*[ev.ev(x) for x in call.args])
            return None
        if name == "isinstance" and len(call.args) == 2:
            v = ev.ev(call.args[0])
            t = call.args[1]
            if isinstance(t, ast.Name):
                if isinstance(v, SimpleNamespace) and hasattr(v, "__cls__"):
                    r = prog.resolve_name(ev.module, t.id)
                    return bool(r and r[0] == "class" and r[1] in prog.mro(v.__cls__))
                if t.id in ("str", "int", "bytes", "dict", "list"):
                    return isinstance(v, {"str": str, "int": int, "bytes": bytes, "dict": dict, "list": list}[t.id])
                return False
        if name == "next":
            seq = ev.ev(call.args[0])
            for x in seq:
                return x
            if len(call.args) > 1:
                return ev.ev(call.args[1])
            raise Raised("StopIteration", call)
        if isinstance(call.func, ast.Attribute) and call.func.attr in ("split", "index"):
            # str.split / list.index with Python's error behaviour
            base = ev.ev(call.func.value)
            if isinstance(base, (str, list)):
                try:
                    return getattr(base, call.func.attr)(*[ev.ev(x) for x in call.args])
                except ValueError:
                    raise Raised("ValueError", call)
        return NotImplemented

    hook = make_hook(prog, extra)
    inner = hook.getattr

    def ga(base: Any, attr: str) -> Any:
        if isinstance(base, (ipaddress.IPv4Address, ipaddress.IPv6Address)) and attr == "version":
            return base.version
        return inner(base, attr)

    hook.getattr = ga  # type: ignore
    return hook


def plain(v: Any) -> Any:
    """Object graph -> comparable plain structure."""
    if isinstance(v, SimpleNamespace):
        return {k: plain(x) for k, x in vars(v).items() if k != "__cls__"}
    if isinstance(v, dict):
        return {k: plain(x) for k, x in v.items()}
    if isinstance(v, (list, tuple)):
        return [plain(x) for x in v]
    return v


def diff(a: Any, b: Any, path: str = "") -> Optional[str]:
    if isinstance(a, dict) and isinstance(b, dict):
        for k in sorted(set(a) | set(b), key=str):
            if k not in a or k not in b:
                return f"{path}.{k}: present on one side only"
            d = diff(a[k], b[k], f"{path}.{k}")
            if d:
                return d
        return None
    if isinstance(a, list) and isinstance(b, list):
        if len(a) != len(b):
            return f"{path}: {len(a)} element(s) put in, {len(b)} recovered"
        for i, (x, y) in enumerate(zip(a, b)):
            d = diff(x, y, f"{path}[{i}]")
            if d:
                return d
        return None
    if a != b or type(a) is not type(b):
        return f"{path}: put in {a!r}, recovered {b!r}"
    return None


# ------------------------------------------------------------------ C09-ATTR
def emitted_lines(fi, prog: Program = None, _seen: Set[str] = None) -> List[Tuple[str, ast.AST]]:
    """(kind, node) for every line literal the writer can emit: 'v=' ... or 'a=<name>' or 'a=<dynamic:expr>'; helper methods of the class that the writer calls are followed."""
    out = []
    _seen = _seen if _seen is not None else set()
    _seen.add(fi.qualname)
    if prog is not None and fi.cls is not None:
        for c in walk_no_nested(fi.node):
            if isinstance(c, ast.Call) and isinstance(c.func, ast.Attribute) and unparse(c.func.value) == "self":
                h = prog.find_method(fi.cls, c.func.attr)
                if h is not None and h.qualname not in _seen:
                    out += emitted_lines(h, prog, _seen)
    inner = {id(v) for n in walk_no_nested(fi.node) if isinstance(n, ast.JoinedStr) for v in n.values}
    for n in walk_no_nested(fi.node):
        lit = None
        dyn = None
        if id(n) in inner:
            continue
        if isinstance(n, ast.Constant) and isinstance(n.value, str):
            lit = n.value
        elif isinstance(n, ast.JoinedStr) and n.values and isinstance(n.values[0], ast.Constant):
            lit = n.values[0].value
            if len(n.values) > 1 and isinstance(n.values[1], ast.FormattedValue):
                dyn = n.values[1].value
        if lit is None or not re.match(r"^[a-z]=", lit):
            continue
        if lit.startswith("a="):
            name = re.match(r"^a=([A-Za-z0-9-]*)", lit).group(1)
            if name == "" and lit == "a=" and dyn is not None:
                out.append(("a=<" + unparse(dyn) + ">", n))
            elif name:
                out.append(("a=" + name, n))
            else:
                raise AnalysisError(f"cannot classify emitted line literal {lit!r} in {fi.qualname}")
        else:
            out.append((lit[:2], n))
    return out


def handled_lines(parse, prog: Program) -> Dict[str, Set[str]]:
    """scope ('session' | 'media') -> set of handled line kinds."""
    sess_var = media_var = None
    for n in walk_no_nested(parse.node):
        if isinstance(n, ast.Assign) and isinstance(n.value, ast.Call) and unparse(n.value.func) == "grouplines" \
                and isinstance(n.targets[0], ast.Tuple) and len(n.targets[0].elts) == 2:
            sess_var, media_var = (unparse(x) for x in n.targets[0].elts)
    if sess_var is None:
        raise AnalysisError("grouplines() split not found in SessionDescription.parse")
    out: Dict[str, Set[str]] = {"session": set(), "media": set()}

    def scan(stmts: List[ast.stmt], scope: Optional[str], group_var: Optional[str]) -> None:
        for s in stmts:
            if isinstance(s, ast.For):
                it = unparse(s.iter)
                if it == sess_var:
                    scan(s.body, "session", None)
                elif it == media_var:
                    scan(s.body, None, unparse(s.target))
                elif group_var is not None and it.startswith(group_var):
                    scan(s.body, "media", group_var)
                else:
                    scan(s.body, scope, group_var)
                continue
            if isinstance(s, ast.If) and scope is not None:
                for t in ast.walk(s.test):
                    if isinstance(t, ast.Compare) and len(t.ops) == 1:
                        l, r = unparse(t.left), t.comparators[0]
                        if l == "attr" and isinstance(t.ops[0], ast.Eq) and isinstance(r, ast.Constant):
                            out[scope].add("a=" + r.value)
                        if l == "attr" and isinstance(t.ops[0], ast.In):
                            v = prog.try_const(r, parse.module, parse.cls)
                            if isinstance(v, (list, tuple, set)):
                                out[scope].update("a=" + x for x in v)
                                if unparse(r) == "DIRECTIONS":
                                    out[scope].add("a=<self.direction>")
                    if isinstance(t, ast.Call) and isinstance(t.func, ast.Attribute) and t.func.attr == "startswith" \
                            and unparse(t.func.value) == "line" and t.args and isinstance(t.args[0], ast.Constant):
                        out[scope].add(t.args[0].value)
            for name in ("body", "orelse", "finalbody"):
                sub = getattr(s, name, None)
                if isinstance(sub, list) and sub and isinstance(sub[0], ast.stmt):
                    scan(sub, scope, group_var)
            for h in getattr(s, "handlers", []) or []:
                scan(h.body, scope, group_var)

    scan(parse.node.body, None, None)
    return out


# ------------------------------------------------------------------ generated descriptions
class Gen:
    def __init__(self, prog: Program, hook, deep: bool = False) -> None:
        self.prog = prog
        self.hook = hook
        self.deep = deep

    def mk(self, q: str, **kw: Any) -> Any:
        return new(self.prog, self.hook, q, **kw)

    def cand(self, typ="host", proto="udp", ip="192.168.1.5", raddr=None, rport=None, tcptype=None) -> Any:
        return self.mk("rtcicetransport.RTCIceCandidate", component=1, foundation="0f3a", ip=ip, port=40812,
                       priority=2130706431, protocol=proto, type=typ, relatedAddress=raddr, relatedPort=rport, tcpType=tcptype)

    def media(self, kind: str, mid: str, **o: Any) -> Any:
        mk = self.mk
        if kind == "application":
            legacy = o.get("legacy", False)
            md = self.hook.instantiate(self.prog.cls(MD), [], dict(
                kind=kind, port=9, profile="DTLS/SCTP" if legacy else "UDP/DTLS/SCTP",
                fmt=["5000"] if legacy else ["webrtc-datachannel"]), None)
            if legacy:
                md.sctpmap[5000] = "webrtc-datachannel 65535"
            else:
                md.sctp_port = 5000
            md.sctpCapabilities = mk("rtcsctptransport.RTCSctpCapabilities", maxMessageSize=o.get("mms", 65536))
        else:
            if kind == "audio":
                codecs = [
                    mk("rtcrtpparameters.RTCRtpCodecParameters", mimeType="audio/opus", clockRate=48000, channels=2, payloadType=96,
                       parameters=o.get("params", {"minptime": 10, "useinbandfec": 1})),
                    mk("rtcrtpparameters.RTCRtpCodecParameters", mimeType="audio/PCMU", clockRate=8000, channels=1, payloadType=0),
                ]
            else:
                fb = [mk("rtcrtpparameters.RTCRtcpFeedback", type="nack"), mk("rtcrtpparameters.RTCRtcpFeedback", type="nack", parameter="pli"),
                      mk("rtcrtpparameters.RTCRtcpFeedback", type="goog-remb")]
                if o.get("fb_multi"):
                    # RFC 5104: a feedback parameter may itself contain blanks
                    fb.append(mk("rtcrtpparameters.RTCRtcpFeedback", type="ccm", parameter="tmmbr smaxpr=120"))
                codecs = [
                    mk("rtcrtpparameters.RTCRtpCodecParameters", mimeType="video/VP8", clockRate=90000, payloadType=97, rtcpFeedback=fb),
                    mk("rtcrtpparameters.RTCRtpCodecParameters", mimeType="video/rtx", clockRate=90000, payloadType=98, parameters={"apt": 97}),
                    mk("rtcrtpparameters.RTCRtpCodecParameters", mimeType="video/H264", clockRate=90000, payloadType=99,
                       rtcpFeedback=[mk("rtcrtpparameters.RTCRtcpFeedback", type="nack")],
                       parameters=o.get("params", {"level-asymmetry-allowed": "1", "packetization-mode": "1", "profile-level-id": "42e01f"})),
                ]
            md = self.hook.instantiate(self.prog.cls(MD), [], dict(kind=kind, port=9, profile="UDP/TLS/RTP/SAVPF",
                                                                    fmt=[c.payloadType for c in codecs]), None)
            md.direction = o.get("direction", "sendrecv")
            md.msid = o.get("msid", "stream-1 track-" + mid)
            md.rtp.codecs = codecs
            md.rtp.headerExtensions = [] if o.get("noext") else [
                mk("rtcrtpparameters.RTCRtpHeaderExtensionParameters", id=o.get("extids", (1, 0))[0], uri="urn:ietf:params:rtp-hdrext:sdes:mid"),
                mk("rtcrtpparameters.RTCRtpHeaderExtensionParameters", id=o["extids"][1] if o.get("extids") else 2 if kind == "audio" else 3,
                   uri="urn:ietf:params:rtp-hdrext:ssrc-audio-level" if kind == "audio" else "http://www.webrtc.org/experiments/rtp-hdrext/abs-send-time"),
            ]
            if o.get("rtcp", True):
                md.rtcp_port = 9
                md.rtcp_host = o.get("rtcp_host", "0.0.0.0")
                md.rtcp_mux = o.get("rtcp_mux", True)
            if not o.get("nossrc"):
                md.ssrc = [mk("sdp.SsrcDescription", ssrc=1234567, cname="cn-1")]
                if kind == "video":
                    md.ssrc.append(mk("sdp.SsrcDescription", ssrc=7654321, cname="cn-1"))
                    md.ssrc_group = [mk("sdp.GroupDescription", semantic="FID", items=[1234567, 7654321])]
                if o.get("ssrc_sep"):
                    md.ssrc[0].cname = "user:1 @host"  # separators of the line format inside a value
                if o.get("ssrc_full"):
                    md.ssrc[0].msid = "stream-1 track-1"
                    md.ssrc[0].mslabel = "stream-1"
                    md.ssrc[0].label = "track-1"
        md.rtp.muxId = o.get("mid_override", mid)
        cands = o.get("cands")
        if cands is None:
            cands = [self.cand(), self.cand("srflx", ip="1.2.3.4", raddr="192.168.1.5", rport=40812)]
        md.ice_candidates = cands
        md.ice_candidates_complete = o.get("complete", True)
        md.host = o.get("host", cands[0].ip if cands else "0.0.0.0")
        md.port = cands[0].port if cands else 9
        md.ice = mk("rtcicetransport.RTCIceParameters", usernameFragment=o.get("ufrag", "wxyz"), password=o.get("pwd", "secretsecretsecretsecr"),
                    iceLite=o.get("lite", False))
        md.ice_options = o.get("ice_options")
        fps = [mk("rtcdtlstransport.RTCDtlsFingerprint", algorithm="sha-256", value="AA:BB:CC:01"),
               mk("rtcdtlstransport.RTCDtlsFingerprint", algorithm="sha-384", value="DD:EE:FF:02")][: o.get("nfp", 2)]
        if o.get("odd_fp"):
            # hash functions the DTLS layer does not use are still part of the description
            fps = [mk("rtcdtlstransport.RTCDtlsFingerprint", algorithm="sha-1", value="01:02:03"), mk("rtcdtlstransport.RTCDtlsFingerprint", algorithm="SHA-256", value="aa:bb")] + fps
        md.dtls = mk("rtcdtlstransport.RTCDtlsParameters", fingerprints=fps, role=o.get("role", "auto"))
        return md

    def session(self, medias: List[Any], bundle: bool = True, host: Optional[str] = None) -> Any:
        sd = self.hook.instantiate(self.prog.cls(SD), [], {}, None)
        sd.origin = "- 3890000000 3890000000 IN IP4 0.0.0.0"
        sd.host = host
        if bundle:
            sd.group = [self.mk("sdp.GroupDescription", semantic="BUNDLE", items=[m.rtp.muxId for m in medias])]
        sd.msid_semantic = [self.mk("sdp.GroupDescription", semantic="WMS", items=["*"])]
        sd.media = medias
        return sd

    def family(self) -> List[Tuple[str, Any]]:
        out: List[Tuple[str, Any]] = []
        m = self.media
        out.append(("audio+video+application, everything populated",
                    self.session([m("audio", "0", ssrc_full=True, ice_options="trickle"), m("video", "1", ice_options="trickle", fb_multi=True), m("application", "2", ice_options="trickle")], host="0.0.0.0")))
        for kind in ("audio", "video"):
            for d in ("inactive", "sendonly", "recvonly", "sendrecv"):
                out.append((f"{kind} {d}", self.session([m(kind, "0", direction=d)])))
        for role in ("auto", "client", "server"):
            out.append((f"role {role}", self.session([m("audio", "0", role=role), m("application", "1", role=role)])))
        variants: List[Tuple[str, Dict[str, Any]]] = [
            ("no candidates, gathering incomplete", dict(cands=[], complete=False)),
            ("no header extensions", dict(noext=True)),
            ("header extension ids of the two-byte form (15 and 255)", dict(extids=(15, 255))),
            ("header extension ids 14 and 16", dict(extids=(14, 16))),
            ("no ssrc", dict(nossrc=True)),
            ("no rtcp line", dict(rtcp=False)),
            ("rtcp without mux", dict(rtcp_mux=False)),
            ("rtcp without host", dict(rtcp_host=None)),
            ("one fingerprint", dict(nfp=1)),
            ("ice-lite", dict(lite=True)),
            ("ice options", dict(ice_options="trickle renomination")),
            ("IPv6 host candidate", dict(cands=[self.cand(ip="2001:db8::1"), self.cand("relay", ip="2001:db8::2", raddr="2001:db8::1", rport=5000)])),
            ("tcp candidates", dict(cands=[self.cand(proto="tcp", tcptype="passive"), self.cand("srflx", proto="tcp", ip="1.2.3.4", raddr="10.0.0.1", rport=9, tcptype="active")])),
            ("fmtp: zero / empty / flag values", dict(params={"stereo": 0, "useinbandfec": 1, "x-flag": None, "x-empty": "", "cbr": "0"})),
            ("fmtp: none", dict(params={})),
            ("msid absent", dict(msid=None)),
            ("multi-token rtcp-fb parameter", dict(fb_multi=True)),
            ("fingerprints with other hash functions / upper-case names", dict(odd_fp=True)),
            ("separators inside ssrc attribute values", dict(ssrc_sep=True)),
            ("mid containing a colon", dict(mid_override="a:1")),
        ]
        for label, o in variants:
            out.append((f"audio: {label}", self.session([m("audio", "0", **o)])))
            out.append((f"video: {label}", self.session([m("video", "0", **o)], bundle=False)))
        if self.deep:
            # thorough tier: every pair of option classes at once, and every (direction, role) pair
            for (l1, o1), (l2, o2) in itertools.combinations(variants, 2):
                if set(o1) & set(o2):
                    continue
                o = dict(o1, **o2)
                out.append((f"audio: {l1} + {l2}", self.session([m("audio", "0", **o)])))
                out.append((f"video+application: {l1} + {l2}", self.session([m("video", "0", **o), m("application", "1", lite=o.get("lite", False))])))  # ice-lite is a session-level fact
            for d in ("inactive", "sendonly", "recvonly", "sendrecv"):
                for role in ("auto", "client", "server"):
                    out.append((f"audio {d} / role {role} + video", self.session([m("audio", "0", direction=d, role=role), m("video", "1", direction=d, role=role)])))
        out.append(("application only", self.session([m("application", "0")])))
        out.append(("application legacy sctpmap", self.session([m("application", "0", legacy=True)])))
        out.append(("application, no candidates", self.session([m("application", "0", cands=[], complete=False)])))
        out.append(("two audio, one video, application", self.session([m("audio", "0"), m("audio", "1", direction="recvonly"), m("video", "2"), m("application", "3")])))
        out.append(("no media", self.session([], bundle=False)))
        # what createOffer() emits for a connection without transceivers / channels: a BUNDLE group without members
        out.append(("no media, BUNDLE group without members", self.session([], bundle=True)))
        sd = self.session([m("audio", "0")])
        sd.msid_semantic = [self.mk("sdp.GroupDescription", semantic="WMS", items=[])]
        out.append(("audio, msid-semantic without members", sd))
        # nothing of the transport description is shared between unbundled sections
        out.append(("unbundled sections with their own ICE credentials / roles / fingerprints / options",
                    self.session([m("audio", "0", ufrag="aaaa", pwd="p" * 22, role="client", nfp=1, ice_options="trickle"),
                                  m("video", "1", ufrag="bbbb", pwd="q" * 22, role="server", nfp=2, cands=[self.cand(ip="10.0.0.7")]),
                                  m("application", "2", ufrag="cccc", pwd="r" * 22, role="auto", odd_fp=True, ice_options="renomination")], bundle=False)))
        out.append(("bundled sections, second section with other credentials",
                    self.session([m("audio", "0"), m("video", "1", ufrag="zzzz", pwd="s" * 24)])))
        return out


FOREIGN = [
    ("session-level ICE/DTLS attributes",
     "v=0\r\no=- 1 2 IN IP4 127.0.0.1\r\ns=-\r\nt=0 0\r\na=ice-ufrag:abcd\r\na=ice-pwd:pwdpwdpwdpwdpwdpwdpwdpw\r\na=ice-options:trickle\r\n"
     "a=fingerprint:sha-256 AA:BB\r\na=setup:actpass\r\na=group:BUNDLE 0\r\na=msid-semantic:WMS *\r\n"
     "m=audio 9 UDP/TLS/RTP/SAVPF 111\r\nc=IN IP4 0.0.0.0\r\na=mid:0\r\na=sendrecv\r\na=rtcp-mux\r\na=rtpmap:111 opus/48000/2\r\n"),
    ("extmap with direction, wildcard rtcp-fb, unknown attributes",
     "v=0\r\no=- 1 2 IN IP4 127.0.0.1\r\ns=-\r\nt=0 0\r\nm=video 9 UDP/TLS/RTP/SAVPF 96 97\r\nc=IN IP4 0.0.0.0\r\na=rtcp:9 IN IP4 0.0.0.0\r\n"
     "a=ice-ufrag:abcd\r\na=ice-pwd:pwdpwdpwdpwdpwdpwdpwdpw\r\na=fingerprint:sha-256 AA:BB\r\na=setup:active\r\na=mid:v\r\n"
     "a=extmap:2/sendonly urn:x\r\na=extmap-allow-mixed\r\na=recvonly\r\na=rtcp-rsize\r\na=rtpmap:96 VP8/90000\r\na=rtcp-fb:* nack\r\n"
     "a=rtcp-fb:96 ccm fir\r\na=rtpmap:97 rtx/90000\r\na=fmtp:97 apt=96\r\na=ssrc:11 cname:x\r\na=ssrc:11 foo:bar\r\na=ssrc:12 cname:x\r\na=ssrc-group:FID 11 12\r\n"),
    ("multi-channel audio, fmtp before rtpmap order, ice-lite",
     "v=0\r\no=- 1 2 IN IP4 127.0.0.1\r\ns=x\r\nt=0 0\r\na=ice-lite\r\nm=audio 5004 UDP/TLS/RTP/SAVPF 96 8\r\nc=IN IP6 ::1\r\n"
     "a=fmtp:96 minptime=10;useinbandfec=1;stereo=0\r\na=rtpmap:96 multiopus/48000/6\r\na=rtpmap:8 PCMA/8000\r\na=ice-ufrag:abcd\r\n"
     "a=ice-pwd:pwdpwdpwdpwdpwdpwdpwdpw\r\na=fingerprint:sha-256 AA:BB\r\na=setup:passive\r\na=sendonly\r\na=mid:a\r\n"
     "a=candidate:1 1 UDP 2122252543 ::1 5004 typ host generation 0\r\na=end-of-candidates\r\n"),
    ("fingerprint without a=setup; static payload types with feedback next to dynamic ones",
     "v=0\r\no=- 1 2 IN IP4 127.0.0.1\r\ns=-\r\nt=0 0\r\nm=audio 9 UDP/TLS/RTP/SAVPF 96 9 0 109\r\nc=IN IP4 0.0.0.0\r\na=ice-ufrag:abcd\r\n"
     "a=ice-pwd:pwdpwdpwdpwdpwdpwdpwdpw\r\na=fingerprint:sha-256 AA:BB\r\na=mid:a\r\na=sendrecv\r\na=rtcp-mux\r\na=rtpmap:96 opus/48000/2\r\n"
     "a=rtpmap:9 G722/8000\r\na=rtcp-fb:9 nack\r\na=rtpmap:0 PCMU/8000\r\na=rtcp-fb:0 transport-cc\r\na=rtpmap:109 telephone-event/8000\r\n"),
    ("legacy data channel section, plain LF line ends",
     "v=0\no=- 1 2 IN IP4 127.0.0.1\ns=-\nt=0 0\nm=application 9 DTLS/SCTP 5000\nc=IN IP4 0.0.0.0\na=ice-ufrag:abcd\n"
     "a=ice-pwd:pwdpwdpwdpwdpwdpwdpwdpw\na=fingerprint:sha-256 AA:BB\na=setup:actpass\na=mid:data\na=sctpmap:5000 webrtc-datachannel 1024\n"
     "a=max-message-size:1073741823\n"),
]


def run(rep: Report, prog: Program, tier: str) -> None:
    rep.explanation = (
        "Static checks of sdp.py / contrib/signaling.py: (1) attribute tables extracted from the writers and from the reader must "
        "agree; (2) the asts of the writer/reader pairs are evaluated by the checker's own interpreter (engine.peval; aiortc is never "
        "imported) over an enumerated family of descriptions, candidates and fmtp dictionaries and must be mutual inverses there."
    )
    rep.assumptions += ["re, ipaddress and json of the standard library are used as oracles for the calls the analysed code makes to them",
                        "generated descriptions follow the shape produced by rtcpeerconnection.create_media_description_for_*"]
    hook = build_hook(prog)
    parse = prog.func(SD + ".parse")
    sd_str = prog.func(SD + ".__str__")
    md_str = prog.func(MD + ".__str__")

    # ---------------------------------------------------------------- C09-ATTR
    rep.rule("C09-ATTR", "every emitted line kind is handled by the reader in the matching scope", min_instances=28)
    handled = handled_lines(parse, prog)
    # the m= line is consumed by the media-group regex
    has_m = any(isinstance(n, ast.Constant) and isinstance(n.value, str) and n.value.startswith("^m=") for n in ast.walk(parse.node))
    if has_m:
        handled["media"].add("m=")
    for scope, fi in (("session", sd_str), ("media", md_str)):
        seen = set()
        for kind, node in emitted_lines(fi, prog):
            if kind in seen:
                continue
            seen.add(kind)
            if kind in handled[scope]:
                rep.ok("C09-ATTR", f"{fi.qualname}: emits {kind}", sample=f"handled in the {scope} loop of parse")
            else:
                rep.fail(mk_finding(prog, PROP, "C09-ATTR", fi, node,
                                    f"the writer emits a `{kind}` line in the {scope} section but SessionDescription.parse has no branch for it "
                                    f"there: the field is lost on a round trip", construct="emits " + kind))
    ev0 = Evaluator(prog, prog.modules["sdp"], None, {}, hook)
    try:
        r2s = ev0.ev(ast.Name(id="DTLS_ROLE_SETUP", ctx=ast.Load()))
        s2r = ev0.ev(ast.Name(id="DTLS_SETUP_ROLE", ctx=ast.Load()))
        dirs = ev0.ev(ast.Name(id="DIRECTIONS", ctx=ast.Load()))
    except Unknown as ex:
        raise AnalysisError(f"sdp role/direction tables cannot be folded: {ex}")
    anchor = prog.func("sdp.parse_attr")
    if {v: k for k, v in r2s.items()} == s2r and len(s2r) == len(r2s) == 3:
        rep.ok("C09-ATTR", "DTLS_ROLE_SETUP / DTLS_SETUP_ROLE are mutual inverses", sample=repr(r2s))
    else:
        rep.fail(mk_finding(prog, PROP, "C09-ATTR", anchor, anchor.node, f"DTLS_ROLE_SETUP={r2s!r} and DTLS_SETUP_ROLE={s2r!r} are not mutual inverses",
                            construct="DTLS role tables"))
    if sorted(dirs) == ["inactive", "recvonly", "sendonly", "sendrecv"]:
        rep.ok("C09-ATTR", "DIRECTIONS holds the four direction attributes", sample=repr(dirs))
    else:
        rep.fail(mk_finding(prog, PROP, "C09-ATTR", anchor, anchor.node, f"DIRECTIONS={dirs!r} is not the set of the four direction attributes", construct="DIRECTIONS"))
    def _with_helpers(fi_, seen_=None):
        """the function and the helpers of its class / module that it calls, transitively"""
        seen_ = seen_ if seen_ is not None else {}
        seen_[fi_.qualname] = fi_
        for c in walk_no_nested(fi_.node):
            if isinstance(c, ast.Call):
                h = None
                if isinstance(c.func, ast.Attribute) and unparse(c.func.value) in ("self", "cls") and fi_.cls is not None:
                    h = prog.find_method(fi_.cls, c.func.attr)
                elif isinstance(c.func, ast.Name):
                    h = prog.functions.get(f"{fi_.module.name}.{c.func.id}")
                if h is not None and h.qualname not in seen_:
                    _with_helpers(h, seen_)
        return list(seen_.values())
    uses = [fi.qualname for fi in (md_str, parse) if any(isinstance(n, ast.Name) and n.id == "SSRC_INFO_ATTRS" for f_ in _with_helpers(fi) for n in ast.walk(f_.node))]
    if len(uses) == 2:
        rep.ok("C09-ATTR", "SSRC_INFO_ATTRS is consulted by writer and reader", sample=", ".join(uses))
    else:
        rep.fail(mk_finding(prog, PROP, "C09-ATTR", md_str, md_str.node, "writer and reader do not share the SSRC_INFO_ATTRS table", construct="SSRC_INFO_ATTRS"))

    # ---------------------------------------------------------------- evaluation helpers
    def do_parse(text: str) -> Any:
        return hook.run_method(parse, ClassRef(prog.cls(SD)), [text], {})

    owners: Dict[int, Any] = {}

    def site(ex: Exception, default):
        """(function, node) of the raising construct."""
        node = getattr(ex, "node", None)
        if node is None or not hasattr(node, "lineno"):
            return default, default.node
        if not owners:
            for fi in prog.functions.values():
                if fi.module.name in ("sdp", "contrib.signaling", "rtcrtpparameters"):
                    for n in walk_no_nested(fi.node):
                        owners.setdefault(id(n), fi)
        return owners.get(id(node), default), node

    # ---------------------------------------------------------------- C09-ROUND
    rep.rule("C09-ROUND", "generated descriptions: fixed point and field recovery", min_instances=40)
    gen = Gen(prog, hook, deep=(tier == "thorough"))
    fam = gen.family()
    for label, sd in fam:
        try:
            t1 = hook.to_str(sd)
            d2 = do_parse(t1)
            t2 = hook.to_str(d2)
        except Raised as ex:
            rep.fail(mk_finding(prog, PROP, "C09-ROUND", *site(ex, parse),
                                f"description [{label}] generated by the writer makes parse/serialise raise {ex.name}", construct=f"raises {ex.name}"))
            continue
        except Unknown as ex:
            raise AnalysisError(f"C09-ROUND cannot evaluate [{label}]: {ex}")
        if t1 != t2:
            l1, l2 = t1.splitlines(), t2.splitlines()
            bad = next((f"{a!r} became {b!r}" for a, b in itertools.zip_longest(l1, l2) if a != b), "")
            rep.fail(mk_finding(prog, PROP, "C09-ROUND", md_str, md_str.node,
                                f"description [{label}] is not a fixed point of parse-then-serialise: line {bad}", construct="fixed point: " + bad[:60]))
            continue
        a, b = plain(sd), plain(d2)
        for mm in a["media"]:
            mm["fmt"] = [str(x) for x in mm["fmt"]]
        for mm in b["media"]:
            mm["fmt"] = [str(x) for x in mm["fmt"]]
        d = diff(a, b)
        if d:
            rep.fail(mk_finding(prog, PROP, "C09-ROUND", parse, parse.node,
                                f"description [{label}]: parsing the serialised text does not recover what was put in — {d}",
                                construct="field " + d.split(":")[0]))
        else:
            rep.ok("C09-ROUND", f"[{label}]", sample=f"{len(t1.splitlines())} lines, fixed point, all fields recovered")

    # ---------------------------------------------------------------- C09-IDEM
    rep.rule("C09-IDEM", "accepted foreign texts: one round is idempotent", min_instances=4)
    for label, text in FOREIGN:
        try:
            d1 = do_parse(text)
        except Raised as ex:
            raise AnalysisError(f"C09-IDEM corpus text [{label}] is no longer accepted ({ex.name}); the corpus must be refreshed")
        except Unknown as ex:
            raise AnalysisError(f"C09-IDEM cannot evaluate [{label}]: {ex}")
        try:
            t1 = hook.to_str(d1)
            t2 = hook.to_str(do_parse(t1))
        except Raised as ex:
            rep.fail(mk_finding(prog, PROP, "C09-IDEM", parse, getattr(ex, "node", None), f"text [{label}] is accepted by the parser but serialising what was parsed (or parsing that again) raises {ex.name}",
                                construct=f"accepted text cannot be serialised: {ex.name}"))
            continue
        except Unknown as ex:
            raise AnalysisError(f"C09-IDEM cannot evaluate [{label}]: {ex}")
        if t1 == t2:
            rep.ok("C09-IDEM", f"[{label}]", sample=f"{len(t1.splitlines())} lines after one round, unchanged by the second")
        else:
            bad = next((f"{a!r} became {b!r}" for a, b in itertools.zip_longest(t1.splitlines(), t2.splitlines()) if a != b), "")
            rep.fail(mk_finding(prog, PROP, "C09-IDEM", parse, parse.node,
                                f"text [{label}]: a second parse-and-serialise round changes the text: {bad}", construct="idempotence: " + bad[:60]))

    # ---------------------------------------------------------------- C09-FRESH: a parser hands out a fresh object on every call
    # (the callers write into what they get: signaling.object_from_string sets sdpMid / sdpMLineIndex on the candidate, setRemoteDescription edits parsed sections;
    #  a memoised parser makes two parsed objects one, and a message sequence no longer comes back as it was sent)
    rep.rule("C09-FRESH", "no function of the description / candidate codecs that returns a mutable object is memoised", min_instances=10)
    MEMO = {"lru_cache", "cache", "cached_property"}
    for mname in ("sdp", "contrib.signaling", "rtcsessiondescription"):
        m_ = prog.modules.get(mname)
        if m_ is None:
            continue
        for fn in [n for n in ast.walk(m_.tree) if isinstance(n, (ast.FunctionDef, ast.AsyncFunctionDef))]:
            decos = [unparse(d.func if isinstance(d, ast.Call) else d).split(".")[-1] for d in fn.decorator_list]
            memo = [d for d in decos if d in MEMO]
            ret = unparse(fn.returns) if fn.returns is not None else ""
            immutable = ret in ("str", "int", "bool", "float", "bytes", "None", "Optional[str]", "Optional[int]") or ret.startswith(("tuple[", "Tuple["))
            if memo and not immutable:
                fi_ = next((f for f in prog.functions.values() if f.node is fn), None) if hasattr(prog, "functions") else None
                rep.fail(mk_finding(prog, PROP, "C09-FRESH", fi_ or parse, fn, f"`{fn.name}` is decorated with {memo[0]} and returns {ret or 'an object'}: every caller gets the same mutable object, "
                                    "so what one caller writes into it (sdpMid, sdpMLineIndex, edits of a parsed section) shows up in every other parse of the same text",
                                    construct=f"memoised {fn.name}"))
            else:
                rep.ok("C09-FRESH", f"{mname}.{fn.name}", nontrivial=bool(decos))

    # ---------------------------------------------------------------- C09-CAND
    rep.rule("C09-CAND", "candidate lines and the signaling codec round-trip", min_instances=40)
    c_to = prog.func("sdp.candidate_to_sdp")
    c_from = prog.func("sdp.candidate_from_sdp")
    sig_to = prog.func("contrib.signaling.object_to_string")
    sig_from = prog.func("contrib.signaling.object_from_string")
    ev_sdp = Evaluator(prog, prog.modules["sdp"], None, {}, hook)
    ev_sig = Evaluator(prog, prog.modules["contrib.signaling"], None, {}, hook)
    combos = []
    for typ, proto, ip in itertools.product(("host", "srflx", "relay"), ("udp", "tcp"), ("192.168.1.5", "2001:db8::1")):
        for raddr, rport, tcptype in itertools.product((None, "10.0.0.1" if ":" not in ip else "2001:db8::2"), (None, 3478), (None, "passive")):
            combos.append((typ, proto, ip, raddr, rport, tcptype))
    for typ, proto, ip, raddr, rport, tcptype in combos:
        c = gen.cand(typ, proto, ip, raddr, rport, tcptype)
        label = f"{typ}/{proto}/{ip}" + (" raddr" if raddr else "") + (" rport" if rport else "") + (" tcptype" if tcptype else "")
        try:
            line = ev_sdp.call_function(c_to, [c])
            c2 = ev_sdp.call_function(c_from, [line])
            line2 = ev_sdp.call_function(c_to, [c2])
        except Raised as ex:
            rep.fail(mk_finding(prog, PROP, "C09-CAND", *site(ex, c_from), f"candidate [{label}] raises {ex.name} on a round trip", construct=f"raises {ex.name}"))
            continue
        except Unknown as ex:
            raise AnalysisError(f"C09-CAND cannot evaluate [{label}]: {ex}")
        d = diff(plain(c), plain(c2))
        if line != line2 or d:
            rep.fail(mk_finding(prog, PROP, "C09-CAND", c_from, c_from.node,
                                f"candidate [{label}] does not round-trip: {d or (line + ' became ' + line2)}", construct="candidate " + (d or "text").split(":")[0]))
        else:
            rep.ok("C09-CAND", f"candidate_to_sdp/from_sdp [{label}]", sample=line)
        # signaling codec
        c.sdpMid = "0"
        c.sdpMLineIndex = 0
        try:
            env = dict(obj=c)
            msg = run_sig(prog, hook, sig_to, [c])
            back = run_sig(prog, hook, sig_from, [msg])
        except Raised as ex:
            rep.fail(mk_finding(prog, PROP, "C09-CAND", *site(ex, sig_from),
                                f"signaling codec raises {ex.name} for candidate [{label}]", construct=f"signaling raises {ex.name}"))
            continue
        except Unknown as ex:
            raise AnalysisError(f"C09-CAND cannot evaluate the signaling codec on [{label}]: {ex}")
        d = diff(plain(c), plain(back))
        if d:
            rep.fail(mk_finding(prog, PROP, "C09-CAND", sig_from, sig_from.node,
                                f"contrib.signaling does not hand back the candidate it was given [{label}]: {d}", construct="signaling candidate " + d.split(":")[0]))
        else:
            rep.ok("C09-CAND", f"signaling object_to_string/from_string [{label}]", sample=msg[:80])

    # ---------------------------------------------------------------- C09-FMTP
    rep.rule("C09-FMTP", "fmtp parameter dictionaries round-trip", min_instances=12)
    p_to = prog.func("sdp.parameters_to_sdp")
    p_from = prog.func("sdp.parameters_from_sdp")
    try:
        int_keys = ev0.ev(ast.Name(id="FMTP_INT_PARAMETERS", ctx=ast.Load()))
    except Unknown as ex:
        raise AnalysisError(f"FMTP_INT_PARAMETERS cannot be folded: {ex}")
    ik = int_keys[0]
    dicts: List[Dict[str, Any]] = []
    for v in (0, 1, 97, 48000):
        dicts.append({ik: v})
    for v in (None, "", "0", "1", "42e01f", "a=b", "0-15"):
        dicts.append({"x-param": v})
    dicts += [{}, {ik: 0, "x-flag": None, "x-s": "v"}, {"x-flag": None, ik: 5}, {k: 0 for k in int_keys}, {"a": "1", "b": None, "c": ""}]
    for p in dicts:
        try:
            text = ev_sdp.call_function(p_to, [dict(p)])
            back = ev_sdp.call_function(p_from, [text]) if text else {}
        except Raised as ex:
            rep.fail(mk_finding(prog, PROP, "C09-FMTP", *site(ex, p_from), f"fmtp parameters {p!r} raise {ex.name}", construct=f"raises {ex.name}"))
            continue
        except Unknown as ex:
            raise AnalysisError(f"C09-FMTP cannot evaluate {p!r}: {ex}")
        d = diff(p, back)
        if d or list(p) != list(back):
            rep.fail(mk_finding(prog, PROP, "C09-FMTP", p_to, p_to.node,
                                f"fmtp parameters {p!r} serialise to {text!r} and parse back to {back!r}", construct="fmtp value class " + type(next(iter(p.values()), None)).__name__
                                + ("/falsy" if p and not next(iter(p.values())) else "")))
        else:
            rep.ok("C09-FMTP", f"{p!r}", sample=repr(text))


def run_sig(prog: Program, hook, fi, args: List[Any]) -> Any:
    return hook.run_method(fi, None, args, {})
