"""Shared instance tables and helpers for the rules that use the facts domain."""
from __future__ import annotations

import ast
from typing import Dict, Iterable, List, Optional, Set, Tuple

from engine.absint import Absint, Config
from engine.index import AnalysisError, Program, unparse
from engine.report import Finding, Report, mk_finding, norm

# Classes whose instances are built from received bytes: every attribute read is wire data.
WIRE_CLASSES = [
    "rtcsctptransport.Chunk", "rtcsctptransport.BaseParamsChunk", "rtcsctptransport.AbortChunk",
    "rtcsctptransport.CookieAckChunk", "rtcsctptransport.CookieEchoChunk", "rtcsctptransport.DataChunk",
    "rtcsctptransport.ErrorChunk", "rtcsctptransport.ForwardTsnChunk", "rtcsctptransport.HeartbeatChunk",
    "rtcsctptransport.HeartbeatAckChunk", "rtcsctptransport.BaseInitChunk", "rtcsctptransport.InitChunk",
    "rtcsctptransport.InitAckChunk", "rtcsctptransport.ReconfigChunk", "rtcsctptransport.SackChunk",
    "rtcsctptransport.ShutdownChunk", "rtcsctptransport.ShutdownAckChunk", "rtcsctptransport.ShutdownCompleteChunk",
    "rtcsctptransport.StreamResetOutgoingParam", "rtcsctptransport.StreamAddOutgoingParam",
    "rtcsctptransport.StreamResetResponseParam",
    "rtp.RtpPacket", "rtp.HeaderExtensions", "rtp.RtcpReceiverInfo", "rtp.RtcpSenderInfo", "rtp.RtcpSourceInfo",
    "rtp.RtcpByePacket", "rtp.RtcpPsfbPacket", "rtp.RtcpRrPacket", "rtp.RtcpRtpfbPacket", "rtp.RtcpSdesPacket",
    "rtp.RtcpSrPacket",
]

# Wire-parser entries: (function, tainted parameters). Must reject with ValueError only.
PARSER_ENTRIES: List[Tuple[str, Tuple[str, ...]]] = [
    ("rtcsctptransport.parse_packet", ("data",)),
    ("rtcsctptransport.decode_params", ("body",)),
    ("rtcsctptransport.StreamResetOutgoingParam.parse", ("data",)),
    ("rtcsctptransport.StreamAddOutgoingParam.parse", ("data",)),
    ("rtcsctptransport.StreamResetResponseParam.parse", ("data",)),
    ("rtp.RtpPacket.parse", ("data",)),
    ("rtp.RtcpPacket.parse", ("data",)),
    ("rtp.unpack_remb_fci", ("data",)),
    ("rtp.unpack_header_extensions", ("extension_profile", "extension_value")),
    ("rtp.HeaderExtensionsMap.get", ("extension_profile", "extension_value")),
    ("codecs.h264.H264PayloadDescriptor.parse", ("data",)),
    ("codecs.vpx.VpxPayloadDescriptor.parse", ("data",)),
    ("codecs.depayload", ("payload",)),
]

# Receive roots: functions the DTLS receive loop calls with network bytes. Nothing but
# ConnectionError / CancelledError may escape them.
BOUNDARY_ROOTS: List[Tuple[str, Tuple[str, ...]]] = [
    ("rtcdtlstransport.RTCDtlsTransport._recv_next", ()),
    ("rtcsctptransport.RTCSctpTransport._handle_data", ("data",)),
    ("rtcdtlstransport.RTCDtlsTransport._handle_rtp_data", ("data",)),
    ("rtcdtlstransport.RTCDtlsTransport._handle_rtcp_data", ("data",)),
]
ALLOWED_AT_BOUNDARY = ("ConnectionError", "asyncio.CancelledError")

# Fields subject to the None rule (network-initialised Optional): see DESIGN C05.
NONE_FIELDS = {("rtcsctptransport.RTCSctpTransport", "_last_received_tsn")}


# Object fields that hold values copied from received packets (taint sources when read).
TAINTED_SELF_FIELDS = {
    "rtcsctptransport.RTCSctpTransport": [
        "_sack_misordered", "_sack_duplicates", "_last_received_tsn", "_inbound_streams", "_reconfig_response_seq",
        "_ssthresh", "_inbound_streams_count", "_outbound_streams_count", "_remote_extensions", "_last_sacked_tsn",
        "_remote_verification_tag",
    ],
    "rtcsctptransport.InboundStream": ["reassembly", "sequence_number"],
    "rtcrtpreceiver.NackGenerator": ["max_seq", "missing"],
    "rtcrtpreceiver.StreamStatistics": ["max_seq", "base_seq", "cycles", "_last_timestamp", "_jitter_q4"],
    "rtcrtpreceiver.TimestampMapper": ["_last", "_origin"],
    "jitterbuffer.JitterBuffer": ["_origin", "_packets"],
    "rtcrtpreceiver.RTCRtpReceiver": ["__remote_streams", "__lsr", "__active_ssrc"],
}

# Exemptions: one symbol + construct + reason each (see DESIGN C05).
EXEMPT_ASSERTS = [
    ("rtcsctptransport.InboundStream.add_chunk", "rchunk.tsn != chunk.tsn",
     "unreachable from the network: _mark_received() dominates add_chunk() (rule C01-DUP) and rejects every TSN that is "
     "<= the cumulative TSN or already in _sack_misordered; every queued chunk's TSN is in one of those two sets"),
    ("jitterbuffer.JitterBuffer.remove", "count <= self._capacity",
     "callers pass self.capacity or a frame boundary index found inside `for count in range(self.capacity)`; a statement about "
     "local loop state (remove <= count), not selected by datagram content; C10-BOUND decides the buffer bound separately"),
    ("rtp.pack_header_extensions", "x_id > 0 and x_id < 256",
     "serialiser reached only through RTCRtpSender._retransmit with locally built packets and negotiated extension ids; "
     "the name-based heap taint cannot tell HeaderExtensions-as-id-table from HeaderExtensions-as-values"),
    ("rtp.pack_header_extensions", "x_length >= 0 and x_length < 256",
     "same as above: values come from packets in the local retransmission history"),
    ("rtp.pack_rtcp_packet", "len(payload) % 4 == 0",
     "serialiser-side invariant of the RTCP classes, decided by rule C07-LEN (every __bytes__ builds its payload from "
     "4-byte multiples); not selected by datagram content"),
]
# wire-controlled loops whose bound is local state that the analysis cannot see
EXEMPT_COST = [
    ("rtcsctptransport.RTCSctpTransport._receive_sack_chunk", "for pos in range(gap[0], min(gap[1], max_pos) + 1)",
     "max_pos is the serial distance from the SACK's cumulative TSN to the last outstanding TSN; stale SACKs return early and the "
     "acknowledged prefix has been popped, so every outstanding TSN is ahead of the cumulative TSN and max_pos is at most the "
     "number of outstanding chunks (local state, not chosen by the peer)"),
]
# (function, obligation kind, construct, reason)
EXEMPT_OPS = [
    ("rate.OveruseEstimator.update", "div", "Eh[0] / denom",
     "Kalman gain denominator var_noise + h'Eh: var_noise >= 1 is proven (class invariant); positivity of the quadratic form "
     "is numeric, not structural (DESIGN C15)"),
    ("rate.OveruseEstimator.update", "div", "Eh[1] / denom", "same denominator as Eh[0] / denom"),
    ("rate.AimdRateControl.update", "sqrt", "math.sqrt(self.var_max_bitrate_kbps * self.avg_max_bitrate_kbps)",
     "var_max_bitrate_kbps is in [0.4, 2.5] (class invariant); avg_max_bitrate_kbps is a convex combination of measured throughputs, "
     "which are >= 0 because RateCounter._total is the sum of the live buckets (paired update, rule C15-WINDOW) of sizes >= 0"),
    ("rtcsctptransport.RTCSctpTransport._send_sack", "index", "gaps[-1]",
     "path correlation: the branch is taken only when tsn == gap_next, and gap_next is non-None only after a first append to gaps"),
    ("rtp.RtcpRtpfbPacket.__bytes__", "shift", "1 << d",
     "on the receive path `lost` is always sorted(set of sequence numbers), strictly increasing, so d >= 0; the unsorted / wrap-around "
     "case is not reachable from a datagram and is reported under C07-NACK instead"),
]
# cursor loops whose termination argument is a different variant measure
EXEMPT_PROGRESS = [
    ("rtcsctptransport.InboundStream.pop_messages", "while pos < len(self.reassembly)",
     "variant measure len(self.reassembly) - pos: every path back to the head either does pos += 1 or removes "
     "pos + 1 - start_pos >= 1 elements while resetting pos to start_pos, so the measure drops by exactly 1"),
]
EXEMPT_UNBOUND = [
    ("rtcsctptransport.InboundStream.pop_messages", "expected_tsn",
     "assigned in the `start_pos is None` branch, which every path takes before start_pos becomes non-None (path correlation)"),
    ("rtcsctptransport.InboundStream.pop_messages", "ordered",
     "assigned in the `start_pos is None` branch, which every path takes before start_pos becomes non-None (path correlation)"),
    ("rtcsctptransport.RTCSctpTransport._send_reconfig_param", "param_type",
     "the loop over RECONFIG_PARAM_TYPES always breaks: the parameter's annotated Union equals the registry's value set (checked)"),
]


def receive_config(prog: Program) -> Config:
    cfg = Config()
    for q in WIRE_CLASSES:
        prog.cls(q)  # anchor must exist
        cfg.wire_classes.add(q)
    for q, params in PARSER_ENTRIES + BOUNDARY_ROOTS:
        fi = prog.func(q)
        for p in params:
            if p not in fi.params:
                raise AnalysisError(f"anchor parameter {p} of {q} vanished")
        if params:
            cfg.taint_params[q] = set(params)
    for c, f in NONE_FIELDS:
        prog.cls(c)
        cfg.none_fields.add((c, f))
    cfg.div_all_modules = {"rate"}
    # the SRTP receive session exists only after a successful handshake + identity check
    prog.cls("rtcdtlstransport.RTCDtlsTransport")
    cfg.none_deref_fields.add(("rtcdtlstransport.RTCDtlsTransport", "_rx_srtp"))
    # conditional invariant, checked at every writer: _sack_needed is only set once the peer's TSN is known
    cfg.guard_implies.append(("rtcsctptransport.RTCSctpTransport", "_sack_needed", "_last_received_tsn"))
    # RTCIceTransport._recv is bound to aioice's Connection.recv: its result is the received datagram
    ice = prog.cls("rtcicetransport.RTCIceTransport")
    if not any(isinstance(n, ast.Attribute) and n.attr == "_recv" and isinstance(n.ctx, ast.Store) for n in ast.walk(ice.node)):
        raise AnalysisError("anchor RTCIceTransport._recv (bound receive function) vanished")
    cfg.taint_call_attrs["_recv"] = "bytes"
    for c, fields in TAINTED_SELF_FIELDS.items():
        prog.cls(c)
        cfg.tainted_self_fields[c] = set(fields)
    for fn, construct, _why in EXEMPT_ASSERTS:
        prog.func(fn)
        cfg.exempt_asserts.add((fn, norm(construct)))
    for fn, kind, construct, _why in EXEMPT_OPS:
        prog.func(fn)
        cfg.exempt_ops.add((fn, kind, norm(construct)))
    for fn, var, _why in EXEMPT_UNBOUND:
        prog.func(fn)
        cfg.exempt_unbound.add((fn, var))
    return cfg


def origin_finding(prog: Program, prop: str, rule: str, origin, witness_sites: List[str], message: str) -> Finding:
    fi = prog.functions.get(origin.func)
    construct = unparse(origin.node)
    if isinstance(origin.node, ast.Assert):
        construct = "assert " + unparse(origin.node.test)
    elif isinstance(origin.node, ast.While):
        construct = "while " + unparse(origin.node.test)
    elif isinstance(origin.node, (ast.For, ast.AsyncFor)):
        construct = f"for {unparse(origin.node.target)} in {unparse(origin.node.iter)}"
    elif isinstance(origin.node, ast.AugAssign):
        construct = unparse(origin.node)
    f = mk_finding(prog, prop, rule, fi, origin.node, message, construct=construct, witness=witness_sites)
    return f


def record_obligations(rep: Report, ai: Absint, rule: str, kinds: Optional[Set[str]] = None,
                       funcs: Optional[Set[str]] = None) -> Tuple[int, int, int]:
    """Count the discharged obligations of an analysis into the report (failed ones become
    findings only through escape analysis). Returns (discharged, failed, skipped)."""
    ok = bad = skipped = 0
    for (fn, nid, kind), obs in ai.results().items():
        if kinds is not None and kind not in kinds:
            continue
        if funcs is not None and fn not in funcs:
            continue
        if all(o.status == "skipped" for o in obs):
            skipped += 1
            continue
        o = obs[0]
        what = f"{fn}: {kind} `{unparse(o.node)[:100]}`"
        if all(x.ok for x in obs if x.status != "skipped"):
            ok += 1
            by = next((x.by for x in obs if x.by), "")
            fi = ai.prog.functions.get(fn)
            rep.ok(rule, what, nontrivial=bool(by), sample=f"{by} @ {fi.module.relpath if fi else ''}:{getattr(o.node, 'lineno', 0)}" if by else None)
        else:
            bad += 1
    return ok, bad, skipped
