"""Shared instance tables and helpers for the rules that use the facts domain."""
from __future__ import annotations

import ast
import re
from typing import Dict, Iterable, List, Optional, Set, Tuple

from engine.absint import Absint, Config
from engine.index import AnalysisError, Program, unparse
from engine.report import Finding, Report, mk_finding, norm

# Classes whose instances are built from received bytes: every attribute read is wire data.
WIRE_CLASSES = [
    "rtcsctptransport.Chunk", "rtcsctptransport.BaseParamsChunk", "rtcsctptransport.AbortChunk",
    "rtcsctptransport.CookieAckChunk", "rtcsctptransport.CookieEchoChunk", "rtcsctptransport.DataChunk",
    "rtcsctptransport.ErrorChunk", "rtcsctptransport.ForwardTsnChunk", "rtcsctptransport.HeartbeatChunk",
    "rtcsctptransport.HeartbeatAckChunk", "rtcsctptransport.BaseInitChunk", "rtcsctptransport.InitChunk",
    "rtcsctptransport.InitAckChunk", "rtcsctptransport.ReconfigChunk", "rtcsctptransport.SackChunk",
    "rtcsctptransport.ShutdownChunk", "rtcsctptransport.ShutdownAckChunk", "rtcsctptransport.ShutdownCompleteChunk",
    "rtcsctptransport.StreamResetOutgoingParam", "rtcsctptransport.StreamAddOutgoingParam",
    "rtcsctptransport.StreamResetResponseParam",
    "rtp.RtpPacket", "rtp.HeaderExtensions", "rtp.RtcpReceiverInfo", "rtp.RtcpSenderInfo", "rtp.RtcpSourceInfo",
    "rtp.RtcpByePacket", "rtp.RtcpPsfbPacket", "rtp.RtcpRrPacket", "rtp.RtcpRtpfbPacket", "rtp.RtcpSdesPacket",
    "rtp.RtcpSrPacket",
]

# Wire-parser entries: (function, tainted parameters). Must reject with ValueError only.
PARSER_ENTRIES: List[Tuple[str, Tuple[str, ...]]] = [
    ("rtcsctptransport.parse_packet", ("data",)),
    ("rtcsctptransport.decode_params", ("body",)),
    ("rtcsctptransport.StreamResetOutgoingParam.parse", ("data",)),
    ("rtcsctptransport.StreamAddOutgoingParam.parse", ("data",)),
    ("rtcsctptransport.StreamResetResponseParam.parse", ("data",)),
    ("rtp.RtpPacket.parse", ("data",)),
    ("rtp.RtcpPacket.parse", ("data",)),
    ("rtp.unpack_remb_fci", ("data",)),
    ("rtp.unpack_header_extensions", ("extension_profile", "extension_value")),
    ("rtp.HeaderExtensionsMap.get", ("extension_profile", "extension_value")),
    ("codecs.h264.H264PayloadDescriptor.parse", ("data",)),
    ("codecs.vpx.VpxPayloadDescriptor.parse", ("data",)),
    ("codecs.depayload", ("payload",)),
]

# Receive roots: functions the DTLS receive loop calls with network bytes. Nothing but
# ConnectionError / CancelledError may escape them.
BOUNDARY_ROOTS: List[Tuple[str, Tuple[str, ...]]] = [
    ("rtcdtlstransport.RTCDtlsTransport._recv_next", ()),
    ("rtcsctptransport.RTCSctpTransport._handle_data", ("data",)),
    ("rtcdtlstransport.RTCDtlsTransport._handle_rtp_data", ("data",)),
    ("rtcdtlstransport.RTCDtlsTransport._handle_rtcp_data", ("data",)),
]
ALLOWED_AT_BOUNDARY = ("ConnectionError", "asyncio.CancelledError")

# Fields subject to the None rule (network-initialised Optional): see DESIGN C05.
NONE_FIELDS = {("rtcsctptransport.RTCSctpTransport", "_last_received_tsn")}


# Object fields that hold values copied from received packets (taint sources when read).
TAINTED_SELF_FIELDS = {
    "rtcsctptransport.RTCSctpTransport": [
        "_sack_misordered", "_sack_duplicates", "_last_received_tsn", "_inbound_streams", "_reconfig_response_seq",
        "_ssthresh", "_inbound_streams_count", "_outbound_streams_count", "_remote_extensions", "_last_sacked_tsn",
        "_remote_verification_tag", "_advertised_rwnd",  # the window is decreased by peer-chosen lengths and can go negative
    ],
    "rtcsctptransport.InboundStream": ["reassembly", "sequence_number"],
    "rtcrtpreceiver.NackGenerator": ["max_seq", "missing"],
    "rtcrtpreceiver.StreamStatistics": ["max_seq", "base_seq", "cycles", "_last_timestamp", "_jitter_q4"],
    "rtcrtpreceiver.TimestampMapper": ["_last", "_origin"],
    "jitterbuffer.JitterBuffer": ["_origin", "_packets"],
    "rtcrtpreceiver.RTCRtpReceiver": ["__remote_streams", "__lsr", "__active_ssrc"],
}

# Exemptions: one symbol + construct + reason each (see DESIGN C05).
EXEMPT_ASSERTS = [
    ("rtcsctptransport.InboundStream.add_chunk", "rchunk.tsn != chunk.tsn",
     "unreachable from the network: _mark_received() dominates add_chunk() (rule C01-DUP) and rejects every TSN that is "
     "<= the cumulative TSN or already in _sack_misordered; every queued chunk's TSN is in one of those two sets"),
    ("jitterbuffer.JitterBuffer.remove", "count <= self._capacity",
     "callers pass self.capacity or a frame boundary index found inside `for count in range(self.capacity)`; a statement about "
     "local loop state (remove <= count), not selected by datagram content; C10-BOUND decides the buffer bound separately"),
    ("rtp.pack_header_extensions", "x_id > 0 and x_id < 256",
     "serialiser reached only through RTCRtpSender._retransmit with locally built packets and negotiated extension ids; "
     "the name-based heap taint cannot tell HeaderExtensions-as-id-table from HeaderExtensions-as-values"),
    ("rtp.pack_header_extensions", "x_length >= 0 and x_length < 256",
     "same as above: values come from packets in the local retransmission history"),
    ("rtp.pack_rtcp_packet", "len(payload) % 4 == 0",
     "serialiser-side invariant of the RTCP classes, decided by rule C07-LEN (every __bytes__ builds its payload from "
     "4-byte multiples); not selected by datagram content"),
]
# wire-controlled loops whose bound is local state that the analysis cannot see
EXEMPT_COST = [
    ("rtcsctptransport.RTCSctpTransport._receive_sack_chunk", "for pos in range(gap[0], min(gap[1], max_pos) + 1)",
     "max_pos is the serial distance from the SACK's cumulative TSN to the last outstanding TSN; stale SACKs return early and the "
     "acknowledged prefix has been popped, so every outstanding TSN is ahead of the cumulative TSN and max_pos is at most the "
     "number of outstanding chunks (local state, not chosen by the peer)"),
]
# (function, obligation kind, construct, reason)
EXEMPT_OPS = [
    ("rate.OveruseEstimator.update", "div", "Eh[0] / denom",
     "Kalman gain denominator var_noise + h'Eh: var_noise >= 1 is proven (class invariant); positivity of the quadratic form "
     "is numeric, not structural (DESIGN C15)"),
    ("rate.OveruseEstimator.update", "div", "Eh[1] / denom", "same denominator as Eh[0] / denom"),
    ("rate.AimdRateControl.update", "sqrt", "math.sqrt(self.var_max_bitrate_kbps * self.avg_max_bitrate_kbps)",
     "var_max_bitrate_kbps is in [0.4, 2.5] (class invariant); avg_max_bitrate_kbps is a convex combination of measured throughputs, "
     "which are >= 0 because RateCounter._total is the sum of the live buckets (paired update, rule C15-WINDOW) of sizes >= 0"),
    ("rate.OveruseEstimator.update_noise_estimate", "pow", "pow(1 - alpha, ts_delta * 30.0 / 1000.0)",
     "base 1 - alpha is 0.99 or 0.998 (proven), so the power can only overflow for a large negative exponent; ts_delta is the minimum over "
     "ts_delta_hist and the current timestamp_delta_ms, all of which are deltas.timestamp * TIMESTAMP_TO_MS with deltas.timestamp = uint32_add(...) >= 0 "
     "(modular difference); the chain through the dataclass field and the history list is beyond the interval domain"),
    ("rtcsctptransport.RTCSctpTransport._send_sack", "index", "gaps[-1]",
     "path correlation: the branch is taken only when tsn == gap_next, and gap_next is non-None only after a first append to gaps"),
    ("rtp.RtcpRtpfbPacket.__bytes__", "shift", "1 << d",
     "on the receive path `lost` is always sorted(set of sequence numbers), strictly increasing, so d >= 0; the unsorted / wrap-around "
     "case is not reachable from a datagram and is reported under C07-NACK instead"),
]
# cursor loops whose termination argument is a different variant measure
EXEMPT_PROGRESS = [
    ("rtcsctptransport.InboundStream.pop_messages", "while pos < len(self.reassembly)",
     "variant measure len(self.reassembly) - pos: every path back to the head either does pos += 1 or removes "
     "pos + 1 - start_pos >= 1 elements while resetting pos to start_pos, so the measure drops by exactly 1"),
]
EXEMPT_UNBOUND = [
    ("rtcsctptransport.InboundStream.pop_messages", "expected_tsn",
     "assigned in the `start_pos is None` branch, which every path takes before start_pos becomes non-None (path correlation)"),
    ("rtcsctptransport.InboundStream.pop_messages", "ordered",
     "assigned in the `start_pos is None` branch, which every path takes before start_pos becomes non-None (path correlation)"),
    ("rtcsctptransport.RTCSctpTransport._send_reconfig_param", "param_type",
     "the loop over RECONFIG_PARAM_TYPES always breaks: the parameter's annotated Union equals the registry's value set (checked)"),
]


def receive_config(prog: Program) -> Config:
    cfg = Config()
    for q in WIRE_CLASSES:
        prog.cls(q)  # anchor must exist
        cfg.wire_classes.add(q)
    for q, params in PARSER_ENTRIES + BOUNDARY_ROOTS:
        fi = prog.func(q)
        for p in params:
            if p not in fi.params:
                raise AnalysisError(f"anchor parameter {p} of {q} vanished")
        if params:
            cfg.taint_params[q] = set(params)
    for c, f in NONE_FIELDS:
        prog.cls(c)
        cfg.none_fields.add((c, f))
    cfg.div_all_modules = {"rate"}
    # the SRTP receive session exists only after a successful handshake + identity check
    prog.cls("rtcdtlstransport.RTCDtlsTransport")
    cfg.none_deref_fields.add(("rtcdtlstransport.RTCDtlsTransport", "_rx_srtp"))
    # conditional invariant, checked at every writer: _sack_needed is only set once the peer's TSN is known
    cfg.guard_implies.append(("rtcsctptransport.RTCSctpTransport", "_sack_needed", "_last_received_tsn"))
    # RTCIceTransport._recv is bound to aioice's Connection.recv: its result is the received datagram
    ice = prog.cls("rtcicetransport.RTCIceTransport")
    if not any(isinstance(n, ast.Attribute) and n.attr == "_recv" and isinstance(n.ctx, ast.Store) for n in ast.walk(ice.node)):
        raise AnalysisError("anchor RTCIceTransport._recv (bound receive function) vanished")
    cfg.taint_call_attrs["_recv"] = "bytes"
    for c, fields in TAINTED_SELF_FIELDS.items():
        prog.cls(c)
        cfg.tainted_self_fields[c] = set(fields)
    for fn, construct, _why in EXEMPT_ASSERTS:
        prog.func(fn)
        cfg.exempt_asserts.add((fn, norm(construct)))
    for fn, kind, construct, _why in EXEMPT_OPS:
        prog.func(fn)
        cfg.exempt_ops.add((fn, kind, norm(construct)))
        # the same construct with renamed locals, or moved into a helper of the same class, keeps its exemption (the reason is about the class's state)
        from engine.report import shape
        fi_ = prog.func(fn)
        scope_ = fi_.cls.qualname if fi_.cls is not None else fi_.module.name
        if not hasattr(cfg, "exempt_op_shapes"):
            cfg.exempt_op_shapes = set()
        sh_ = shape(construct)
        # a shape made of placeholders only (`_[-1]`, `1 << _`) is too generic for the whole class: it stays tied to its function
        cfg.exempt_op_shapes.add((scope_ if ("self." in sh_ or "(" in sh_) else fn, kind, sh_))
    for fn, var, _why in EXEMPT_UNBOUND:
        prog.func(fn)
        cfg.exempt_unbound.add((fn, var))
    return cfg


def origin_finding(prog: Program, prop: str, rule: str, origin, witness_sites: List[str], message: str) -> Finding:
    fi = prog.functions.get(origin.func)
    construct = unparse(origin.node)
    if isinstance(origin.node, ast.Assert):
        construct = "assert " + unparse(origin.node.test)
    elif isinstance(origin.node, ast.While):
        construct = "while " + unparse(origin.node.test)
    elif isinstance(origin.node, (ast.For, ast.AsyncFor)):
        construct = f"for {unparse(origin.node.target)} in {unparse(origin.node.iter)}"
    elif isinstance(origin.node, ast.AugAssign):
        construct = unparse(origin.node)
    f = mk_finding(prog, prop, rule, fi, origin.node, message, construct=construct, witness=witness_sites)
    return f


def record_obligations(rep: Report, ai: Absint, rule: str, kinds: Optional[Set[str]] = None,
                       funcs: Optional[Set[str]] = None) -> Tuple[int, int, int]:
    """Count the discharged obligations of an analysis into the report (failed ones become
    findings only through escape analysis). Returns (discharged, failed, skipped)."""
    ok = bad = skipped = 0
    for (fn, nid, kind), obs in ai.results().items():
        if kinds is not None and kind not in kinds:
            continue
        if funcs is not None and fn not in funcs:
            continue
        if all(o.status == "skipped" for o in obs):
            skipped += 1
            continue
        o = obs[0]
        what = f"{fn}: {kind} `{unparse(o.node)[:100]}`"
        if all(x.ok for x in obs if x.status != "skipped"):
            ok += 1
            by = next((x.by for x in obs if x.by), "")
            fi = ai.prog.functions.get(fn)
            rep.ok(rule, what, nontrivial=bool(by), sample=f"{by} @ {fi.module.relpath if fi else ''}:{getattr(o.node, 'lineno', 0)}" if by else None)
        else:
            bad += 1
    return ok, bad, skipped


def timer_armers(prog: Program, n: str) -> Dict[str, str]:
    """Call texts that leave SCTP timer T<n> running when they return: the starter, the restarter and any "ensure running" wrapper of the
    transport class whose body is nothing but `if not self._tN_handle: <armer>()` / `<armer>()`.  value: 'guarded' (safe when the timer may be
    running: restart, or a wrapper that checks the handle) or 'raw' (the starter itself, whose assert needs the handle to be clear)."""
    import ast
    T = "rtcsctptransport.RTCSctpTransport"
    out = {f"self._t{n}_start": "raw"}
    if prog.find_method(prog.cls(T), f"_t{n}_restart") is not None:
        out[f"self._t{n}_restart"] = "guarded"
    tests = (f"not self._t{n}_handle", f"self._t{n}_handle is None")
    changed = True
    while changed:
        changed = False
        for fi in prog.cls(T).methods.values():
            nm = f"self.{fi.name}"
            if nm in out or fi.name.startswith(f"_t{n}_") and fi.name.endswith(("_start", "_restart", "_cancel", "_expired")):
                continue
            body = [s for s in fi.node.body if not (isinstance(s, ast.Expr) and isinstance(s.value, ast.Constant))]
            if not body:
                continue
            kinds = []
            for s in body:
                if isinstance(s, ast.Expr) and isinstance(s.value, ast.Call) and unparse(s.value.func) in out and not s.value.args:
                    kinds.append(out[unparse(s.value.func)])
                elif isinstance(s, ast.If) and unparse(s.test) in tests and not s.orelse and len(s.body) == 1 and isinstance(s.body[0], ast.Expr) \
                        and isinstance(s.body[0].value, ast.Call) and unparse(s.body[0].value.func) in out:
                    kinds.append("guarded")
                else:
                    kinds = None
                    break
            if kinds:
                out[nm] = "guarded" if all(k == "guarded" for k in kinds) else "raw"
                changed = True
    return out


def timer_rule(rep: Report, prog: Program, PROP: str, RULE: str) -> None:
    """Typestate rule for the SCTP timer starters (their `assert handle is None` is an assertion over local state that the
    facts domain cannot carry across an await): cancel or handle-is-None guard on every path before each start."""
    import ast
    from engine.events import EventsDomain, EvState
    from engine.index import walk_no_nested
    # (e) timer typestate: the `assert handle is None` of the SCTP timer starters is an assertion over local state that the
    # facts domain cannot carry across an await; it is decided here as a typestate rule instead (cancel/guard before start).
    rep.rule(RULE, "every _tN_start() is preceded on every path by _tN_cancel() or a handle-is-None guard (its assert cannot fire on a repeated chunk)", min_instances=5)
    T = "rtcsctptransport.RTCSctpTransport"
    FIRST_ARM = {f"{T}._init": "called exactly once, from start() under the __started latch, before any other T1 user can run"}
    starters = {f"self._t{n}_start": str(n) for n in (1, 2, 3)}
    # "ensure running" wrappers: a call to one is a start site that carries its own handle check
    wrappers: Dict[str, str] = {}
    for n_ in ("1", "2", "3"):
        for nm_, kind_ in timer_armers(prog, n_).items():
            if kind_ == "guarded" and not nm_.endswith("_restart"):
                wrappers[nm_] = n_
    n_sites = 0
    for fi in prog.cls(T).methods.values():
        for n in walk_no_nested(fi.node):
            if isinstance(n, ast.Call) and unparse(n.func) in wrappers and f"self.{fi.name}" not in wrappers:
                n_sites += 1
                rep.ok(RULE, f"{fi.qualname}: {unparse(n)[:60]} @ line {n.lineno}", sample=f"wrapper that checks the T{wrappers[unparse(n.func)]} handle before starting")
        if fi.name.endswith("_expired") or not any(isinstance(n, ast.Call) and unparse(n.func) in starters for n in walk_no_nested(fi.node)):
            continue

        def ev_of(node, f):
            if isinstance(node, ast.Call):
                nm = unparse(node.func)
                for n in ("1", "2", "3"):
                    if nm == f"self._t{n}_cancel":
                        return [f"t{n}-clear"]
                    if nm == f"self._t{n}_start" or wrappers.get(nm) == n:
                        return [f"-t{n}-clear"]
            return []
        sites = []

        def ob(node, st: EvState, f, sites=sites):
            if isinstance(node, ast.Call) and unparse(node.func) in starters:
                n = starters[unparse(node.func)]
                guarded = st.has_guard(f"not self._t{n}_handle", True) or st.has_guard(f"self._t{n}_handle is None", True) or st.has_guard(f"self._t{n}_handle", False)
                sites.append((node, n, f"t{n}-clear" in st.events, guarded))
        EventsDomain(prog, ev_of, ob, kill_guards_on_call=False).run(fi)
        for node, n, cleared, guarded in sites:
            n_sites += 1
            what = f"{fi.qualname}: {unparse(node)[:60]} @ line {node.lineno}"
            if cleared or guarded:
                rep.ok(RULE, what, sample=f"_t{n}_cancel() on every path before it" if cleared else f"guarded by the T{n} handle being unset")
            elif fi.qualname in FIRST_ARM:
                rep.ok(RULE, what, sample="first arming: " + FIRST_ARM[fi.qualname])
            else:
                rep.fail(mk_finding(prog, PROP, RULE, fi, node,
                                    f"T{n} is started without _t{n}_cancel() or a handle check on every path before it: a repeated chunk (retransmitted because our reply was lost) "
                                    f"trips `assert self._t{n}_handle is None`, the AssertionError escapes _handle_data and closes the DTLS transport",
                                    construct=f"_t{n}_start without cancel"))
    if n_sites < 5:
        raise AnalysisError(f"only {n_sites} timer start sites found")



def sign_rule(rep: Report, prog: Program, PROP: str, RULE: str, func_names: List[str]) -> None:
    """A counter that is decreased by a peer-chosen amount may be negative; it must be clamped before it is put into a field
    of an outgoing chunk (all such fields are packed with unsigned formats) or packed directly."""
    import ast
    from engine.index import walk_no_nested
    # (f) sign rule: a counter that is decreased by a peer-chosen amount may be negative; it must be clamped before it is
    # put into a field of an outgoing chunk (all such fields are packed with unsigned formats) or packed directly
    rep.rule(RULE, "counters decreased by received lengths are clamped at 0 before they are serialised", min_instances=2)
    dec_fields: Dict[str, Tuple[str, ast.AST]] = {}
    for fn in func_names:
        fi = prog.functions.get(fn)
        if fi is None or fi.cls is None:
            continue
        for n in walk_no_nested(fi.node):
            if isinstance(n, ast.AugAssign) and isinstance(n.op, ast.Sub) and isinstance(n.target, ast.Attribute) and unparse(n.target.value) == "self" \
                    and not isinstance(n.value, ast.Constant):
                # is the decrement bounded from below by an existing clamp in the same statement? (x = max(0, x - y) is an Assign, not AugAssign)
                dec_fields.setdefault(n.target.attr, (fn, n))
    n_use = 0
    for fn in func_names:
        fi = prog.functions.get(fn)
        if fi is None:
            continue
        for n in walk_no_nested(fi.node):
            sinks: List[Tuple[ast.AST, ast.expr]] = []
            if isinstance(n, ast.Assign) and len(n.targets) == 1 and isinstance(n.targets[0], ast.Attribute) and isinstance(n.targets[0].value, ast.Name) \
                    and n.targets[0].value.id != "self":
                sinks.append((n, n.value))
            if isinstance(n, ast.Call) and unparse(n.func) in ("pack", "struct.pack"):
                for a in n.args[1:]:
                    sinks.append((n, a))
            for stmt, expr in sinks:
                for r in ast.walk(expr):
                    if isinstance(r, ast.Attribute) and unparse(r.value) == "self" and r.attr in dec_fields:
                        n_use += 1
                        clamped = isinstance(expr, ast.Call) and unparse(expr.func) == "max" and any(isinstance(a, ast.Constant) and a.value == 0 for a in expr.args) \
                            and any(a is r for a in expr.args)
                        what = f"{fn}: {unparse(stmt)[:80]}"
                        if clamped:
                            rep.ok(RULE, what, sample=f"self.{r.attr} (decreased in {dec_fields[r.attr][0].split('.')[-1]}) is clamped with max(0, ...)")
                        else:
                            rep.fail(mk_finding(prog, PROP, RULE, fi, stmt,
                                                f"`self.{r.attr}` is decreased by a peer-chosen amount (`{unparse(dec_fields[r.attr][1])}`) and can be negative, but it is serialised "
                                                f"here without `max(0, ...)`: packing it into an unsigned field raises struct.error, which escapes the receive path",
                                                construct=f"unclamped self.{r.attr}"))
    if n_use < 2:
        raise AnalysisError("C05-SIGN: expected the receive window to be serialised at two sites on the receive path")


def serial_subrule(rep: Report, prog: Program, tier: str, PROP: str, RULE: str, modules: List[str], min_instances: int, what: str) -> None:
    """Runs the serial-number discipline (rule set of C17) on the given modules and reports its findings under RULE."""
    from . import C17
    sub = Report("C17", tier, 0)
    saved = C17.MODULES
    try:
        C17.MODULES = list(modules)
        try:
            C17.run(sub, prog, tier)
        except AnalysisError:
            pass  # the instance minimum of the full C17 run does not apply to a module subset
    finally:
        C17.MODULES = saved
    rep.rule(RULE, what, min_instances=min_instances)
    n_ok = sum(r["discharged"] for k, r in sub.rules.items() if k != "C17-HELPERS")
    for f in sub.findings:
        f.property = PROP
        f.rule = RULE + "/" + f.rule
        rep.fail(f)
    rep.rules[RULE]["instances"] += n_ok + sum(r["findings"] for k, r in sub.rules.items() if k != "C17-HELPERS")
    rep.rules[RULE]["discharged"] += n_ok
    rep.obligations += n_ok
    rep.discharged += n_ok
    for s in sub.samples[:2]:
        rep.samples.append(s)


def description_slots_rule(rep: Report, prog: Program, PROP: str, RULE: str) -> None:
    """The 'replace description' step of setLocal/RemoteDescription, evaluated per description type: an answer becomes the
    current description and clears the pending one; an offer becomes the pending one and leaves the current one alone."""
    from types import SimpleNamespace

    from engine.index import Unknown, walk_no_nested
    from engine.peval import Evaluator, Raised
    rep.rule(RULE, "description slots after setLocal/RemoteDescription, per description type", min_instances=4)
    PC = "rtcpeerconnection.RTCPeerConnection"
    for fn, side in (("setLocalDescription", "Local"), ("setRemoteDescription", "Remote")):
        fi = prog.func(f"{PC}.{fn}")
        cur_a, pend_a = f"__current{side}Description", f"__pending{side}Description"
        stmts = [s for s in fi.node.body if any(isinstance(t, ast.Attribute) and t.attr in (cur_a, pend_a) and isinstance(t.ctx, ast.Store) for t in ast.walk(s))]
        if not stmts:
            raise AnalysisError(f"{fn}: statements writing the description slots not found at the top level of the function")
        for typ in ("offer", "answer"):
            me = SimpleNamespace(**{cur_a: "old-current", pend_a: "old-pending"})
            desc = SimpleNamespace(type=typ)
            ev = Evaluator(prog, fi.module, fi.cls, {"self": me, "description": desc})
            try:
                for s in stmts:
                    ev.exec_stmt(s)
            except (Unknown, Raised) as ex:
                raise AnalysisError(f"{fn}: cannot evaluate the slot update for a {typ}: {ex}")
            got = (getattr(me, cur_a), getattr(me, pend_a))
            want = (desc, None) if typ == "answer" else ("old-current", desc)
            show = lambda v: "the new description" if v is desc else repr(v)  # noqa: E731
            if got[0] is want[0] and got[1] is want[1] or got == want:
                rep.ok(RULE, f"{fn}({typ})", sample=f"current = {show(got[0])}, pending = {show(got[1])}")
            else:
                rep.fail(mk_finding(prog, PROP, RULE, fi, stmts[0],
                                    f"{fn}({typ}) leaves current = {show(got[0])}, pending = {show(got[1])}; expected current = {show(want[0])}, pending = {show(want[1])} — "
                                    f"a stale pending description is what `{side.lower()}Description` reports in the next negotiation round", construct=f"{side.lower()} slots after {typ}"))


_IMPORT_DEPTH = [0]


def import_rules(rep: Report, prog: Program, tier: str, PROP: str, RULE: str, module_name: str, only: List[str], what: str, min_instances: int) -> None:
    """Runs another property's rule module and reports the findings of the rules in `only` under RULE (shared mechanism)."""
    import importlib
    if _IMPORT_DEPTH[0] > 0:
        return  # rules imported by an imported module are not needed by the importer (and C01 <-> C02 import each other)
    mod = importlib.import_module(f"rules.{module_name}")
    sub = Report(module_name, tier, 0)
    _IMPORT_DEPTH[0] += 1
    try:
        mod.run(sub, prog, tier)
    finally:
        _IMPORT_DEPTH[0] -= 1
    rep.rule(RULE, what, min_instances=min_instances)
    n_ok = sum(r["discharged"] for k, r in sub.rules.items() if k in only)
    for f in sub.findings:
        if f.rule in only:
            f.property = PROP
            f.rule = RULE + "/" + f.rule
            rep.fail(f)
    rep.rules[RULE]["instances"] += n_ok + sum(r["findings"] for k, r in sub.rules.items() if k in only)
    rep.rules[RULE]["discharged"] += n_ok
    rep.obligations += n_ok
    rep.discharged += n_ok
    for s in [s for s in sub.samples if s.get("rule") in only][:2]:
        rep.samples.append(s)


def reset_rekick_rule(rep: Report, prog: Program, PROP: str, RULE: str) -> None:
    """Completing the pending stream-reset request must clear it *before* restarting _transmit_reconfig() (which only sends
    when no request is pending); otherwise resets queued in the meantime never go out and their channels stay `closing`."""
    from engine.index import walk_no_nested
    rr = prog.func("rtcsctptransport.RTCSctpTransport._receive_reconfig_param")
    clears = [n for n in walk_no_nested(rr.node) if isinstance(n, ast.Assign) and unparse(n.targets[0]) == "self._reconfig_request" and getattr(n.value, "value", 0) is None]
    if not clears:
        raise AnalysisError("_receive_reconfig_param: completion of the pending request not found")
    parents: Dict[int, ast.AST] = {}
    for p in ast.walk(rr.node):
        for ch in ast.iter_child_nodes(p):
            parents[id(ch)] = p

    def is_kick(x: ast.AST) -> bool:
        if not isinstance(x, ast.Call):
            return False
        nm = unparse(x.func)
        return nm == "self._transmit_reconfig" or (nm == "asyncio.ensure_future" and bool(x.args) and isinstance(x.args[0], ast.Call) and unparse(x.args[0].func) == "self._transmit_reconfig")
    ok = True
    for c in clears:
        par = parents[id(c)]
        blk = next(lst for name in ("body", "orelse", "finalbody") for lst in [getattr(par, name, None)] if isinstance(lst, list) and any(x is c for x in lst))
        idx = next(i for i, x in enumerate(blk) if x is c)
        if not any(is_kick(x) for s in blk[idx + 1:] for x in ast.walk(s)):
            ok = False
            early = any(is_kick(x) for s in blk[:idx] for x in ast.walk(s))
            rep.fail(mk_finding(prog, PROP, RULE, rr, c,
                                "the pending stream-reset request is completed without restarting _transmit_reconfig() afterwards"
                                + (" (it is called before the request is cleared, when it cannot send anything)" if early else "")
                                + ": stream resets queued in the meantime never go out and those channels stay `closing`", construct="reset response re-kick"))
    if ok:
        rep.ok(RULE, "_receive_reconfig_param: completing a request clears it and then restarts _transmit_reconfig", sample=f"{len(clears)} site(s)")


def close_all_channels_rule(rep: Report, prog: Program, PROP: str, RULE: str) -> None:
    """Every container of the SCTP transport that can hold a data channel is drained when the association closes: a channel that
    is only referenced from a queue (it never got an id) must be closed as well."""
    from engine.index import walk_no_nested
    T = "rtcsctptransport.RTCSctpTransport"
    ci = prog.cls(T)
    holders: Dict[str, str] = {}
    for fi in ci.methods.values():
        for n in walk_no_nested(fi.node):
            if isinstance(n, ast.Assign) and isinstance(n.targets[0], ast.Subscript) and unparse(n.targets[0].value).startswith("self.") and unparse(n.value) == "channel":
                holders.setdefault(unparse(n.targets[0].value), f"{fi.name}: {unparse(n)[:50]}")
            if isinstance(n, ast.Call) and isinstance(n.func, ast.Attribute) and n.func.attr in ("append", "appendleft", "add") and unparse(n.func.value).startswith("self.") and n.args:
                a = n.args[0]
                if unparse(a) == "channel" or (isinstance(a, ast.Tuple) and any(unparse(x) == "channel" for x in a.elts)):
                    holders.setdefault(unparse(n.func.value), f"{fi.name}: {unparse(n)[:50]}")
    if len(holders) < 2:
        raise AnalysisError(f"containers holding data channels not found ({holders})")
    ss = prog.func(T + "._set_state")
    closed_branch = [n for n in walk_no_nested(ss.node) if isinstance(n, ast.If) and "State.CLOSED" in unparse(n.test)]
    stmts: List[ast.stmt] = []
    for n in closed_branch:
        stmts += n.body if "==" in unparse(n.test) else []
        # `if state == ESTABLISHED: ... elif state == CLOSED:` puts the CLOSED body in an orelse If, which walk finds on its own
    body_txt_nodes = [x for s in stmts for x in ast.walk(s)]
    for cont, where in sorted(holders.items()):
        drained = False
        for x in body_txt_nodes:
            if isinstance(x, ast.For) and cont in unparse(x.iter):
                inner = " ".join(unparse(b) for b in x.body)
                if "_setReadyState('closed')" in inner or "_data_channel_closed(" in inner:
                    drained = True
        if drained:
            rep.ok(RULE, f"_set_state(CLOSED) closes every channel held in {cont}", sample=f"filled by {where}")
        else:
            rep.fail(mk_finding(prog, PROP, RULE, ss, closed_branch[0] if closed_branch else ss.node,
                                f"data channels can be held in {cont} ({where}) but closing the association does not close the channels found there: a channel created "
                                f"shortly before close() (it has no id yet) stays `connecting` for ever", construct=f"channels in {cont} not closed"))


# ---------------------------------------------------------------------------------------------------------------------------------------
# Optional fields in arithmetic (rule C05-NONE)
NONE_ARITH_MODULES = {"rtcsctptransport", "rtcrtpsender", "rtcrtpreceiver", "rate", "jitterbuffer", "rtcdtlstransport", "rtp"}
# (function, field): why the field cannot be None there although no guard in the function says so
NONE_ARITH_EXEMPT = {
    ("jitterbuffer.JitterBuffer._remove_frame", "_origin"): "private helper, only called by add() after it has assigned _origin (rule C10-EXC analyses add() with that invariant)",
    ("jitterbuffer.JitterBuffer.remove", "_origin"): "private helper, only called by add() / smart_remove() after add() has assigned _origin",
    ("jitterbuffer.JitterBuffer.smart_remove", "_origin"): "private helper, only called by add() after it has assigned _origin",
    ("rtcrtpreceiver.StreamStatistics.add", "_last_arrival"): "read only when packets_received > 1; the first add() is always in order (max_seq is None) and assigns _last_arrival",
    ("rtcrtpreceiver.StreamStatistics.packets_expected", "max_seq"): "a StreamStatistics is stored in __remote_streams together with its first add(), which assigns max_seq and base_seq "
                                                                       "(rule C18-REPORT evaluates the report built from it)",
    ("rtcrtpreceiver.StreamStatistics.packets_expected", "base_seq"): "see max_seq",
    ("rtcsctptransport.RTCSctpTransport._send_sack", "_last_received_tsn"): "_send_sack() runs only while _sack_needed, which implies _last_received_tsn is not None (guard-implication checked at every "
                                                                            "writer by C05-EXC)",
}


def none_arith_rule(rep: Report, prog: Program, PROP: str, RULE: str) -> None:
    """A field that __init__ sets to None and that is an operand of an arithmetic operator on the receive path needs a reason not to be None there:
    a guard on the field itself, the assign-if-None idiom before the use, a short-circuit operand, or a guard on a *paired* sibling - a field that is
    also initialised to None and only ever assigned a value in the same block as the field (`self.__lsr == report.lsr` protects `self.__lsr_time`
    because `None == <int>` is false and both are assigned together).  Anything else would raise TypeError out of the receive loop."""
    import ast
    from engine.events import EventsDomain
    from engine.index import walk_no_nested
    rep.rule(RULE, "Optional fields used in arithmetic on the receive path are guarded (directly, by the assign-if-None idiom or through a paired sibling field)", min_instances=12)

    def self_attr(t):
        return t.attr if isinstance(t, ast.Attribute) and isinstance(t.value, ast.Name) and t.value.id == "self" else None

    def targets_of(s):
        tg = s.targets if isinstance(s, ast.Assign) else [s.target]
        out = []
        for t in tg:
            out.extend(t.elts if isinstance(t, ast.Tuple) else [t])
        return out

    def is_none_store(s):
        return isinstance(s, (ast.Assign, ast.AnnAssign)) and isinstance(s.value, ast.Constant) and s.value.value is None

    def blocks(node):
        for n in ast.walk(node):
            for name in ("body", "orelse", "finalbody"):
                b = getattr(n, name, None)
                if isinstance(b, list) and b and isinstance(b[0], ast.stmt):
                    yield b
    used_exempt = set()
    n_sites = 0
    for ci in prog.classes.values():
        if ci.module.name not in NONE_ARITH_MODULES:
            continue
        init = prog.find_method(ci, "__init__")
        if init is None:
            continue
        nf = set()
        for n in walk_no_nested(init.node):
            if is_none_store(n):
                nf |= {self_attr(t) for t in targets_of(n) if self_attr(t)}
        if not nf:
            continue
        stores: Dict[str, List[Tuple[Any, Any, Any]]] = {f: [] for f in nf}
        for fi in ci.methods.values():
            if fi.name == "__init__":
                continue
            for blk in blocks(fi.node):
                for s in blk:
                    if isinstance(s, (ast.Assign, ast.AnnAssign, ast.AugAssign)) and getattr(s, "value", None) is not None:
                        for t in targets_of(s):
                            if self_attr(t) in nf:
                                stores[self_attr(t)].append((fi, s, blk))

        def paired(X, Y):
            """Y has a value  =>  X has a value"""
            for fi, s, blk in stores[Y]:
                if not is_none_store(s) and not any(f2 is fi and b2 is blk and not is_none_store(s2) for f2, s2, b2 in stores[X]):
                    return False
            for fi, s, blk in stores[X]:
                if is_none_store(s) and not any(f2 is fi and b2 is blk and is_none_store(s2) for f2, s2, b2 in stores[Y]):
                    return False
            return True
        for fi in ci.methods.values():
            sites = []
            parents: Dict[int, ast.AST] = {}
            for p_ in ast.walk(fi.node):
                for ch in ast.iter_child_nodes(p_):
                    parents[id(ch)] = p_
            for n in walk_no_nested(fi.node):
                if isinstance(n, ast.BinOp):
                    for side in (n.left, n.right):
                        if self_attr(side) in nf:
                            sites.append((n, self_attr(side)))
            if not sites:
                continue
            res: Dict[int, Any] = {}

            def syntactic(n, X):
                a = f"self.{X}"
                cur = n
                while id(cur) in parents:
                    par = parents[id(cur)]
                    # short-circuit operands: `self.X is None or <use>` / `self.X is not None and <use>` / `self.X and <use>`
                    if isinstance(par, ast.BoolOp):
                        idx = next(i for i, v in enumerate(par.values) if v is cur)
                        for v in par.values[:idx]:
                            t = unparse(v)
                            if isinstance(par.op, ast.Or) and t in (f"{a} is None", f"not {a}"):
                                return "short-circuit operand"
                            if isinstance(par.op, ast.And) and t in (f"{a} is not None", a):
                                return "short-circuit operand"
                    # assign-if-None idiom earlier in an enclosing block
                    for name in ("body", "orelse", "finalbody"):
                        blk = getattr(par, name, None)
                        if isinstance(blk, list) and any(s is cur for s in blk):
                            for s in blk[: next(i for i, s in enumerate(blk) if s is cur)]:
                                if isinstance(s, ast.If) and unparse(s.test) in (f"{a} is None", f"not {a}") and \
                                        any(isinstance(b, (ast.Assign, ast.AnnAssign)) and not is_none_store(b) and any(self_attr(t) == X for t in targets_of(b)) for b in s.body):
                                    return "assign-if-None idiom"
                    if isinstance(par, (ast.FunctionDef, ast.AsyncFunctionDef)):
                        break
                    cur = par
                return None

            def ev_of(node, f):
                if isinstance(node, (ast.Assign, ast.AnnAssign, ast.AugAssign)) and not is_none_store(node) and getattr(node, "value", None) is not None:
                    return ["set:" + self_attr(t) for t in targets_of(node) if self_attr(t)]
                return []

            def ob(node, st, f):
                if not isinstance(node, ast.stmt):
                    return
                hdr = [node]
                if isinstance(node, (ast.If, ast.While)):
                    hdr = [node.test]
                elif isinstance(node, (ast.For, ast.AsyncFor)):
                    hdr = [node.iter]
                elif isinstance(node, (ast.With, ast.AsyncWith, ast.Try, ast.FunctionDef, ast.AsyncFunctionDef)):
                    hdr = []
                for n, X in sites:
                    if id(n) in res or not any(x is n for h_ in hdr for x in ast.walk(h_)):
                        continue
                    why = syntactic(n, X)
                    for Y in [X] + sorted(y for y in nf if y != X and paired(X, y)):
                        if why:
                            break
                        a = f"self.{Y}"
                        if st.has_guard(f"{a} is not None", True) or st.has_guard(f"{a} is None", False) or st.has_guard(a, True) or st.has_guard(f"not {a}", False) \
                                or (Y == X and "set:" + X in st.events):
                            why = f"guard on self.{Y}" + ("" if Y == X else f" (paired: assigned only together with self.{X})")
                        if not why and Y == X:
                            # state-tag guard: `self.S == C` holds here, S starts out different from C, and every `self.S = C` sits in a block that also gives self.X a value
                            for g, t in st.guards:
                                m_ = re.match(r"^self\.(\w+) == (.+)$", g)
                                if not (t and m_) or m_.group(1) == X:
                                    continue
                                S_, C_ = m_.group(1), m_.group(2)
                                init_vals = [unparse(s_.value) for s_ in walk_no_nested(init.node) if isinstance(s_, (ast.Assign, ast.AnnAssign)) and s_.value is not None
                                             and any(self_attr(t_) == S_ for t_ in targets_of(s_))]
                                sets_c = [(f_, s_, b_) for f_ in ci.methods.values() if f_.name != "__init__" for b_ in blocks(f_.node) for s_ in b_
                                          if isinstance(s_, (ast.Assign, ast.AnnAssign)) and s_.value is not None and unparse(s_.value) == C_ and any(self_attr(t_) == S_ for t_ in targets_of(s_))]
                                if init_vals and C_ not in init_vals and sets_c and all(any(f2 is f_ and b2 is b_ and not is_none_store(s2) for f2, s2, b2 in stores[X]) for f_, s_, b_ in sets_c) \
                                        and not any(is_none_store(s2) for _f2, s2, _b2 in stores[X]):
                                    why = f"state guard self.{S_} == {C_}: that state is only entered together with an assignment of self.{X}, which is never reset"
                        for g, t in st.guards:
                            if t and Y != X and (g.startswith(f"{a} == ") or g.endswith(f" == {a}") or g.startswith(f"{a} == ") or f"{a} == " in g.split(" and ")[0]):
                                why = f"equality guard on self.{Y} (paired: initialised to None and assigned only together with self.{X})"
                    res[id(n)] = (n, X, why)
            EventsDomain(prog, ev_of, ob, kill_guards_on_call=False).run(fi)
            # a private helper may rely on its callers: the field is guarded at every call site inside the class
            for key_, (n, X, why) in list(res.items()):
                if why or not fi.name.startswith("_") or fi.name.startswith("__") and fi.name.endswith("__"):
                    continue
                call_sites = [(cf, c) for cf in ci.methods.values() if cf is not fi for c in walk_no_nested(cf.node)
                              if isinstance(c, ast.Call) and isinstance(c.func, ast.Attribute) and c.func.attr == fi.name and isinstance(c.func.value, ast.Name) and c.func.value.id == "self"]
                if not call_sites:
                    continue
                all_ok = True
                for cf, c in call_sites:
                    found = {}

                    def ob2(node, st, f, c=c, X=X, found=found):
                        if not isinstance(node, ast.stmt) or "ok" in found:
                            return
                        hdr = [node]
                        if isinstance(node, (ast.If, ast.While)):
                            hdr = [node.test]
                        elif isinstance(node, (ast.For, ast.AsyncFor)):
                            hdr = [node.iter]
                        elif isinstance(node, (ast.With, ast.AsyncWith, ast.Try, ast.FunctionDef, ast.AsyncFunctionDef)):
                            hdr = []
                        if any(x is c for h_ in hdr for x in ast.walk(h_)):
                            a = f"self.{X}"
                            found["ok"] = st.has_guard(f"{a} is not None", True) or st.has_guard(f"{a} is None", False) or st.has_guard(a, True) or st.has_guard(f"not {a}", False) \
                                or ("set:" + X in st.events)
                    EventsDomain(prog, ev_of, ob2, kill_guards_on_call=False).run(cf)
                    if not found.get("ok"):
                        all_ok = False
                if all_ok:
                    res[key_] = (n, X, f"private helper: self.{X} is guarded at each of its {len(call_sites)} call site(s)")
            for n, X, why in res.values():
                n_sites += 1
                what = f"{fi.qualname}: `{unparse(n)[:60]}` (self.{X})"
                key = (fi.qualname, X)
                if why:
                    rep.ok(RULE, what, sample=why)
                elif key in NONE_ARITH_EXEMPT:
                    used_exempt.add(key)
                    rep.ok(RULE, what, nontrivial=False, sample="exempt: " + NONE_ARITH_EXEMPT[key])
                else:
                    rep.fail(mk_finding(prog, PROP, RULE, fi, n, f"`self.{X}` is None until it is first assigned, and nothing on this path says it has been: `{unparse(n)[:70]}` raises TypeError, "
                                        "which is not a ValueError / ConnectionError and therefore escapes the receive loop and closes the DTLS transport",
                                        construct=f"self.{X} may be None in `{unparse(n)[:50]}`"))
    if n_sites < 12:
        raise AnalysisError(f"{RULE}: only {n_sites} arithmetic uses of Optional fields found on the receive path")


def run_prelude(ev, fn_node: ast.AST, target: ast.AST) -> None:
    """Before a statement (or test) of a function is evaluated on its own: execute the simple assignments `name = <expr>` that precede it in the enclosing blocks and
    whose names it reads (a refactoring that hoists a sub-expression into a local must not blind the rule).  Names the rule has bound itself are left alone;
    an assignment that cannot be evaluated in the rule's environment is skipped."""
    from engine.index import Unknown
    from engine.peval import Raised
    parents: Dict[int, ast.AST] = {}
    for p in ast.walk(fn_node):
        for ch in ast.iter_child_nodes(p):
            parents[id(ch)] = p
    chain = [target]
    while id(chain[-1]) in parents and chain[-1] is not fn_node:
        chain.append(parents[id(chain[-1])])
    needed = {n.id for n in ast.walk(target) if isinstance(n, ast.Name) and isinstance(n.ctx, ast.Load)}
    todo: List[ast.stmt] = []
    for child, par in zip(chain, chain[1:]):
        for fld in ("body", "orelse", "finalbody"):
            blk = getattr(par, fld, None)
            if isinstance(blk, list) and any(x is child for x in blk):
                idx = next(i for i, x in enumerate(blk) if x is child)
                todo = [s for s in blk[:idx] if isinstance(s, (ast.Assign, ast.AnnAssign))] + todo
    # keep the assignments whose target is (transitively) needed
    keep: List[ast.stmt] = []
    for s in reversed(todo):
        tgt = s.targets[0] if isinstance(s, ast.Assign) and len(s.targets) == 1 else getattr(s, "target", None)
        if isinstance(tgt, ast.Name) and tgt.id in needed and getattr(s, "value", None) is not None:
            keep.insert(0, s)
            needed |= {n.id for n in ast.walk(s.value) if isinstance(n, ast.Name)}
    for s in keep:
        tgt = s.targets[0] if isinstance(s, ast.Assign) else s.target
        if tgt.id in ev.env:
            continue
        try:
            ev.exec_stmt(s)
        except (Unknown, Raised):
            pass
