"""SCTP data path closed over both endpoints, evaluated under scripted fault schedules (rule <PROP>-LOOP).

The sender's real `_transmit`, `_receive_sack_chunk`, `_t3_expired`, `_maybe_abandon`, `_update_advanced_peer_ack_point` and the receiver's real
`_receive_data_chunk`, `_receive_forward_tsn_chunk`, `_mark_received`, `InboundStream.*`, `_send_sack` are interpreted at the AST level (engine.peval, no
aiortc code is imported or run).  Collaborators are stubs: `_send_chunk` puts the chunk on a scripted network, the T3 timer is a flag that fires when the
network is idle and something is outstanding, `_receive` records the delivery.

A workload is a handful of messages on several streams (reliable multi-fragment, reliable single, partially reliable); a schedule says what happens to the n-th
transmission in each direction (drop / duplicate / hold back behind the next k transmissions).  After the network has become fault-free the oracle is the
property text: every reliable message delivered exactly once, intact, in order on its stream; partially reliable messages at most once and intact, and the
ones sent after the network recovered are delivered; nothing outstanding, nothing counted in flight, nothing complete left in a reassembly queue.

This decides the enumerated schedules only (single and double faults at every position of these workloads), not all fault histories.
"""
from __future__ import annotations

import itertools
from collections import deque
from types import SimpleNamespace
from typing import Any, Dict, List, Optional, Tuple

from engine.index import AnalysisError, Program, Unknown
from engine.peval import Raised
from engine.report import Report, mk_finding

T = "rtcsctptransport.RTCSctpTransport"
MTU = 1200


class World:
    def __init__(self, prog: Program, first_tsn: int) -> None:
        from .sctpmodel import build
        self.prog = prog
        self.to_rcv: deque = deque()
        self.to_snd: deque = deque()
        self.n_tx = 0
        self.n_sack = 0
        self.faults_tx: Dict[int, Tuple[str, int]] = {}
        self.faults_sack: Dict[int, Tuple[str, int]] = {}
        self.held: List[Tuple[int, Any]] = []
        self.reported_dups = 0
        self.dup_deliveries = 0
        self.seen_tsns: set = set()
        ci = prog.cls(T)

        def st_send(call, ev):
            me = ev.env["self"]
            c = ev.ev(call.args[0])
            if me is self.snd:
                self._emit(self.to_rcv, c, self.faults_tx, "n_tx")
            else:
                self.reported_dups += len(getattr(c, "duplicates", []) or [])
                self._emit(self.to_snd, c, self.faults_sack, "n_sack")
            return None

        def st_t3(kind):
            def f(call, ev):
                ev.env["self"]._t3_handle = None if kind == "cancel" else "timer"
                return None
            return f
        noop = lambda call, ev: None  # noqa: E731

        def st_sack_chunk(call, ev):
            return SimpleNamespace(kind="sack", cumulative_tsn=0, advertised_rwnd=0, duplicates=[], gaps=[], flags=0)
        stubs = {"self._send_chunk": st_send, "self._t3_start": st_t3("start"), "self._t3_restart": st_t3("restart"), "self._t3_cancel": st_t3("cancel"),
                 "self._data_channel_flush": noop, "self._update_rto": noop, "SackChunk": st_sack_chunk,
                 "asyncio.ensure_future": lambda call, ev: [ev.ev(a) for a in call.args] and None}
        self.hook, self.chunk, self.message = build(prog, stubs)
        m = lambda n: prog.func(f"{T}.{n}")  # noqa: E731
        self.f_transmit, self.f_sack, self.f_t3 = m("_transmit"), m("_receive_sack_chunk"), m("_t3_expired")
        self.f_data, self.f_fwd, self.f_send_sack = m("_receive_data_chunk"), m("_receive_forward_tsn_chunk"), m("_send_sack")
        before = (first_tsn - 1) % (1 << 32)
        self.snd = SimpleNamespace(__cls__=ci, name="sender", _sent_queue=deque(), _outbound_queue=deque(), _last_sacked_tsn=before, _advanced_peer_ack_tsn=before,
                                   _forward_tsn_chunk=None, _forward_tsn_pending=None, _forward_tsn_streams={}, _flight_size=0, _cwnd=4 * MTU, _ssthresh=1 << 20,
                                   _partial_bytes_acked=0, _fast_recovery_exit=None, _fast_recovery_transmit=False, _t3_handle=None, _rto=3.0, _srtt=None, _rttvar=None, _local_tsn=first_tsn, delivered=[])
        self.rcv = SimpleNamespace(__cls__=ci, name="receiver", _last_received_tsn=before, _sack_needed=False, _sack_duplicates=[], _sack_misordered=set(), _inbound_streams={},
                                   _inbound_streams_max=65535, _advertised_rwnd=1 << 20, delivered=[])
        # stream 1 has been in use for a while: its next stream sequence number is 65535 (the workload crosses the 16-bit wrap)
        from engine.peval import Evaluator
        ev0 = Evaluator(prog, prog.modules["rtcsctptransport"], None, {}, self.hook)
        ist = self.hook.instantiate(prog.cls("rtcsctptransport.InboundStream"), [], {}, ev0)
        ist.sequence_number = 65535
        self.rcv._inbound_streams[1] = ist

    def _emit(self, q: deque, c: Any, faults: Dict[int, Tuple[str, int]], counter: str) -> None:
        n = getattr(self, counter)
        setattr(self, counter, n + 1)
        f = faults.get(n)
        if f is None:
            q.append(c)
        elif f[0] == "drop":
            pass
        elif f[0] == "dup":
            q.append(c)
            q.append(c)
        elif f[0] == "dup3":
            for _ in range(4):
                q.append(c)
        elif f[0] == "hold":
            self.held.append([f[1], q, c])
        # held packets are released once `k` later packets of the same direction have gone out
        for h in list(self.held):
            if h[1] is q and h[2] is not c:
                h[0] -= 1
                if h[0] <= 0:
                    q.append(h[2])
                    self.held.remove(h)

    def queue_message(self, first_tsn: int, stream: int, seq: int, nfrag: int, unordered: bool, policy: Optional[int], tag: str) -> List[Any]:
        msg = self.message(first_tsn % (1 << 32), stream, seq % 65536, nfrag, unordered, policy, tag, 0)
        for k, c in enumerate(msg):
            c.user_data = (f"{tag}{k}:".encode() + b"d" * MTU)[:MTU]
            c._book_size = MTU
            c._sent_count = 0
            c._sent_time = None
            self.snd._outbound_queue.append(c)
        self.snd._local_tsn = (first_tsn + nfrag) % (1 << 32)
        return msg

    def run(self, limit: int = 400) -> None:
        """Deliver until quiescence; the T3 timer fires when nothing is in transit."""
        steps = 0
        t3_fired = 0
        self.hook.run_method(self.f_transmit, self.snd, [], {})
        while True:
            steps += 1
            if steps > limit:
                raise Raised("NonTermination (the two endpoints keep exchanging packets)", None)
            if self.to_rcv:
                c = self.to_rcv.popleft()
                if hasattr(c, "streams"):
                    self.hook.run_method(self.f_fwd, self.rcv, [c], {})
                else:
                    if c.tsn in self.seen_tsns:
                        self.dup_deliveries += 1
                    self.seen_tsns.add(c.tsn)
                    # a copy travels: the receiver must not see the sender's bookkeeping
                    self.hook.run_method(self.f_data, self.rcv, [SimpleNamespace(**{k: v for k, v in vars(c).items() if not k.startswith("_")})], {})
                if self.rcv._sack_needed:
                    self.hook.run_method(self.f_send_sack, self.rcv, [], {})
                continue
            if self.to_snd:
                s = self.to_snd.popleft()
                self.hook.run_method(self.f_sack, self.snd, [s], {})
                continue
            if self.held:
                h = self.held.pop(0)
                h[1].append(h[2])
                continue
            if self.snd._t3_handle is not None and (self.snd._sent_queue or self.snd._forward_tsn_pending is not None) and t3_fired < 12:
                t3_fired += 1
                self.snd._t3_handle = None
                self.hook.run_method(self.f_t3, self.snd, [], {})
                continue
            return


_CACHE: Dict[Tuple[int, str], List[Tuple[str, Any, Any]]] = {}


class _Recorder:
    """Collects the outcome of one evaluation of the schedules so that the other properties importing the rule replay it instead of re-evaluating."""

    def __init__(self) -> None:
        self.items: List[Tuple[str, Any, Any]] = []

    def ok(self, rule: str, what: str, sample: Any = None) -> None:
        self.items.append(("ok", what, sample))

    def fail(self, node: Any, message: str, construct: str) -> None:
        self.items.append(("fail", (node, message), construct))


def loop_rule(rep: Report, prog: Program, PROP: str, RULE: str, tier: str) -> None:
    rep.rule(RULE, "sender and receiver closed into a loop under scripted single / double faults: reliable messages once, intact, in order; the sender drains", min_instances=30)
    anchor = prog.func(T + "._receive_sack_chunk")
    key = (id(prog), tier)
    if key not in _CACHE:
        rec = _Recorder()
        _evaluate(rec, prog, tier)
        _CACHE[key] = rec.items
    for kind, a, b in _CACHE[key]:
        if kind == "ok":
            rep.ok(RULE, a, sample=b)
        else:
            rep.fail(mk_finding(prog, PROP, RULE, anchor, a[0], a[1], construct=b))


def _evaluate(rec: "_Recorder", prog: Program, tier: str) -> None:
    RULE = "LOOP"

    def workload(w: World, first_tsn: int):
        """-> list of (stream, payload, reliable?) in sending order, per message"""
        tsn = first_tsn
        plan = []
        for stream, seq, nfrag, unordered, policy, tag in ((1, 65535, 3, False, None, "A"), (2, 0, 1, True, None, "B"), (3, 0, 2, False, 0, "P"), (1, 0, 1, False, None, "C"), (3, 1, 1, False, 0, "Q")):
            msg = w.queue_message(tsn, stream, seq, nfrag, unordered, policy, tag)
            plan.append((stream, b"".join(bytes(c.user_data) for c in msg), policy is None, tag))
            tsn += nfrag
        return plan, tsn

    n_chunks = 8
    schedules: List[Tuple[str, Dict[int, Tuple[str, int]], Dict[int, Tuple[str, int]]]] = [("no fault", {}, {})]
    for i in range(n_chunks):
        schedules.append((f"transmission #{i} lost", {i: ("drop", 0)}, {}))
        schedules.append((f"transmission #{i} duplicated", {i: ("dup", 0)}, {}))
        if i in (2, 7):
            schedules.append((f"transmission #{i} duplicated three times", {i: ("dup3", 0)}, {}))
        schedules.append((f"transmission #{i} overtaken by the next two", {i: ("hold", 2)}, {}))
    for j in range(4):
        schedules.append((f"SACK #{j} lost", {}, {j: ("drop", 0)}))
    doubles = list(itertools.combinations(range(10), 2))
    if tier == "thorough":
        doubles = list(itertools.combinations(range(14), 2))
    for a, b in doubles:
        schedules.append((f"transmissions #{a} and #{b} lost", {a: ("drop", 0), b: ("drop", 0)}, {}))
    for i in (0, 3, 5):
        schedules.append((f"transmission #{i} lost and SACK #1 lost", {i: ("drop", 0)}, {1: ("drop", 0)}))
    origins = [100, (1 << 32) - 3]
    n = 0
    for first_tsn in origins:
        for label, ftx, fsack in schedules:
            if first_tsn != 100 and ("duplicated" in label or "SACK" in label and "and" not in label or (" and #" in label and tier != "thorough" and label.split("#")[1][0] not in "02")):
                continue
            n += 1
            full = f"first TSN {first_tsn}, {label}"
            w = World(prog, first_tsn)
            w.faults_tx, w.faults_sack = dict(ftx), dict(fsack)
            try:
                plan, next_tsn = workload(w, first_tsn)
                w.run()
                # the network is fault-free from here on: one more message on each channel
                w.faults_tx, w.faults_sack = {}, {}
                late = []
                for stream, seq, policy, tag in ((1, 1, None, "D"), (3, 2, 0, "R")):
                    msg = w.queue_message(next_tsn, stream, seq, 1, False, policy, tag)
                    late.append((stream, bytes(msg[0].user_data), policy is None, tag))
                    next_tsn += 1
                w.run()
            except Raised as ex:
                rec.fail(getattr(ex, "node", None), f"[{full}] raises {ex.name}", f"loop raises {ex.name}"[:70])
                continue
            except Unknown as ex:
                raise AnalysisError(f"{RULE} cannot evaluate [{full}]: {ex}")
            got = [(d[0], bytes(d[2])) for d in w.rcv.delivered]
            problems = []
            for stream in (1, 2, 3):
                sent_rel = [(s, p) for s, p, rel, _ in plan + late if s == stream and rel]
                got_s = [g for g in got if g[0] == stream]
                sent_all = [(s, p) for s, p, rel, _ in plan + late if s == stream]
                if sent_rel and got_s != sent_rel:
                    names = {p: t for _, p, _, t in plan + late}
                    problems.append(f"reliable stream {stream} delivered {[names.get(g[1], '?') for g in got_s]}, sent {[names[p] for _, p in sent_rel]}")
                if not sent_rel:
                    # partially reliable: a duplicate-free, in-order selection of what was sent
                    it = iter(sent_all)
                    if len(set(got_s)) != len(got_s) or not all(any(g == x for x in it) for g in got_s):
                        problems.append(f"partially reliable stream {stream} delivered something that is not an in-order, duplicate-free selection of what was sent")
                    for s, p, rel, tag in late:
                        if s == stream and (s, p) not in got_s:
                            problems.append(f"message {tag} sent on the partially reliable stream after the network recovered is not delivered")
            if w.snd._sent_queue or w.snd._outbound_queue:
                problems.append(f"the sender still holds TSN {[c.tsn for c in w.snd._sent_queue]} outstanding / {[c.tsn for c in w.snd._outbound_queue]} unsent after the network recovered")
            elif w.snd._flight_size != 0:
                problems.append(f"nothing is outstanding but _flight_size is {w.snd._flight_size}")
            if w.reported_dups > w.dup_deliveries or w.rcv._sack_duplicates:
                problems.append(f"the receiver's SACKs reported {w.reported_dups} duplicate TSNs but only {w.dup_deliveries} duplicates arrived (still listed: {list(w.rcv._sack_duplicates)}): "
                                "the duplicate list is not cleared once it has been reported, every SACK grows by what all earlier ones carried")
            stale = {sid: [c.tsn for c in st.reassembly] for sid, st in w.rcv._inbound_streams.items() if st.reassembly}
            if stale and not problems:
                problems.append(f"chunks left in the receiver's reassembly queues: {stale}")
            if problems:
                rec.fail(None, f"[{full}] " + "; ".join(problems[:3]), "loop: " + problems[0][:70])
            else:
                rec.ok(RULE, full, sample=f"{len(got)} deliveries; sender drained after {w.n_tx} transmissions and {w.n_sack} SACKs")
    if n < 30:
        raise AnalysisError(f"{RULE}: only {n} schedules enumerated")
