"""C03 — offer/answer yields a consistent session.

  C03-DIR     and_direction / or_direction / reverse_direction evaluated over DIRECTIONS x DIRECTIONS equal intersection /
              union / swap of the {send, recv} capability sets; the composition used by the two sides (offer direction ->
              _offerDirection -> answer direction -> current directions) yields complementary current directions that never
              exceed what either side asked for, for all 16 pairs
  C03-SCOPE   negotiated per-transceiver state (_offerDirection) is only read from a transceiver selected through the
              description being processed (lookup by mid / m-line index), never by iterating over every transceiver of the
              connection; createAnswer and setLocalDescription compute the answer direction with the same expression
  C03-MIRROR  createAnswer appends exactly one media section per remote section on every path, in order, looked up by the
              remote mid, and the BUNDLE group lists the mids of the sections in order (same for createOffer's group)
  C03-OFFERED find_common_codecs / find_common_header_extensions evaluated over boundary payload types (96, 127, static) and
              shuffled extension ids: every selected codec was offered with that payload type, RTX only follows an accepted base
              with the same clock rate, feedback is a subset of the offered one, header extensions carry the offerer's ids;
              DYNAMIC_PAYLOAD_TYPES is exactly 96..127
  C03-ICEROLE every assignment of the ICE role is guarded by `not <transport>._role_set` and latches it (role fixed by the
              first negotiation, also when the offering side swaps later)
  C03-DTLSROLE the answer's role is client or the preserved role for every transport role; setRemoteDescription assigns the
              complement of the remote role for answers and `server` for active offers; setLocalDescription(answer) applies the
              answer's own role; answers with a role outside {client, server} are rejected
  C03-BUNDLE  every setTransport() of the bundling step is guarded by `not X._bundled` and latches it
  C03-SLOTS   (shared with C14) description slots after setLocal/RemoteDescription per type
Does not decide: that the negotiated session connects, nor the full configuration product.
"""
from __future__ import annotations

import ast
import copy
import itertools
import re
from types import SimpleNamespace
from typing import Any, Dict, List, Optional, Set, Tuple

from engine.index import AnalysisError, Program, Unknown, unparse, walk_no_nested
from engine.peval import Evaluator, Raised, Ret
from engine.report import Report, mk_finding

from .objhook import ClassRef, make_hook, new

PROP = "C03"
PC = "rtcpeerconnection.RTCPeerConnection"
CAP = {"inactive": frozenset(), "sendonly": frozenset({"send"}), "recvonly": frozenset({"recv"}), "sendrecv": frozenset({"send", "recv"})}
SWAP = {"send": "recv", "recv": "send"}


def clone(v: Any) -> Any:
    if isinstance(v, SimpleNamespace):
        return SimpleNamespace(**{k: (x if k == "__cls__" else clone(x)) for k, x in vars(v).items()})
    if isinstance(v, dict):
        return {k: clone(x) for k, x in v.items()}
    if isinstance(v, list):
        return [clone(x) for x in v]
    return v


def build_hook(prog: Program):
    def extra(call: ast.Call, ev: Evaluator) -> Any:
        name = unparse(call.func)
        if name == "copy.deepcopy":
            return clone(ev.ev(call.args[0]))
        if name == "re.match":
            return re.match(*[re.I if unparse(x) in ("re.I", "re.IGNORECASE") else ev.ev(x) for x in call.args])
        if name == "isinstance" and len(call.args) == 2 and isinstance(call.args[1], ast.Name):
            v = ev.ev(call.args[0])
            t = call.args[1].id
            if t in ("str", "int", "bytes", "dict", "list"):
                return isinstance(v, {"str": str, "int": int, "bytes": bytes, "dict": dict, "list": list}[t]) and not isinstance(v, bool)
        if name == "str" and len(call.args) == 1:
            return str(ev.ev(call.args[0]))
        if name == "int" and call.args:
            try:
                return int(*[ev.ev(x) for x in call.args])
            except (ValueError, TypeError):
                raise Raised("ValueError", call)
        if isinstance(call.func, ast.Attribute) and call.func.attr == "index":
            base = ev.ev(call.func.value)
            if isinstance(base, list):
                try:
                    return base.index(ev.ev(call.args[0]))
                except ValueError:
                    raise Raised("ValueError", call)
        if name == "filter" and len(call.args) == 2 and isinstance(call.args[0], ast.Name):
            r = prog.resolve_name(ev.module, call.args[0].id)
            if r and r[0] == "func":
                return [x for x in ev.ev(call.args[1]) if ev.call_function(r[1], [x])]
        if isinstance(call.func, ast.Attribute) and isinstance(call.func.value, ast.Name) and call.func.value.id not in ev.env:
            r = prog.resolve_name(ev.module, call.func.value.id)
            if r and r[0] == "module":
                fq = f"{r[1].name}.{call.func.attr}"
                if fq in prog.functions:
                    return ev.call_function(prog.functions[fq], [ev.ev(a) for a in call.args], {k.arg: ev.ev(k.value) for k in call.keywords})
        return NotImplemented

    return make_hook(prog, extra)


def count_paths(stmts: List[ast.stmt], is_event) -> Tuple[Set[int], bool]:
    """Possible numbers of event statements executed along the paths through `stmts`; second component: some path leaves
    the enclosing loop iteration early (continue / break / return / raise)."""
    counts = {0}
    early = False
    for s in stmts:
        if isinstance(s, (ast.Continue, ast.Break, ast.Return, ast.Raise)):
            return counts, True
        if isinstance(s, ast.If):
            a, ea = count_paths(s.body, is_event)
            b, eb = count_paths(s.orelse, is_event)
            early = early or ea or eb
            counts = {c + x for c in counts for x in (a | b)}
        elif isinstance(s, (ast.For, ast.While, ast.Try, ast.With)):
            inner = [x for x in ast.walk(s) if isinstance(x, ast.stmt) and is_event(x)]
            if inner:
                counts = {c + x for c in counts for x in (0, 1, 2)}
        elif is_event(s):
            counts = {c + 1 for c in counts}
    return counts, early


def run(rep: Report, prog: Program, tier: str) -> None:
    rep.explanation = (
        "Static checks of rtcpeerconnection.py: finite evaluation (checker's own interpreter) of the direction algebra, of the role "
        "assignments and of the codec / header-extension intersection; structural scope, mirror and guard rules on createOffer, "
        "createAnswer, setLocalDescription and setRemoteDescription."
    )
    hook = build_hook(prog)
    mod = prog.modules["rtcpeerconnection"]
    create_answer = prog.func(PC + ".createAnswer")
    create_offer = prog.func(PC + ".createOffer")
    set_local = prog.func(PC + ".setLocalDescription")
    set_remote = prog.func(PC + ".setRemoteDescription")
    ev = Evaluator(prog, mod, None, {}, hook)

    # ---------------------------------------------------------------- C03-DIR
    rep.rule("C03-DIR", "direction algebra", min_instances=52)
    f_and, f_or, f_rev = (prog.func("rtcpeerconnection." + n) for n in ("and_direction", "or_direction", "reverse_direction"))
    dirs = list(CAP)

    def call(fi, *a):
        try:
            return ev.call_function(fi, list(a))
        except Raised as ex:
            return f"<raises {ex.name}>"
        except Unknown as ex:
            raise AnalysisError(f"cannot evaluate {fi.qualname}{a}: {ex}")

    for a, b in itertools.product(dirs, dirs):
        for fi, op, nm in ((f_and, frozenset.intersection, "intersection"), (f_or, frozenset.union, "union")):
            got = call(fi, a, b)
            want = next(d for d in dirs if CAP[d] == op(CAP[a], CAP[b]))
            if got == want:
                rep.ok("C03-DIR", f"{fi.name}({a}, {b})", sample=got)
            else:
                rep.fail(mk_finding(prog, PROP, "C03-DIR", fi, fi.node, f"{fi.name}({a!r}, {b!r}) evaluates to {got!r}; the {nm} of the capabilities is {want!r}",
                                    construct=f"{fi.name} {a} {b}"))
    for a in dirs:
        got = call(f_rev, a)
        want = next(d for d in dirs if CAP[d] == frozenset(SWAP[x] for x in CAP[a]))
        if got == want:
            rep.ok("C03-DIR", f"reverse_direction({a})", sample=got)
        else:
            rep.fail(mk_finding(prog, PROP, "C03-DIR", f_rev, f_rev.node, f"reverse_direction({a!r}) evaluates to {got!r}, expected {want!r}", construct=f"reverse {a}"))
    # composition: offerer direction o, answerer direction a
    for o, a in itertools.product(dirs, dirs):
        offer_dir = call(f_rev, o)                 # answerer: _offerDirection
        answer = call(f_and, a, offer_dir)         # answer media direction == answerer's current direction
        offerer_cur = call(f_rev, answer)          # offerer: reverse of the answer's direction
        ok = (answer in CAP and offerer_cur in CAP and CAP[offerer_cur] == frozenset(SWAP[x] for x in CAP[answer])
              and CAP[offerer_cur] <= CAP[o] and CAP[answer] <= CAP[a])
        if ok:
            rep.ok("C03-DIR", f"offer {o} / answerer {a}", sample=f"answer {answer}, offerer current {offerer_cur}")
        else:
            rep.fail(mk_finding(prog, PROP, "C03-DIR", f_and, f_and.node,
                                f"offerer {o!r} x answerer {a!r}: answer direction {answer!r}, offerer current {offerer_cur!r} are not complementary / exceed what was asked",
                                construct=f"composition {o} {a}"))

    # ---------------------------------------------------------------- C03-SCOPE
    rep.rule("C03-SCOPE", "negotiated transceiver state is read only for transceivers selected through the description", min_instances=3)
    LOOKUPS = ("__getTransceiverByMid", "__getTransceiverByMLineIndex")
    and_exprs: List[Tuple[Any, ast.Call]] = []
    n_reads = 0
    for fi in prog.functions.values():
        if fi.module.name != "rtcpeerconnection":
            continue
        # variable -> how it is bound
        binds: Dict[str, List[ast.AST]] = {}
        for n in walk_no_nested(fi.node):
            if isinstance(n, ast.Assign) and len(n.targets) == 1 and isinstance(n.targets[0], ast.Name):
                binds.setdefault(n.targets[0].id, []).append(n.value)
            if isinstance(n, (ast.For, ast.comprehension)) and isinstance(n.target, ast.Name):
                binds.setdefault(n.target.id, []).append(ast.Starred(value=n.iter, ctx=ast.Load()))
        parents: Dict[int, ast.AST] = {}
        for p in ast.walk(fi.node):
            for ch in ast.iter_child_nodes(p):
                parents[id(ch)] = p
        for n in walk_no_nested(fi.node):
            if isinstance(n, ast.Attribute) and n.attr == "_offerDirection" and isinstance(n.ctx, ast.Load):
                n_reads += 1
                base = n.value
                srcs = binds.get(base.id, []) if isinstance(base, ast.Name) else []
                good = bool(srcs) and all(isinstance(s, ast.Call) and unparse(s.func).split(".")[-1] in LOOKUPS for s in srcs)
                if not good:
                    # accepted idiom: the read is itself a None test, or is dominated by `<x>._offerDirection is not None`
                    par = parents.get(id(n))
                    if isinstance(par, ast.Compare) and len(par.ops) == 1 and isinstance(par.ops[0], (ast.Is, ast.IsNot)):
                        n_reads -= 1
                        continue
                    cur: Any = n
                    while id(cur) in parents and not good:
                        p2 = parents[id(cur)]
                        if isinstance(p2, ast.If) and any(cur is b for b in p2.body):
                            conj = p2.test.values if isinstance(p2.test, ast.BoolOp) and isinstance(p2.test.op, ast.And) else [p2.test]
                            good = any(unparse(c) == f"{unparse(n)} is not None" for c in conj)
                        cur = p2
                if good:
                    rep.ok("C03-SCOPE", f"{fi.qualname}: {unparse(n)} @ line {n.lineno}", sample="bound by " + ", ".join(unparse(s)[:60] for s in srcs))
                else:
                    how = ", ".join(("iteration over " + unparse(s.value)) if isinstance(s, ast.Starred) else unparse(s)[:60] for s in srcs) or "unknown binding"
                    rep.fail(mk_finding(prog, PROP, "C03-SCOPE", fi, n,
                                        f"`{unparse(n)}` is read from a transceiver bound by {how}; a transceiver that is not part of the description "
                                        f"(created beforehand, kind absent from the offer) has no offer direction and negotiation fails",
                                        construct="read of _offerDirection via " + how[:60]))
            if isinstance(n, ast.Call) and unparse(n.func) == "and_direction":
                and_exprs.append((fi, n))
    if n_reads < 2:
        raise AnalysisError("reads of _offerDirection not found in rtcpeerconnection.py")

    def shape(c: ast.Call) -> Tuple[str, ...]:
        out = []
        for a in c.args:
            if not (isinstance(a, ast.Attribute) and isinstance(a.value, ast.Name)):
                return ("?",)
            out.append(a.attr)
        return tuple(out)

    ca = [c for fi, c in and_exprs if fi is create_answer]
    sl = [c for fi, c in and_exprs if fi is set_local]
    if len(ca) != 1 or len(sl) != 1:
        raise AnalysisError("expected exactly one and_direction() call in createAnswer and in setLocalDescription")
    bases = lambda c: {a.value.id for a in c.args if isinstance(a, ast.Attribute) and isinstance(a.value, ast.Name)}
    if shape(ca[0]) == shape(sl[0]) == ("direction", "_offerDirection") and len(bases(ca[0])) == 1 and len(bases(sl[0])) == 1:
        rep.ok("C03-SCOPE", "createAnswer and setLocalDescription compute the answer direction identically", sample=unparse(ca[0]))
    else:
        rep.fail(mk_finding(prog, PROP, "C03-SCOPE", set_local, sl[0],
                            f"setLocalDescription derives the current direction with `{unparse(sl[0])}` while createAnswer announces `{unparse(ca[0])}`",
                            construct="answer direction expression"))

    # ---------------------------------------------------------------- C03-MIRROR
    rep.rule("C03-MIRROR", "the answer mirrors the offer's media sections and BUNDLE group", min_instances=5)
    loop = None
    for n in walk_no_nested(create_answer.node):
        if isinstance(n, ast.For) and "__remoteDescription().media" in unparse(n.iter):
            loop = n
    if loop is None:
        raise AnalysisError("loop over the remote description's media not found in createAnswer")
    is_append = lambda s: isinstance(s, ast.Expr) and isinstance(s.value, ast.Call) and unparse(s.value.func) == "description.media.append"
    counts, early = count_paths(loop.body, is_append)
    if counts == {1} and not early:
        rep.ok("C03-MIRROR", "createAnswer: one description.media.append per remote section on every path", sample=f"counts {sorted(counts)}")
    else:
        rep.fail(mk_finding(prog, PROP, "C03-MIRROR", create_answer, loop,
                            f"a path through the loop over the offer's media sections appends {sorted(counts)} section(s)"
                            + (" or leaves the iteration early" if early else "") + ": the answer would not mirror the offer", construct="media sections per remote section"))
    others = [n for n in walk_no_nested(create_answer.node) if isinstance(n, ast.Call) and unparse(n.func) in ("description.media.append", "description.media.insert", "description.media.extend")
              and not any(n is x for x in ast.walk(loop))]
    if others:
        rep.fail(mk_finding(prog, PROP, "C03-MIRROR", create_answer, others[0], "createAnswer adds media sections outside the loop over the offer's sections", construct="extra media section"))
    else:
        rep.ok("C03-MIRROR", "createAnswer: no media section added outside the loop", sample="who-may-append scan")
    # lookup by the remote mid
    tvar = loop.target.id if isinstance(loop.target, ast.Name) else None
    look = [n for n in ast.walk(loop) if isinstance(n, ast.Call) and unparse(n.func).endswith("__getTransceiverByMid")]
    if len(look) == 1 and tvar and unparse(look[0].args[0]) == f"{tvar}.rtp.muxId":
        rep.ok("C03-MIRROR", "createAnswer: transceiver looked up by the remote section's mid", sample=unparse(look[0]))
    else:
        rep.fail(mk_finding(prog, PROP, "C03-MIRROR", create_answer, look[0] if look else loop, "the transceiver answering a remote section is not looked up by that section's mid",
                            construct="transceiver lookup"))
    kinds_test = [n for n in loop.body if isinstance(n, ast.If)]
    if kinds_test and unparse(kinds_test[0].test).startswith(f"{tvar}.kind in"):
        rep.ok("C03-MIRROR", "createAnswer: section kind follows the remote section", sample=unparse(kinds_test[0].test))
    else:
        rep.fail(mk_finding(prog, PROP, "C03-MIRROR", create_answer, loop, "the kind of an answered section is not taken from the remote section", construct="section kind"))
    def builds_bundle(fn_node: ast.AST) -> bool:
        """`for m in <d>.media: <b>.items.append(m.rtp.muxId)` — the group lists every section's mid in order."""
        for n in ast.walk(fn_node):
            if isinstance(n, ast.For) and unparse(n.iter).endswith(".media") and isinstance(n.target, ast.Name) and len(n.body) == 1:
                b = n.body[0]
                if isinstance(b, ast.Expr) and isinstance(b.value, ast.Call) and unparse(b.value.func).endswith(".items.append") \
                        and len(b.value.args) == 1 and unparse(b.value.args[0]) == f"{n.target.id}.rtp.muxId":
                    return True
            # comprehension form: items=[m.rtp.muxId for m in d.media]
            if isinstance(n, ast.ListComp) and len(n.generators) == 1 and unparse(n.generators[0].iter).endswith(".media") and not n.generators[0].ifs \
                    and isinstance(n.generators[0].target, ast.Name) and unparse(n.elt) == f"{n.generators[0].target.id}.rtp.muxId":
                return True
        return False
    cg3 = None
    for fi in (create_answer, create_offer):
        ok = builds_bundle(fi.node)
        if not ok:
            # the construction may live in a helper that is handed the description
            from engine.callgraph import CallGraph
            cg3 = cg3 or CallGraph(prog)
            for cs in cg3.sites(fi):
                if isinstance(cs.node, ast.Call) and any(unparse(a) == "description" for a in cs.node.args) and any(builds_bundle(t.node) for t in cs.targets):
                    ok = True
        if ok:
            rep.ok("C03-MIRROR", f"{fi.name}: BUNDLE group lists every section's mid in order", sample="for media in description.media: bundle.items.append(media.rtp.muxId)")
        else:
            rep.fail(mk_finding(prog, PROP, "C03-MIRROR", fi, fi.node, "the BUNDLE group is not built from the mids of description.media in order", construct="BUNDLE group"))

    # ---------------------------------------------------------------- C03-OFFERED
    rep.rule("C03-OFFERED", "only offered codecs / extensions are selected, with the offerer's numbers", min_instances=25)
    rtp_mod = prog.modules["rtp"]
    try:
        dyn = Evaluator(prog, rtp_mod, None, {}, hook).ev(ast.Name(id="DYNAMIC_PAYLOAD_TYPES", ctx=ast.Load()))
    except Unknown as ex:
        raise AnalysisError(f"DYNAMIC_PAYLOAD_TYPES cannot be folded: {ex}")
    fcc = prog.func("rtcpeerconnection.find_common_codecs")
    fce = prog.func("rtcpeerconnection.find_common_header_extensions")
    if list(dyn) == list(range(96, 128)):
        rep.ok("C03-OFFERED", "DYNAMIC_PAYLOAD_TYPES == 96..127 (RFC 3551)", sample=repr(dyn))
    else:
        rep.fail(mk_finding(prog, PROP, "C03-OFFERED", fcc, fcc.node, f"rtp.DYNAMIC_PAYLOAD_TYPES is {dyn!r}; the dynamic range an offerer may use is 96..127",
                            construct="DYNAMIC_PAYLOAD_TYPES"))
    mk = lambda q, **kw: new(prog, hook, q, **kw)
    C = "rtcrtpparameters.RTCRtpCodecParameters"
    FB = "rtcrtpparameters.RTCRtcpFeedback"

    def fb(*names):
        return [mk(FB, type=t, parameter=p) for t, p in names]

    def local_codecs():
        return [
            mk(C, mimeType="audio/opus", clockRate=48000, channels=2, payloadType=96),
            mk(C, mimeType="audio/PCMU", clockRate=8000, channels=1, payloadType=0),
            mk(C, mimeType="video/VP8", clockRate=90000, payloadType=97, rtcpFeedback=fb(("nack", None), ("nack", "pli"), ("goog-remb", None))),
            mk(C, mimeType="video/rtx", clockRate=90000, payloadType=98, parameters={"apt": 97}),
            mk(C, mimeType="video/H264", clockRate=90000, payloadType=99, rtcpFeedback=fb(("nack", None), ("nack", "pli"), ("goog-remb", None)),
               parameters={"level-asymmetry-allowed": "1", "packetization-mode": "1", "profile-level-id": "42e01f"}),
        ]

    def describe(c: Any) -> Tuple:
        return (c.mimeType.lower(), c.clockRate, c.payloadType)

    scen = []
    pt_pairs = [(96, 97), (97, 98), (100, 101), (126, 127), (127, 96), (127, 126), (110, 127)]
    if tier == "thorough":
        pt_pairs = [(a, b) for a in range(96, 128) for b in (96, 97, 111, 126, 127) if a != b]
    for vp8_pt, rtx_pt in pt_pairs:
        remote = [
            mk(C, mimeType="video/VP8", clockRate=90000, payloadType=vp8_pt, rtcpFeedback=fb(("nack", None), ("ccm", "fir"))),
            mk(C, mimeType="video/rtx", clockRate=90000, payloadType=rtx_pt, parameters={"apt": vp8_pt}),
        ]
        scen.append((f"VP8 at {vp8_pt}, rtx at {rtx_pt}", remote))
    scen.append(("rtx before / without its base", [mk(C, mimeType="video/rtx", clockRate=90000, payloadType=98, parameters={"apt": 120}),
                                                    mk(C, mimeType="video/VP8", clockRate=90000, payloadType=120)]))
    scen.append(("rtx for an unsupported base", [mk(C, mimeType="video/VP9", clockRate=90000, payloadType=101),
                                                  mk(C, mimeType="video/rtx", clockRate=90000, payloadType=102, parameters={"apt": 101}),
                                                  mk(C, mimeType="video/VP8", clockRate=90000, payloadType=103)]))
    scen.append(("rtx with a different clock rate", [mk(C, mimeType="video/VP8", clockRate=90000, payloadType=103),
                                                      mk(C, mimeType="video/rtx", clockRate=8000, payloadType=104, parameters={"apt": 103})]))
    scen.append(("rtx with a non-integer apt", [mk(C, mimeType="video/VP8", clockRate=90000, payloadType=103),
                                                 mk(C, mimeType="video/rtx", clockRate=90000, payloadType=104, parameters={"apt": "103"})]))
    for opus_pt in (96, 111, 127):
        scen.append((f"opus at {opus_pt} + PCMU 0", [mk(C, mimeType="audio/opus", clockRate=48000, channels=2, payloadType=opus_pt),
                                                      mk(C, mimeType="audio/PCMU", clockRate=8000, channels=1, payloadType=0),
                                                      mk(C, mimeType="audio/PCMA", clockRate=8000, channels=1, payloadType=8)]))
    scen.append(("case-insensitive mime type", [mk(C, mimeType="video/vp8", clockRate=90000, payloadType=127)]))
    scen.append(("nothing in common", [mk(C, mimeType="video/AV1", clockRate=90000, payloadType=96)]))
    h264_ok = True
    for pt, plid, pm in ((127, "42e01f", "1"), (102, "42e01f", "0"), (125, "640c1f", "1"), (108, None, "1")):
        params = {"packetization-mode": pm}
        if plid:
            params["profile-level-id"] = plid
        scen.append((f"H264 at {pt} profile {plid} mode {pm}", [mk(C, mimeType="video/H264", clockRate=90000, payloadType=pt, parameters=params,
                                                                   rtcpFeedback=fb(("nack", "pli"), ("transport-cc", None)))]))
    for label, remote in scen:
        offered = {describe(c) for c in remote}
        loc_in = local_codecs()
        rem_in = [clone(c) for c in remote]
        snap = lambda lst: [(describe(c), [(f.type, f.parameter) for f in c.rtcpFeedback], dict(c.parameters)) for c in lst]  # noqa: E731
        before = (snap(loc_in), snap(rem_in))
        try:
            common = ev.call_function(fcc, [loc_in, rem_in])
        except Raised as ex:
            rep.fail(mk_finding(prog, PROP, "C03-OFFERED", fcc, getattr(ex, "node", fcc.node), f"find_common_codecs raises {ex.name} for offer [{label}]", construct=f"raises {ex.name}"))
            continue
        except Unknown as ex:
            raise AnalysisError(f"C03-OFFERED cannot evaluate [{label}]: {ex}")
        problems = []
        if (snap(loc_in), snap(rem_in)) != before:
            problems.append("find_common_codecs modifies the codec objects it was given (the local capability table would change for every later negotiation)")
        shared = [c.mimeType for c in common if any(c is x for x in loc_in)]
        if shared:
            problems.append(f"the selection hands out the local capability objects themselves ({shared}): adopting the offerer's payload type / feedback would edit the shared table")
        accepted: Dict[int, Any] = {}
        for c in common:
            if describe(c) not in offered:
                problems.append(f"selects {c.mimeType} with payload type {c.payloadType}, which the offer does not contain")
            rem = next((r for r in remote if describe(r) == describe(c)), None)
            if rem is not None:
                off_fb = {(f.type, f.parameter) for f in rem.rtcpFeedback}
                extra_fb = [(f.type, f.parameter) for f in c.rtcpFeedback if (f.type, f.parameter) not in off_fb]
                if extra_fb:
                    problems.append(f"{c.mimeType}: feedback {extra_fb} was not offered")
            if c.mimeType.lower().endswith("/rtx"):
                apt = c.parameters.get("apt")
                base = accepted.get(apt)
                if base is None:
                    problems.append(f"RTX {c.payloadType} (apt={apt}) selected without an accepted base codec before it")
                elif base.clockRate != c.clockRate:
                    problems.append(f"RTX {c.payloadType} has a clock rate different from its base")
            else:
                accepted[c.payloadType] = c
        # completeness on the supported part: an offered, locally supported base codec and its well-formed RTX must be selected
        for r in remote:
            mt = r.mimeType.lower()
            same_h264 = mt == "video/h264" and r.parameters.get("packetization-mode") == "1" and r.parameters.get("profile-level-id", "42e01f") == "42e01f"
            if (mt in ("video/vp8", "audio/opus", "audio/pcmu") or same_h264) and describe(r) not in {describe(c) for c in common}:
                problems.append(f"offered {r.mimeType} at payload type {r.payloadType} is supported locally but missing from the selection")
            if mt == "video/rtx" and isinstance(r.parameters.get("apt"), int) and r.clockRate == 90000:
                base = next((b for b in remote if b.payloadType == r.parameters["apt"] and b.mimeType.lower() == "video/vp8"), None)
                if base is not None and remote.index(base) < remote.index(r) and describe(r) not in {describe(c) for c in common}:
                    problems.append(f"offered RTX {r.payloadType} for the accepted base {base.payloadType} is missing from the selection")
        if problems:
            rep.fail(mk_finding(prog, PROP, "C03-OFFERED", fcc, fcc.node, f"offer [{label}]: " + "; ".join(problems), construct="codec selection: " + problems[0][:60]))
        else:
            rep.ok("C03-OFFERED", f"find_common_codecs [{label}]", sample=", ".join(f"{c.payloadType}={c.mimeType}" for c in common) or "(none)")
    X = "rtcrtpparameters.RTCRtpHeaderExtensionParameters"
    local_ext = [mk(X, id=1, uri="urn:mid"), mk(X, id=2, uri="urn:level"), mk(X, id=3, uri="urn:abs")]
    for label, remote_ext in (("shuffled ids", [mk(X, id=5, uri="urn:level"), mk(X, id=7, uri="urn:unknown"), mk(X, id=9, uri="urn:mid")]),
                              ("same uris, ids swapped", [mk(X, id=2, uri="urn:mid"), mk(X, id=1, uri="urn:level")]),
                              ("none offered", []),
                              ("only unknown", [mk(X, id=4, uri="urn:zzz")])):
        try:
            common = ev.call_function(fce, [local_ext, remote_ext])
        except (Raised, Unknown) as ex:
            raise AnalysisError(f"C03-OFFERED cannot evaluate header extensions [{label}]: {ex}")
        want = [(x.id, x.uri) for x in remote_ext if x.uri in {l.uri for l in local_ext}]
        got = [(x.id, x.uri) for x in common]
        if got == want:
            rep.ok("C03-OFFERED", f"find_common_header_extensions [{label}]", sample=repr(got))
        else:
            rep.fail(mk_finding(prog, PROP, "C03-OFFERED", fce, fce.node, f"header extensions [{label}]: selected {got}, the offered-and-supported ones are {want}",
                                construct="header extension selection"))

    # ---------------------------------------------------------------- C03-ICEROLE
    rep.rule("C03-ICEROLE", "the ICE role is assigned once per transport", min_instances=2)
    sites = 0
    for fi in prog.functions.values():
        if fi.module.name == "rtcicetransport":
            continue
        parents: Dict[int, ast.AST] = {}
        for p in ast.walk(fi.node):
            for ch in ast.iter_child_nodes(p):
                parents[id(ch)] = p
        for n in walk_no_nested(fi.node):
            if isinstance(n, ast.Assign) and any(isinstance(t, ast.Attribute) and t.attr == "ice_controlling" for t in n.targets):
                sites += 1
                t = next(t for t in n.targets if isinstance(t, ast.Attribute) and t.attr == "ice_controlling")
                # transport expression: strip `._connection`
                tr = t.value.value if isinstance(t.value, ast.Attribute) and t.value.attr == "_connection" else t.value
                trs = unparse(tr)
                guard = False
                cur: Any = n
                while id(cur) in parents:
                    par = parents[id(cur)]
                    if isinstance(par, ast.If) and any(cur is b for b in par.body):
                        conj = par.test.values if isinstance(par.test, ast.BoolOp) and isinstance(par.test.op, ast.And) else [par.test]
                        if any(isinstance(c, ast.UnaryOp) and isinstance(c.op, ast.Not) and unparse(c.operand) == f"{trs}._role_set" for c in conj):
                            guard = True
                    if isinstance(par, (ast.FunctionDef, ast.AsyncFunctionDef)):
                        break
                    cur = par
                blk = parents[id(n)]
                body = getattr(blk, "body", [])
                latch = any(isinstance(s, ast.Assign) and unparse(s.targets[0]) == f"{trs}._role_set" and isinstance(s.value, ast.Constant) and s.value.value is True
                            for s in body)
                if guard and latch:
                    rep.ok("C03-ICEROLE", f"{fi.qualname}: {unparse(n)[:70]}", sample=f"guarded by not {trs}._role_set and latched")
                else:
                    why = "is not guarded by `not %s._role_set`" % trs if not guard else "does not latch %s._role_set" % trs
                    rep.fail(mk_finding(prog, PROP, "C03-ICEROLE", fi, n,
                                        f"the ICE role assignment {why}: a later negotiation (offering side swapped) would flip the role of an established transport",
                                        construct="ICE role assignment " + ("unguarded" if not guard else "unlatched")))
            if isinstance(n, ast.Assign) and any(isinstance(t, ast.Attribute) and t.attr == "_role_set" for t in n.targets):
                if not (isinstance(n.value, ast.Constant) and n.value.value is True):
                    rep.fail(mk_finding(prog, PROP, "C03-ICEROLE", fi, n, "the ICE role latch is reset outside the transport's constructor", construct="role latch reset"))
    if sites < 2:
        raise AnalysisError("ICE role assignment sites not found")

    # ---------------------------------------------------------------- C03-DTLSROLE
    rep.rule("C03-DTLSROLE", "definite, complementary DTLS roles", min_instances=10)
    # createAnswer: the statement assigning media.dtls.role
    role_if = None
    for n in walk_no_nested(create_answer.node):
        if isinstance(n, ast.If) and any(isinstance(x, ast.Assign) and unparse(x.targets[0]) == "media.dtls.role" for x in ast.walk(n)):
            role_if = n
    if role_if is None:
        raise AnalysisError("DTLS role assignment not found in createAnswer")
    for role in ("auto", "client", "server"):
        media = SimpleNamespace(dtls=SimpleNamespace(role="auto"))
        e2 = Evaluator(prog, mod, None, {"media": media, "dtlsTransport": SimpleNamespace(_role=role)}, hook)
        try:
            from .common import run_prelude
            run_prelude(e2, create_answer.node, role_if)
            e2.exec_stmt(role_if)
        except (Raised, Unknown) as ex:
            raise AnalysisError(f"cannot evaluate the DTLS role assignment of createAnswer: {ex}")
        got = media.dtls.role
        want = "client" if role == "auto" else role
        if got == want:
            rep.ok("C03-DTLSROLE", f"createAnswer: transport role {role}", sample=f"answer role {got}")
        else:
            rep.fail(mk_finding(prog, PROP, "C03-DTLSROLE", create_answer, role_if, f"with transport role {role!r} the answer announces DTLS role {got!r}; it must be {want!r}",
                                construct=f"answer role for {role}"))
    # setRemoteDescription: statements calling dtlsTransport._set_role
    # innermost If statements that contain a _set_role call and whose test depends (directly or through a local flag) on the description type
    pm_sr = {}
    for p_ in ast.walk(set_remote.node):
        for ch in ast.iter_child_nodes(p_):
            pm_sr[id(ch)] = p_
    flags = {}   # local names assigned from an expression over description.type, e.g. isOffer = description.type == "offer"
    for n in walk_no_nested(set_remote.node):
        if isinstance(n, ast.Assign) and len(n.targets) == 1 and isinstance(n.targets[0], ast.Name) and "description.type" in unparse(n.value) \
                and all(isinstance(x, (ast.Compare, ast.Attribute, ast.Name, ast.Constant, ast.Load, ast.Eq, ast.NotEq, ast.In, ast.NotIn, ast.List, ast.Tuple, ast.BoolOp, ast.And, ast.Or)) for x in ast.walk(n.value)):
            flags[n.targets[0].id] = n
    stmts = []
    for c_ in [x for x in walk_no_nested(set_remote.node) if isinstance(x, ast.Call) and unparse(x.func) == "dtlsTransport._set_role"]:
        cur = c_
        top = None
        while id(cur) in pm_sr:
            par = pm_sr[id(cur)]
            if isinstance(par, ast.If) and ("description.type" in unparse(par.test) or any(f in {x.id for x in ast.walk(par.test) if isinstance(x, ast.Name)} for f in flags)):
                top = par
            if isinstance(par, (ast.For, ast.AsyncFor, ast.FunctionDef, ast.AsyncFunctionDef)):
                break
            cur = par
        if top is not None and not any(top is s_ for s_ in stmts):
            stmts.append(top)
    stmts.sort(key=lambda n: n.lineno)
    if len(stmts) < 1:
        raise AnalysisError("DTLS role statements not found in setRemoteDescription")
    table = {("offer", "auto"): [], ("offer", "client"): ["server"], ("offer", "server"): [], ("answer", "client"): ["server"], ("answer", "server"): ["client"]}
    for (typ, rrole), want in table.items():
        calls: List[str] = []

        def ex2(call: ast.Call, evl: Evaluator, calls=calls) -> Any:
            if unparse(call.func) == "dtlsTransport._set_role":
                v = evl.ev(call.keywords[0].value) if call.keywords else evl.ev(call.args[0])
                calls.append(v)
                return None
            return NotImplemented
        e2 = Evaluator(prog, mod, None, {"description": SimpleNamespace(type=typ), "media": SimpleNamespace(dtls=SimpleNamespace(role=rrole))}, ex2)
        try:
            for fl in flags.values():
                e2.exec_stmt(fl)
            for s in stmts:
                e2.exec_stmt(s)
        except (Raised, Unknown) as ex:
            raise AnalysisError(f"cannot evaluate DTLS role statements of setRemoteDescription: {ex}")
        if calls == want:
            rep.ok("C03-DTLSROLE", f"setRemoteDescription: {typ} with remote role {rrole}", sample=f"_set_role calls {calls}")
        else:
            rep.fail(mk_finding(prog, PROP, "C03-DTLSROLE", set_remote, stmts[0], f"remote {typ} with DTLS role {rrole!r}: local role set to {calls}, expected {want}",
                                construct=f"remote {typ} role {rrole}"))
    # setLocalDescription(answer) applies the answer's own role to every section kind
    own = [n for n in walk_no_nested(set_local.node) if isinstance(n, ast.Call) and unparse(n.func).endswith("._set_role")]
    if len(own) >= 2 and all(unparse(c.args[0]) == "media.dtls.role" for c in own if c.args):
        rep.ok("C03-DTLSROLE", "setLocalDescription(answer): transports take the answer's own role", sample=f"{len(own)} call sites")
    else:
        rep.fail(mk_finding(prog, PROP, "C03-DTLSROLE", set_local, own[0] if own else set_local.node, "setLocalDescription does not apply the answer's DTLS role to both section kinds",
                            construct="local answer role"))
    val = prog.func(PC + ".__validate_description")
    checks = [n for n in walk_no_nested(val.node) if isinstance(n, ast.If) and "media.dtls.role not in" in unparse(n.test) and any(isinstance(b, ast.Raise) for b in n.body)]
    okv = False
    if checks:
        for typ, role, want in (("answer", "auto", True), ("answer", "client", False), ("answer", "server", False), ("pranswer", "auto", True), ("offer", "auto", False)):
            e2 = Evaluator(prog, mod, None, {"description": SimpleNamespace(type=typ), "media": SimpleNamespace(dtls=SimpleNamespace(role=role))}, None)
            try:
                from .common import run_prelude
                run_prelude(e2, val.node, checks[0])
                got = bool(e2.ev(checks[0].test))
            except Unknown as ex:
                raise AnalysisError(f"cannot evaluate the role validation: {ex}")
            if got != want:
                break
        else:
            okv = True
    if okv:
        rep.ok("C03-DTLSROLE", "__validate_description rejects answers without a definite role", sample=unparse(checks[0].test)[:80])
    else:
        rep.fail(mk_finding(prog, PROP, "C03-DTLSROLE", val, checks[0] if checks else val.node, "answers whose DTLS role is not client/server are not rejected", construct="answer role validation"))

    # ---------------------------------------------------------------- C03-BUNDLE
    rep.rule("C03-BUNDLE", "moving an object onto the BUNDLE primary transport is a one-shot step (guarded by and latching _bundled)", min_instances=2)
    moves: Dict[int, Tuple[ast.If, str]] = {}
    pmr = {}
    for p in ast.walk(set_remote.node):
        for ch in ast.iter_child_nodes(p):
            pmr[id(ch)] = p
    n_moves = 0
    for n in walk_no_nested(set_remote.node):
        if isinstance(n, ast.Call) and isinstance(n.func, ast.Attribute) and n.func.attr == "setTransport":
            n_moves += 1
            owner = unparse(n.func.value)
            for suffix in (".receiver", ".sender"):
                if owner.endswith(suffix):
                    owner = owner[: -len(suffix)]
            cur: Any = n
            blk_if = None
            while id(cur) in pmr:
                par = pmr[id(cur)]
                if isinstance(par, ast.If) and any(cur is b for b in par.body):
                    conj = par.test.values if isinstance(par.test, ast.BoolOp) and isinstance(par.test.op, ast.And) else [par.test]
                    if any(isinstance(c, ast.UnaryOp) and isinstance(c.op, ast.Not) and unparse(c.operand) == f"{owner}._bundled" for c in conj):
                        blk_if = par
                        break
                cur = par
            if blk_if is None:
                rep.fail(mk_finding(prog, PROP, "C03-BUNDLE", set_remote, n, f"`{unparse(n)}` is not guarded by `not {owner}._bundled`: a later negotiation would move (and stop) the "
                                    f"transport again", construct=f"unguarded setTransport of {owner}"))
                continue
            moves.setdefault(id(blk_if), (blk_if, owner))
    for blk_if, owner in moves.values():
        latch = any(isinstance(s, ast.Assign) and unparse(s.targets[0]) == f"{owner}._bundled" and isinstance(s.value, ast.Constant) and s.value.value is True for s in blk_if.body)
        if latch:
            rep.ok("C03-BUNDLE", f"setRemoteDescription: {owner} moved to the primary transport once", sample=f"guarded by not {owner}._bundled and latched")
        else:
            rep.fail(mk_finding(prog, PROP, "C03-BUNDLE", set_remote, blk_if,
                                f"{owner} is moved onto the primary transport under `not {owner}._bundled` but the flag is not set afterwards: the next negotiation treats it as "
                                f"unbundled again and stops the transport it shares with the primary section", construct=f"_bundled latch of {owner}"))
    if n_moves < 3:
        raise AnalysisError("setTransport() calls of the bundling step not found in setRemoteDescription")
    # the transport everything is moved onto must never be among the transports that are stopped afterwards (an object that is
    # marked bundled may have been created on the transport of one that is not, e.g. max-bundle with the data channel first)
    # the collection is whatever local set the loop that awaits `.stop()` on its elements iterates over; the primary transport is the
    # argument of the setTransport() calls
    stops = [n for n in walk_no_nested(set_remote.node) if isinstance(n, ast.For) and isinstance(n.iter, ast.Name)
             and any(isinstance(a, ast.Await) and isinstance(a.value, ast.Call) and unparse(a.value.func).endswith(".stop") for b in n.body for a in ast.walk(b))]
    prim_names = {unparse(n.args[0]) for n in walk_no_nested(set_remote.node)
                  if isinstance(n, ast.Call) and isinstance(n.func, ast.Attribute) and n.func.attr == "setTransport" and n.args}
    if len(stops) != 1 or len(prim_names) != 1:
        raise AnalysisError("setRemoteDescription: collection / stopping of the old transports not found")
    coll = stops[0].iter.id
    prim = next(iter(prim_names))
    adds = [n for n in walk_no_nested(set_remote.node) if isinstance(n, ast.Call) and unparse(n.func) == f"{coll}.add"]
    if not adds:
        raise AnalysisError("setRemoteDescription: collection / stopping of the old transports not found")
    excluded = any(isinstance(n, ast.Call) and unparse(n.func) in (f"{coll}.discard", f"{coll}.remove") and n.args and unparse(n.args[0]) == prim
                   and n.lineno < stops[0].lineno for n in walk_no_nested(set_remote.node))
    guarded_adds = True
    for a in adds:
        cur: Any = a
        g = False
        while id(cur) in pmr:
            par = pmr[id(cur)]
            if isinstance(par, ast.If) and any(cur is b for b in par.body) and (f"is not {prim}" in unparse(par.test) or f"!= {prim}" in unparse(par.test)):
                g = True
            cur = par
        guarded_adds = guarded_adds and g
    if excluded or guarded_adds:
        rep.ok("C03-BUNDLE", "setRemoteDescription: the primary transport is excluded from the transports that are stopped", sample=f"{coll}.discard({prim})" if excluded else "guarded adds")
    else:
        rep.fail(mk_finding(prog, PROP, "C03-BUNDLE", set_remote, stops[0], "the transports of the objects moved onto the primary transport are stopped without excluding the primary "
                            "transport itself: when a moved object was already using it (max-bundle offerer that created its data channel before its first transceiver) the "
                            "shared transport is stopped and the session never connects", construct="primary transport may be stopped"))

    # ---------------------------------------------------------------- C03-SLOTS (shared with C14)
    from .common import description_slots_rule
    description_slots_rule(rep, prog, PROP, "C03-SLOTS")

    # ---------------------------------------------------------------- C03-MIDS: every mid handed out is remembered, so a later offer never reuses it
    rep.rule("C03-MIDS", "mids assigned in setLocal/RemoteDescription are recorded in the set that createOffer allocates new mids from", min_instances=3)
    n_assign = 0
    for fi in (set_local, set_remote):
        for loop in [n for n in walk_no_nested(fi.node) if isinstance(n, ast.For) and "description.media" in unparse(n.iter)]:
            assigns = [x for b in loop.body for x in ast.walk(b)
                       if (isinstance(x, ast.Call) and unparse(x.func).endswith("._set_mid")) or
                       (isinstance(x, ast.Assign) and unparse(x.targets[0]).endswith(".mid"))]
            if not assigns:
                continue
            n_assign += 1
            # the mid expression: `mid` (bound from media.rtp.muxId in this loop) or media.rtp.muxId itself
            recorded = [x for b in loop.body for x in ast.walk(b) if isinstance(x, ast.Call) and unparse(x.func) == "self.__seenMids.add"]
            aliases = {"media.rtp.muxId"} | {unparse(s_.targets[0]) for s_ in loop.body if isinstance(s_, ast.Assign) and unparse(s_.value).endswith(".rtp.muxId")}
            top_level = [x for x in recorded if any(isinstance(b, ast.Expr) and b.value is x for b in loop.body)]
            ok = any(unparse(x.args[0]) in aliases for x in top_level)
            if ok:
                rep.ok("C03-MIDS", f"{fi.name}: mids of the description's sections are added to __seenMids", sample=unparse(top_level[0]))
            else:
                rep.fail(mk_finding(prog, PROP, "C03-MIDS", fi, loop, f"{fi.name} assigns the sections' mids to transceivers / the SCTP transport without recording them in __seenMids on every "
                                    f"iteration: a follow-up offer that adds media can hand out a mid that is already in use", construct="mid not recorded in __seenMids"))
    alloc = [n for n in walk_no_nested(create_offer.node) if isinstance(n, ast.Assign) and unparse(n.value) == "self.__seenMids.copy()"]
    uses = [n for n in ast.walk(create_offer.node) if isinstance(n, ast.Call) and unparse(n.func) == "allocate_mid" and n.args and alloc and unparse(n.args[0]) == unparse(alloc[0].targets[0])]
    if alloc and len(uses) >= 2:
        rep.ok("C03-MIDS", "createOffer allocates new mids from a copy of __seenMids", sample=f"{len(uses)} allocate_mid() call sites")
    else:
        rep.fail(mk_finding(prog, PROP, "C03-MIDS", create_offer, create_offer.node, "createOffer does not allocate the mids of new sections from the set of mids seen so far", construct="mid allocation"))
    if n_assign < 2:
        raise AnalysisError("mid assignment loops not found in setLocalDescription / setRemoteDescription")

    # ---------------------------------------------------------------- C03-STARTED: "start() returned" means "the connection attempt is over"
    # __connect() starts DTLS right after `await iceTransport.start()`; a follow-up negotiation runs a second __connect() while the first
    # is still checking, so start() called on a transport whose start is in progress has to wait for it.
    rep.rule("C03-STARTED", "a transport's start() returns only after the connection attempt (its own or the one in progress) is over; __connect() orders ICE before DTLS before media", min_instances=4)
    from engine.events import EventsDomain, EvState, call_name
    ice_start = prog.func("rtcicetransport.RTCIceTransport.start")
    # the event the running start() sets when it is done
    set_attrs = {unparse(n.func.value) for n in walk_no_nested(ice_start.node)
                 if isinstance(n, ast.Call) and isinstance(n.func, ast.Attribute) and n.func.attr == "set" and unparse(n.func.value).startswith("self.")}

    def ev_ice(node, f):
        if isinstance(node, (ast.Await, ast.Call)):
            nm = call_name(node)
            if nm.endswith("_connection.connect"):
                return ["attempt-over"]
            if isinstance(node, ast.Await) and nm.endswith(".wait") and nm[: -len(".wait")] in set_attrs:
                return ["attempt-over"]
        return []
    dom_ice = EventsDomain(prog, ev_ice)
    dom_ice.events_before_raise = True   # a connect() that raised ConnectionError is an attempt that is over, too
    act = dom_ice.run(ice_start)
    bad = [getattr(node, "lineno", None) or "end of function" for st, node in act.returns if "attempt-over" not in st.events]
    if not act.returns:
        raise AnalysisError("RTCIceTransport.start has no normal exit?")
    if bad:
        rep.fail(mk_finding(prog, PROP, "C03-STARTED", ice_start, ice_start.node,
                            f"RTCIceTransport.start() can return (line {bad}) without having awaited the connectivity checks or the start that is in progress: the second __connect() of a "
                            "follow-up negotiation then starts DTLS over a transport that has no nominated pair, DTLS fails and the session never connects",
                            construct="ICE start returns before the attempt is over"))
    else:
        rep.ok("C03-STARTED", "RTCIceTransport.start: every normal exit awaited connect() or the event of the start in progress", sample=f"{len(act.returns)} exits; event(s) {sorted(set_attrs)}")
    connect = prog.func(PC + ".__connect")
    seen = {"dtls": 0, "media": 0}
    # the local variables holding the ICE / DTLS transport, whatever they are called: resolved receiver types
    from engine.types import Types, members as _members
    _ty = Types(prog)
    _env = _ty.env(connect)

    def _recv_class(call: ast.AST) -> str:
        c = call.value if isinstance(call, ast.Await) else call
        if not (isinstance(c, ast.Call) and isinstance(c.func, ast.Attribute)):
            return ""
        t = _ty.type_of(c.func.value, connect, _env)
        names = {m[1].qualname for m in _members(t) if m[0] == "inst"} if t is not None else set()
        return next(iter(names)) if len(names) == 1 else ""
    transport_vars = {unparse(t) for n in walk_no_nested(connect.node) if isinstance(n, ast.Assign) for t in n.targets
                      if isinstance(t, ast.Name) and isinstance(n.value, ast.Attribute) and n.value.attr == "transport"}
    dtls_vars = {unparse(n.value.func.value) for n in walk_no_nested(connect.node) if isinstance(n, ast.Await) and call_name(n).endswith(".start")
                 and _recv_class(n) == "rtcdtlstransport.RTCDtlsTransport"}

    def ev_conn(node, f):
        if isinstance(node, ast.Await) and call_name(node).endswith(".start"):
            rc = _recv_class(node)
            if rc == "rtcicetransport.RTCIceTransport":
                return ["ice-started"]
            if rc == "rtcdtlstransport.RTCDtlsTransport":
                return ["dtls-started"]
        if isinstance(node, ast.Assign) and any(unparse(t) in transport_vars for t in node.targets):
            return ["-ice-started", "-dtls-started"]
        return []

    def obs_conn(node, st, f):
        if not isinstance(node, ast.Await):
            return
        nm = call_name(node)
        if nm.endswith(".start") and _recv_class(node) == "rtcdtlstransport.RTCDtlsTransport":
            seen["dtls"] += 1
            dv = unparse(node.value.func.value)
            if "ice-started" not in st.events or not st.has_guard(f"{dv}.state == 'new'"):
                rep.fail(mk_finding(prog, PROP, "C03-STARTED", connect, node, "the DTLS handshake is started without `await iceTransport.start(...)` before it on every path, or not under "
                                    "`dtlsTransport.state == 'new'`", construct="__connect: DTLS start not after ICE start"))
            else:
                rep.ok("C03-STARTED", f"__connect line {node.lineno}: DTLS start after ICE start, only when new")
        elif nm.endswith("sender.send") or nm.endswith("receiver.receive") or nm.endswith("__sctp.start"):
            seen["media"] += 1
            if "ice-started" not in st.events or not any(st.has_guard(f"{dv_}.state == 'connected'") for dv_ in dtls_vars):
                rep.fail(mk_finding(prog, PROP, "C03-STARTED", connect, node, f"`{nm}` is not under `dtlsTransport.state == 'connected'` after the ICE start", construct=f"__connect: {nm.split('.')[-2]} start unguarded"))
            else:
                rep.ok("C03-STARTED", f"__connect line {node.lineno}: {nm} only once DTLS is connected")
    EventsDomain(prog, ev_conn, obs_conn, kill_guards_on_call=False).run(connect)
    if seen["dtls"] < 2 or seen["media"] < 3:
        raise AnalysisError(f"__connect: start sites not recognised {seen}")

    # ---------------------------------------------------------------- C03-OFFERDIR / C03-BUNDLE-EVAL: two statements of setRemoteDescription evaluated on object graphs
    # (a) the per-section statement that matches / creates the transceiver and records the offered direction, over successive negotiations;
    # (b) the BUNDLE statement that moves every bundled object onto the primary's transport, over creation orders and earlier bundling states
    rep.rule("C03-OFFERDIR", "every remote offer records the direction it offers for each matched transceiver (first offer, re-offer with another direction, offering side swapped)", min_instances=4)
    sec_if = None
    bundle_if = None
    for n in ast.walk(set_remote.node):
        if isinstance(n, ast.If) and sec_if is None and "media.kind" in unparse(n.test) and any(isinstance(x, ast.Attribute) and x.attr == "_offerDirection" for b in n.body for x in ast.walk(b)):
            sec_if = n
        if isinstance(n, ast.If) and bundle_if is None and unparse(n.test).startswith("bundle and bundle.items"):
            bundle_if = n
    if sec_if is None or bundle_if is None:
        raise AnalysisError("setRemoteDescription: the per-section statement assigning _offerDirection / the BUNDLE statement was not found")
    created: List[Any] = []
    stopped: List[Any] = []

    class HNS(SimpleNamespace):
        """namespace object usable as a dict key / set member (identity), like the real transceivers and transports"""
        __hash__ = object.__hash__

        def __eq__(self, other):
            return self is other

    def _sr_extra(call: ast.Call, ev: Evaluator) -> Any:
        nm = unparse(call.func)
        if nm == "self.__createTransceiver":
            kw = {k.arg: ev.ev(k.value) for k in call.keywords}
            t = _mk_transceiver(kw.get("kind"), None, f"created-{len(created)}")
            created.append(t)
            ev.env["self"].__dict__["__transceivers"].append(t)
            return t
        if nm in ("find_common_codecs", "filter_preferred_codecs"):
            return ["codec"]
        if nm == "find_common_header_extensions":
            return ["ext"]
        if nm in ("RemoteStreamTrack", "RTCTrackEvent"):
            return SimpleNamespace(**{k.arg: ev.ev(k.value) for k in call.keywords})
        if nm.endswith(".webrtc_track_id"):
            return "track-id"
        if isinstance(call.func, ast.Attribute):
            a = call.func.attr
            if a in ("_set_mid", "_set_mline_index", "_setCurrentDirection", "setTransport"):
                obj = ev.ev(call.func.value)
                v = ev.ev(call.args[0])
                if a == "_set_mid":
                    obj.mid = v
                elif a == "_set_mline_index":
                    obj.mline_index = v
                elif a == "_setCurrentDirection":
                    obj.currentDirection = v
                else:
                    obj.transport = v
                return None
            if a in ("_get_mline_index", "_get_mid") and not call.args:
                obj = ev.ev(call.func.value)
                return getattr(obj, "mline_index" if a == "_get_mline_index" else "mid", None)
            if a == "stop" and not call.args:
                stopped.append(ev.ev(call.func.value))
                return None
            if a in ("discard", "pop") and unparse(call.func.value) in ("self.__dtlsTransports", "self.__iceTransports", "iceCandidates"):
                return None
        if nm.startswith("self.__update"):
            return None
        return NotImplemented
    sr_hook = make_hook(prog, _sr_extra)

    def _mk_transceiver(kind, mid, name, transport=None, bundled=False):
        tr = transport if transport is not None else HNS(name=f"dtls-of-{name}", transport=HNS(name=f"ice-of-{name}"))
        return HNS(name=name, kind=kind, mid=mid, _offerDirection=None, currentDirection=None, _preferred_codecs=[], _codecs=[], _headerExtensions=[], _bundled=bundled,
                   receiver=HNS(track=None, transport=tr, _track=None), sender=HNS(transport=tr))

    def _run_section(me, typ, kind, mid, direction, index=0):
        media = SimpleNamespace(kind=kind, direction=direction, rtp=SimpleNamespace(muxId=mid, codecs=["c"], headerExtensions=["e"]), dtls=SimpleNamespace(role="auto"),
                                ice=SimpleNamespace(iceLite=False, usernameFragment="u", password="p"))
        env = {"self": me, "media": media, "i": index, "description": SimpleNamespace(type=typ, media=[media]), "trackEvents": [], "dtlsTransport": None}
        ev_sec = Evaluator(prog, set_remote.module, set_remote.cls, env, sr_hook)
        from .common import run_prelude
        run_prelude(ev_sec, set_remote.node, sec_if)
        ev_sec.exec_stmt(sec_if)

    def _pc(transceivers, sctp=None):
        me = SimpleNamespace(__cls__=set_remote.cls)
        for k, v in {"__transceivers": list(transceivers), "__sctp": sctp, "__dtlsTransports": set(), "__iceTransports": set(), "__seenMids": set(), "__remoteDtls": {}, "__remoteIce": {}}.items():
            setattr(me, k, v)
        return me
    offer_cases = []
    try:
        # fresh answerer: first offer, then a re-offer of the same side with another direction
        me = _pc([])
        _run_section(me, "offer", "audio", "0", "sendrecv")
        t0 = getattr(me, "__transceivers")[0]
        offer_cases.append(("first remote offer (sendrecv)", t0._offerDirection, "sendrecv"))
        _run_section(me, "offer", "audio", "0", "recvonly")
        offer_cases.append(("re-offer of the same side, now recvonly", t0._offerDirection, "sendonly"))
        _run_section(me, "offer", "audio", "0", "inactive")
        offer_cases.append(("re-offer of the same side, now inactive", t0._offerDirection, "inactive"))
        # the former offerer: its transceiver got its mid from its own local offer; now the other side offers
        mine = _mk_transceiver("video", "1", "own")
        me2 = _pc([mine])
        _run_section(me2, "answer", "video", "1", "sendrecv")
        offer_cases.append(("an answer leaves the offered direction alone", mine._offerDirection, None))
        offer_cases.append(("an answer sets the current direction", mine.currentDirection, "sendrecv"))
        _run_section(me2, "offer", "video", "1", "sendonly")
        offer_cases.append(("offering side swapped: remote offer for a transceiver that already has its mid", mine._offerDirection, "recvonly"))
        # a transceiver that got a tentative m-line index from a createOffer() that was never applied, then matched to a remote section elsewhere
        tent = _mk_transceiver("audio", None, "tentative")
        tent.mline_index = 1
        me3 = _pc([_mk_transceiver("video", None, "video-first"), tent])
        getattr(me3, "__transceivers")[0].mline_index = 0
        _run_section(me3, "offer", "audio", "a0", "sendrecv", index=0)
        offer_cases.append(("a tentative m-line index is replaced by the index of the remote section the transceiver is matched to", (tent.mid, tent.mline_index), ("a0", 0)))
    except Raised as ex:
        rep.fail(mk_finding(prog, PROP, "C03-OFFERDIR", set_remote, getattr(ex, "node", None), f"the per-section statement raises {ex.name}", construct=f"section raises {ex.name}"))
    except Unknown as ex:
        raise AnalysisError(f"C03-OFFERDIR cannot evaluate the per-section statement of setRemoteDescription: {ex}")
    for label, got, want in offer_cases:
        if got == want:
            rep.ok("C03-OFFERDIR", label, sample=f"{got!r}")
        else:
            rep.fail(mk_finding(prog, PROP, "C03-OFFERDIR", set_remote, sec_if, f"{label}: recorded {got!r}, expected {want!r}: createAnswer() intersects the transceiver's direction with a stale / missing offered "
                                "direction (ValueError for None, or an answer that does not mirror the offer)", construct="offered direction not recorded for this offer"))

    rep.rule("C03-BUNDLE-EVAL", "the BUNDLE statement moves every bundled object onto the primary's transport and stops exactly the transports nobody uses any more", min_instances=5)

    def _bundle_case(label, build):
        del stopped[:]
        trs, sctp, items, primary_name = build()
        me = _pc(trs, sctp)
        members = [t for t in trs if t.mid in items] + ([sctp] if sctp is not None and sctp.mid in items else [])
        def transport_of(o):
            return o.receiver.transport if hasattr(o, "receiver") else o.transport
        primary = next(o for o in members if o.name == primary_name)
        p_tr = transport_of(primary)
        before = {id(transport_of(o)): transport_of(o) for o in members}
        env = {"self": me, "bundle": SimpleNamespace(semantic="BUNDLE", items=list(items)), "iceCandidates": {}, "description": SimpleNamespace(group=[])}
        try:
            ev_b = Evaluator(prog, set_remote.module, set_remote.cls, env, sr_hook)
            from .common import run_prelude
            run_prelude(ev_b, set_remote.node, bundle_if)
            ev_b.exec_stmt(bundle_if)
        except Raised as ex:
            rep.fail(mk_finding(prog, PROP, "C03-BUNDLE-EVAL", set_remote, getattr(ex, "node", None), f"[{label}] raises {ex.name}", construct=f"bundle raises {ex.name}"))
            return
        except Unknown as ex:
            raise AnalysisError(f"C03-BUNDLE-EVAL cannot evaluate the BUNDLE statement [{label}]: {ex}")
        problems = []
        for o in members:
            if transport_of(o) is not p_tr or (hasattr(o, "sender") and o.sender.transport is not p_tr):
                problems.append(f"{o.name} runs over {getattr(transport_of(o), 'name', None)}, the primary ({primary.name}) uses {p_tr.name}")
        want_stopped = {i for i in before if before[i] is not p_tr}
        got_stopped = {id(x) for x in stopped if hasattr(x, "transport") and not hasattr(x, "receiver")}
        if any(x is p_tr or x is p_tr.transport for x in stopped):
            problems.append("the primary transport (or its ICE transport) is stopped")
        missing = [before[i].name for i in want_stopped - got_stopped]
        if missing:
            problems.append(f"transports {missing} are no longer used but were not stopped")
        if problems:
            rep.fail(mk_finding(prog, PROP, "C03-BUNDLE-EVAL", set_remote, bundle_if, f"[{label}] " + "; ".join(problems[:3]), construct="bundle: " + problems[0][:60]))
        else:
            rep.ok("C03-BUNDLE-EVAL", label, sample=f"{len(members)} objects on {p_tr.name}; {len(want_stopped)} transport(s) stopped")

    def _sctp(mid, name="sctp", transport=None, bundled=False):
        return HNS(name=name, mid=mid, _bundled=bundled, transport=transport if transport is not None else HNS(name="dtls-of-sctp", transport=HNS(name="ice-of-sctp")))
    _bundle_case("audio, video, data created in m-line order", lambda: ([_mk_transceiver("audio", "0", "audio"), _mk_transceiver("video", "1", "video")], _sctp("2"), ["0", "1", "2"], "audio"))
    _bundle_case("answerer created video before audio (primary is the second transceiver)",
                 lambda: ([_mk_transceiver("video", "1", "video"), _mk_transceiver("audio", "0", "audio")], _sctp("2"), ["0", "1", "2"], "audio"))
    _bundle_case("answerer pre-created only video; audio was created while applying the offer",
                 lambda: ([_mk_transceiver("video", "1", "video"), _mk_transceiver("audio", "0", "audio")], None, ["0", "1"], "audio"))
    _bundle_case("data channel section is the primary", lambda: ([_mk_transceiver("audio", "1", "audio")], _sctp("0"), ["0", "1"], "sctp"))

    def _already():
        shared = HNS(name="dtls-shared", transport=HNS(name="ice-shared"))
        return ([_mk_transceiver("audio", "0", "audio", shared), _mk_transceiver("video", "1", "video", shared, True)], _sctp("2", transport=shared, bundled=True), ["0", "1", "2"], "audio")
    _bundle_case("second negotiation: everything already bundled", _already)

    def _dc_first():
        shared = HNS(name="dtls-shared", transport=HNS(name="ice-shared"))
        return ([_mk_transceiver("audio", "1", "audio", shared, True)], _sctp("0", transport=shared), ["1", "0"], "audio")
    _bundle_case("max-bundle, data channel created first: the primary shares its transport with the SCTP transport", _dc_first)

    # ---------------------------------------------------------------- C03-SIM: whole exchanges through the negotiation simulator
    from .pcnego import c03_sim
    c03_sim(rep, prog, tier)
