"""SCTP association set-up closed over both endpoints under scripted faults (rule <PROP>-SETUP).

The client's real `_init`, `_t1_expired` and both sides' real `_receive_chunk` (INIT / INIT-ACK / COOKIE-ECHO / COOKIE-ACK branches), `_set_state`, `_get_extensions`,
`_set_extensions` and the chunk classes are interpreted at the AST level.  Stubs: `_send_chunk` puts the chunk on a scripted network, `_t1_start` / `_t1_cancel`
keep the T1 chunk and a flag (the timer fires when the network is idle and the flag is set), `_get_timestamp` is a constant, `hmac` is the standard library's.

Schedules: each of the four handshake datagrams lost once (T1 retransmits), or duplicated with the copy held back until the association is up.  Oracle: both ends
reach ESTABLISHED; a late copy of a handshake datagram changes neither the association state nor what each side knows about the peer (cumulative TSN, verification
tag, RE-CONFIG sequence number): a rewound cumulative TSN makes old data count as new and all later SACKs stale.

Decides the enumerated schedules only.
"""
from __future__ import annotations

import ast
import hmac as _hmac
from collections import deque
from types import SimpleNamespace
from typing import Any, Dict, List, Tuple

from engine.index import AnalysisError, Program, Unknown, unparse
from engine.peval import Evaluator, Raised
from engine.report import Report, mk_finding

from .objhook import make_hook

T = "rtcsctptransport.RTCSctpTransport"
_CACHE: Dict[int, List[Tuple[str, Any, Any]]] = {}


class World:
    def __init__(self, prog: Program) -> None:
        self.prog = prog
        self.queues = {"client": deque(), "server": deque()}   # datagrams travelling TO that side
        self.count = 0
        self.faults: Dict[int, str] = {}
        self.held: List[Tuple[str, Any]] = []
        ci = prog.cls(T)
        self.hook = make_hook(prog, self.extra)
        self.ev = Evaluator(prog, prog.modules["rtcsctptransport"], None, {}, self.hook)
        st = SimpleNamespace(**{n: n for n in ("CLOSED", "COOKIE_WAIT", "COOKIE_ECHOED", "ESTABLISHED", "SHUTDOWN_PENDING", "SHUTDOWN_SENT", "SHUTDOWN_RECEIVED", "SHUTDOWN_ACK_SENT")})

        def side(name: str, is_server: bool, tag: int, tsn: int) -> Any:
            o = SimpleNamespace(__cls__=ci, name=name, is_server=is_server, State=st, _association_state="CLOSED", _local_verification_tag=tag, _remote_verification_tag=0,
                                _advertised_rwnd=1 << 20, _outbound_streams_count=65535, _inbound_streams_max=65535, _inbound_streams_count=0, _local_tsn=tsn,
                                _last_received_tsn=None, _reconfig_response_seq=0, _ssthresh=None, _hmac_key=b"k" * 16, _remote_extensions=[], _remote_partial_reliability=False,
                                _local_extensions=[192, 130], _local_partial_reliability=True, _t1_handle=None, _t1_chunk=None, _t1_failures=0, _t2_handle=None, _t3_handle=None,
                                _data_channels={}, _data_channel_queue=deque(), _rto=3.0, _loop=SimpleNamespace(), events=[], transitions=[])
            setattr(o, "__state", "new")
            return o
        self.client = side("client", False, 111, 1000)
        self.server = side("server", True, 222, 5000)

    def extra(self, call: ast.Call, ev: Evaluator) -> Any:
        name = unparse(call.func)
        me = ev.env.get("self")
        if name == "self._send_chunk":
            self.emit(me, ev.ev(call.args[0]))
            return None
        if name == "self._t1_start":
            me._t1_chunk = ev.ev(call.args[0])
            me._t1_failures = 0
            me._t1_handle = "timer"
            return None
        if name in ("self._t1_cancel", "self._t2_cancel", "self._t3_cancel"):
            if name == "self._t1_cancel":
                me._t1_handle = None
                me._t1_chunk = None
            return None
        if name == "self._loop.call_later":
            return "timer"
        if name == "self._get_timestamp":
            return 1000
        if name.startswith("hmac.new(") and name.endswith(".digest"):
            inner = call.func.value
            a = [ev.ev(x) for x in inner.args]
            return _hmac.new(a[0], a[1], a[2]).digest()
        if name in ("self.__log_debug", "self.emit", "self.remove_all_listeners", "chunk_type"):
            return None
        if name == "asyncio.ensure_future":
            for a in call.args:
                ev.ev(a)
            return None
        if name == "self._data_channel_flush":
            return None
        if name == "isinstance" and len(call.args) == 2:
            v = ev.ev(call.args[0])
            names = [unparse(x).split(".")[-1] for x in (call.args[1].elts if isinstance(call.args[1], ast.Tuple) else [call.args[1]])]
            if isinstance(v, SimpleNamespace) and hasattr(v, "__cls__"):
                return any(c.name in names for c in self.prog.mro(v.__cls__))
            py = {"int": int, "bytes": bytes, "str": str}
            return any(n in py and isinstance(v, py[n]) for n in names)
        return NotImplemented

    def emit(self, sender: Any, chunk: Any) -> None:
        dest = "server" if sender is self.client else "client"
        n = self.count
        self.count += 1
        f = self.faults.get(n)
        if f == "drop":
            return
        self.queues[dest].append(chunk)
        if f == "dup-late":
            self.held.append((dest, chunk))

    def deliver(self, dest: str, chunk: Any) -> None:
        me = self.client if dest == "client" else self.server
        before = me._association_state
        self.hook.run_method(self.prog.func(T + "._receive_chunk"), me, [chunk], {})
        if me._association_state != before:
            me.transitions.append((before, me._association_state))

    def run(self) -> None:
        steps = 0
        fired = 0
        while True:
            steps += 1
            if steps > 200:
                raise Raised("NonTermination (handshake datagrams keep flowing)", None)
            moved = False
            for dest in ("server", "client"):
                if self.queues[dest]:
                    self.deliver(dest, self.queues[dest].popleft())
                    moved = True
                    break
            if moved:
                continue
            t1 = [s for s in (self.client, self.server) if s._t1_handle is not None]
            if t1 and fired < 6:
                fired += 1
                self.hook.run_method(self.prog.func(T + "._t1_expired"), t1[0], [], {})
                continue
            return


def setup_rule(rep: Report, prog: Program, PROP: str, RULE: str) -> None:
    rep.rule(RULE, "association set-up under loss / late duplication of each handshake datagram: both ends reach ESTABLISHED and a late copy changes nothing", min_instances=8)
    anchor = prog.func(T + "._receive_chunk")
    key = id(prog)
    if key not in _CACHE:
        items: List[Tuple[str, Any, Any]] = []
        names = ["INIT", "INIT-ACK", "COOKIE-ECHO", "COOKIE-ACK"]
        schedules = [("no fault", {})]
        for i, n in enumerate(names):
            schedules.append((f"{n} lost once", {i: "drop"}))
            schedules.append((f"{n} duplicated, the copy arrives once the association is up", {i: "dup-late"}))
        schedules.append(("INIT and the retransmitted INIT lost", {0: "drop", 1: "drop"}))
        for label, faults in schedules:
            w = World(prog)
            w.faults = dict(faults)
            try:
                w.hook.run_method(prog.func(T + "._init"), w.client, [], {})
                w.client.transitions.append(("CLOSED", w.client._association_state))
                w.run()
                problems = []
                if w.client._association_state != "ESTABLISHED" or w.server._association_state != "ESTABLISHED":
                    problems.append(f"after the handshake the client is {w.client._association_state} and the server {w.server._association_state}")
                else:
                    snap = {s.name: (s._association_state, s._last_received_tsn, s._remote_verification_tag, s._reconfig_response_seq, len(s.transitions)) for s in (w.client, w.server)}
                    # each side has received some data since: its cumulative TSN moved on
                    w.client._last_received_tsn = (w.client._last_received_tsn + 7) % (1 << 32)
                    w.server._last_received_tsn = (w.server._last_received_tsn + 9) % (1 << 32)
                    moved = {"client": w.client._last_received_tsn, "server": w.server._last_received_tsn}
                    for dest, chunk in w.held:
                        w.deliver(dest, chunk)
                    w.run()
                    for s in (w.client, w.server):
                        now = (s._association_state, moved[s.name] if s._last_received_tsn == moved[s.name] else s._last_received_tsn, s._remote_verification_tag, s._reconfig_response_seq, len(s.transitions))
                        want = (snap[s.name][0], moved[s.name], snap[s.name][2], snap[s.name][3], snap[s.name][4])
                        if now != want:
                            fields = ("association state", "cumulative TSN received", "peer verification tag", "RE-CONFIG response sequence", "number of state transitions")
                            diffs = [f"{f}: {a!r} -> {b!r}" for f, a, b in zip(fields, want, now) if a != b]
                            problems.append(f"a late copy of a handshake datagram changed the {s.name}: " + "; ".join(diffs))
                    # the side that answers a duplicated request must not have been pushed into a second handshake
                    if any(s._t1_handle is not None for s in (w.client, w.server)):
                        problems.append("a T1 timer is running after the late copy was processed: a second handshake was started")
                if problems:
                    items.append(("fail", (None, f"[{label}] " + "; ".join(problems[:2])), "setup: " + problems[0][:70]))
                else:
                    items.append(("ok", label, f"{w.count} handshake datagrams; transitions {w.client.transitions} / {w.server.transitions}"))
            except Raised as ex:
                items.append(("fail", (getattr(ex, "node", None), f"[{label}] raises {ex.name}"), f"setup raises {ex.name}"[:70]))
            except Unknown as ex:
                raise AnalysisError(f"{RULE} cannot evaluate [{label}]: {ex}")
        _CACHE[key] = items
    for kind, a, b in _CACHE[key]:
        if kind == "ok":
            rep.ok(RULE, a, sample=b)
        else:
            rep.fail(mk_finding(prog, PROP, RULE, anchor, a[0], a[1], construct=b))
