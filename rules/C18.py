"""C18 — RTCP receiver reports carry correct figures that fit the wire.

  C18-FLOW     highest_sequence depends on both cycles and max_seq; packets_lost goes through clamp_packets_lost;
               packets_received is incremented unconditionally once per add()
  C18-CYCLES   the cycle counter is only advanced for in-order packets (guarded by the serial comparison)
  C18-MOD      serial discipline (C17 rule set) in rtcrtpreceiver.py: timestamp differences reduced modulo 2^32
  C18-FRACTION fraction_lost, evaluated over a grid of (expected, received) interval values, equals RFC 3550 A.3
               and stays within 0..255 whenever at least one packet was received in the interval
  C18-WIDTH    interval analysis: every RtcpReceiverInfo field built in _run_rtcp / stored for it fits its format
               (packets_lost 24-bit signed by clamp, highest_sequence / jitter / lsr 32-bit by mask or saturation,
               dlsr >= 0)
  C18-LSR      sender and receiver take the same middle 32 bits of the NTP timestamp
  C18-REF      StreamStatistics.add on packet sequences (steady, jittered, losses, duplicates / late copies, several packets per
               timestamp; small origins and across both wraps) equals an independent RFC 3550 A.3 / A.8 reference
  C18-DLSR     the delay-since-last-SR statement evaluated on a grid of delays (negative, 0, < 65536 s, >= 65536 s): 0 or the delay in
               1/65536 s, always within 32 bits
Does not decide: numeric equality with the RFC formulas over histories.
"""
from __future__ import annotations

import ast
import itertools
from typing import Any, Dict, List, Optional

from engine.absint import Absint
from engine.events import EventsDomain, EvState
from engine.index import AnalysisError, Program, Unknown, unparse, walk_no_nested
from engine.peval import Evaluator, Raised, Ret
from engine.report import Report, mk_finding

from .common import receive_config

def re_sub_digits(t: str) -> str:
    import re
    return re.sub(r"\d+", "N", t)


PROP = "C18"
SS = "rtcrtpreceiver.StreamStatistics"
U32 = (1 << 32) - 1


def run(rep: Report, prog: Program, tier: str) -> None:
    rep.explanation = (
        "Dependency, guard and interval rules on StreamStatistics and the receiver's RTCP task: data dependence of the report "
        "fields, dominance of the cycle update by the in-order test, the serial discipline of C17 for timestamps, a finite "
        "evaluation of fraction_lost against RFC 3550 A.3 over a grid of interval values, and abstract-interpretation intervals "
        "showing each packed field fits its struct format."
    )
    run_rtcp = prog.func("rtcrtpreceiver.RTCRtpReceiver._run_rtcp")
    # the report blocks may be built by a helper of the receiver class: follow the construction, whatever the method is called
    _builders = [fi for fi in run_rtcp.cls.methods.values() if any(isinstance(n, ast.Call) and unparse(n.func) == "RtcpReceiverInfo" for n in walk_no_nested(fi.node))]
    if len(_builders) == 1:
        run_rtcp = _builders[0]
    add = prog.func(SS + ".add")
    mod = prog.module("rtcrtpreceiver")

    # ---- C18-FLOW
    rep.rule("C18-FLOW", "report fields depend on the right statistics", min_instances=3)
    ctor = next((n for n in walk_no_nested(run_rtcp.node) if isinstance(n, ast.Call) and unparse(n.func) == "RtcpReceiverInfo"), None)
    if ctor is None:
        raise AnalysisError("RtcpReceiverInfo(...) not found in _run_rtcp")
    kw = {k.arg: k.value for k in ctor.keywords}
    hs = unparse(kw.get("highest_sequence", ast.Constant(None)))
    if ".cycles" in hs and ".max_seq" in hs:
        rep.ok("C18-FLOW", f"highest_sequence = {hs}", sample="mentions cycles and max_seq")
    else:
        rep.fail(mk_finding(prog, PROP, "C18-FLOW", run_rtcp, kw.get("highest_sequence", ctor),
                            f"highest_sequence is `{hs}`: the extended highest sequence number must include the wrap cycles", construct="highest_sequence " + hs))
    pl = prog.func(SS + ".packets_lost")
    if "clamp_packets_lost(" in unparse(pl.node) and ".packets_expected" in unparse(pl.node) and ".packets_received" in unparse(pl.node):
        rep.ok("C18-FLOW", "packets_lost = clamp(expected - received)", sample=unparse(pl.node.body[-1]))
    else:
        rep.fail(mk_finding(prog, PROP, "C18-FLOW", pl, pl.node, "packets_lost does not pass expected - received through clamp_packets_lost", construct="packets_lost"))
    incs = [s for s in add.node.body if isinstance(s, ast.AugAssign) and unparse(s.target) == "self.packets_received"]
    all_incs = [s for s in walk_no_nested(add.node) if isinstance(s, ast.AugAssign) and unparse(s.target) == "self.packets_received"]
    if len(incs) == 1 and len(all_incs) == 1 and unparse(incs[0]) == "self.packets_received += 1":
        rep.ok("C18-FLOW", "add(): packets_received += 1 unconditionally", sample="single top-level statement")
    else:
        rep.fail(mk_finding(prog, PROP, "C18-FLOW", add, add.node, "packets_received is not incremented exactly once, unconditionally, per add()", construct="packets_received increment"))

    # ---- C18-CYCLES
    rep.rule("C18-CYCLES", "cycle counter advanced only for in-order packets", min_instances=1)
    in_order_defs = [s for s in walk_no_nested(add.node) if isinstance(s, ast.Assign) and unparse(s.targets[0]) == "in_order"]
    io_ok = len(in_order_defs) == 1 and "uint16_gt(packet.sequence_number, self.max_seq)" in unparse(in_order_defs[0].value)
    seen = []

    def observe(node, st: EvState, f):
        if isinstance(node, ast.AugAssign) and unparse(node.target) == "self.cycles":
            seen.append((node, st.has_guard("in_order", True)))

    EventsDomain(prog, lambda n, f: [], observe).run(add)
    # the counter accumulates: a plain assignment (other than `self.cycles = self.cycles + ...`) loses the earlier wraps
    for n_ in walk_no_nested(add.node):
        if isinstance(n_, ast.Assign) and any(unparse(t) == "self.cycles" for t in n_.targets):
            if "self.cycles" in unparse(n_.value):
                seen.append((n_, False))
            else:
                rep.fail(mk_finding(prog, PROP, "C18-CYCLES", add, n_, f"`{unparse(n_)}` assigns the wrap-cycle counter instead of adding to it: from the second sequence-number wrap on the extended highest "
                                    "sequence number jumps back by 65536 and the cumulative loss goes hugely negative", construct="cycle counter assigned, not accumulated"))
                seen.append((n_, True))
    if not seen:
        raise AnalysisError("self.cycles update not found in StreamStatistics.add")
    for node, guarded in seen:
        if guarded and io_ok:
            rep.ok("C18-CYCLES", f"add(): {unparse(node)}", sample="dominated by `if in_order:` where in_order comes from uint16_gt(seq, max_seq)")
        else:
            rep.fail(mk_finding(prog, PROP, "C18-CYCLES", add, node,
                                "the wrap-cycle counter is advanced on a path where the packet was not established to be newer than max_seq "
                                "(serial comparison): a late or duplicated packet then counts a bogus cycle"))

    # ---- C18-MOD via C17 on the receiver module
    from . import C17
    sub = Report("C17", tier, 0)
    saved = C17.MODULES
    try:
        C17.MODULES = ["rtcrtpreceiver"]
        try:
            C17.run(sub, prog, tier)
        except AnalysisError:
            pass
    finally:
        C17.MODULES = saved
    rep.rule("C18-MOD", "serial discipline in rtcrtpreceiver.py", min_instances=5)
    n_ok = sum(r["discharged"] for k, r in sub.rules.items() if k != "C17-HELPERS")
    for f in sub.findings:
        f.property = PROP
        f.rule = "C18-MOD/" + f.rule
        rep.fail(f)
    rep.rules["C18-MOD"]["instances"] += n_ok
    rep.rules["C18-MOD"]["discharged"] += n_ok
    rep.obligations += n_ok
    rep.discharged += n_ok
    rep.samples.extend(sub.samples[:2])

    # ---- C18-FRACTION: black box - a StreamStatistics object is built by its own __init__, fed through add(), and fraction_lost is read once per report interval
    rep.rule("C18-FRACTION", "fraction_lost against RFC 3550 A.3 over a grid of (expected, received) per interval, and past the saturation of the cumulative loss", min_instances=40)
    fl = prog.func(SS + ".fraction_lost")
    from types import SimpleNamespace as _NSF

    from .objhook import make_hook as _mkf
    _clk = [1000.0]

    def _exf(call, ev):
        if unparse(call.func) == "time.time":
            return _clk[0]
        return NotImplemented
    ohf = _mkf(prog, _exf)
    evf = Evaluator(prog, mod, None, {}, ohf)
    s_add = prog.func(SS + ".add")

    def _feed(ss, seq):
        _clk[0] += 0.02
        ohf.run_method(s_add, ss, [_NSF(sequence_number=seq % 65536, timestamp=(seq * 160) % (1 << 32))], {})

    def _fraction(ss):
        return ohf.getattr(ss, "fraction_lost") if fl.kind == "property" else ohf.run_method(fl, ss, [], {})
    try:
        for e in range(0, 8):
            for r in range(0, 10):
                cell = f"expected_interval={e}, received_interval={r}"
                ss = ohf.instantiate(prog.cls(SS), [], dict(clockrate=8000), evf)
                seq = 65530            # the first interval crosses a sequence wrap: 12 expected, 9 received
                for k in range(12):
                    if k not in (3, 4, 8):
                        _feed(ss, seq + k)
                first = _fraction(ss)
                top = seq + 11
                # second interval: e new sequence numbers of which min(e, r) arrive (the newest always does when r >= 1), plus r - e duplicates of old packets
                if e and r:
                    keep = list(range(1, r)) + [e] if r < e else list(range(1, e + 1))
                    for k in keep:
                        _feed(ss, top + k)
                    for k in range(max(0, r - e)):
                        _feed(ss, top + 1)
                    got_r = len(keep) + max(0, r - e)
                elif r:                 # nothing new expected: only duplicates arrive
                    for k in range(r):
                        _feed(ss, top)
                    got_r = r
                else:
                    got_r = 0           # (e > 0, r == 0 cannot be produced: expected only moves when a packet arrives)
                    if e:
                        rep.ok("C18-FRACTION", f"fraction_lost {cell}", sample="not producible")
                        continue
                got = _fraction(ss)
                lost = e - got_r
                want = 0 if e == 0 or lost <= 0 else (lost << 8) // e
                want_first = (3 << 8) // 12
                # third interval: 4 expected, 2 received - whatever the second interval looked like, its packets are not counted again
                top3 = top + (e if r else 0)
                _feed(ss, top3 + 2)
                _feed(ss, top3 + 4)
                third = _fraction(ss)
                if third != 128 and got == want and first == want_first:
                    rep.fail(mk_finding(prog, PROP, "C18-FRACTION", fl, fl.node, f"after an interval with {cell} the next interval (4 expected, 2 received) reports fraction_lost {third}, RFC 3550 A.3 gives 128: "
                                        "the counters of the previous report were not carried forward", construct=f"fraction_lost interval after {cell}"))
                    continue
                if first != want_first:
                    rep.fail(mk_finding(prog, PROP, "C18-FRACTION", fl, fl.node, f"first interval across a sequence wrap (12 expected, 9 received): fraction_lost gives {first}, RFC 3550 A.3 gives {want_first}",
                                        construct="fraction_lost first interval"))
                elif got != want or not (0 <= got <= 255):
                    rep.fail(mk_finding(prog, PROP, "C18-FRACTION", fl, fl.node, f"{cell}: fraction_lost gives {got}, RFC 3550 A.3 gives {want}", construct=f"fraction_lost {cell}"))
                else:
                    rep.ok("C18-FRACTION", f"fraction_lost {cell}", sample=f"= {got}")
        # cumulative loss beyond the 24-bit field: the per-interval fraction still follows A.3 (the interval counts are not saturated)
        ss = ohf.instantiate(prog.cls(SS), [], dict(clockrate=8000), evf)
        stride, per = 0x4000, 32
        wrong = None
        n_reports = 0
        for k in range(per * 20):
            _feed(ss, 5 + k * stride)
            if k % per == per - 1:
                got = _fraction(ss)
                n_reports += 1
                e_int = per * stride if n_reports > 1 else (per - 1) * stride + 1
                want = ((e_int - per) << 8) // e_int
                if got != want and wrong is None:
                    wrong = (n_reports, got, want, ohf.getattr(ss, "packets_lost"))
        if wrong:
            rep.fail(mk_finding(prog, PROP, "C18-FRACTION", fl, fl.node, f"one packet in {stride} arrives, a report every {per} packets: report #{wrong[0]} (cumulative loss field {wrong[3]}) has fraction_lost {wrong[1]}, RFC 3550 A.3 gives {wrong[2]}",
                                construct="fraction_lost after the cumulative loss saturates"))
        else:
            rep.ok("C18-FRACTION", "fraction_lost while the cumulative loss passes 2^23", sample=f"{n_reports} reports, final cumulative loss field {ohf.getattr(ss, 'packets_lost')}")
    except Unknown as u:
        raise AnalysisError(f"cannot evaluate fraction_lost: {u}")
    except Raised as ex_:
        rep.fail(mk_finding(prog, PROP, "C18-FRACTION", fl, getattr(ex_, "node", None), f"feeding the statistics / reading fraction_lost raises {ex_.name}", construct=f"fraction_lost raises {ex_.name}"))

    # ---- C18-WIDTH
    rep.rule("C18-WIDTH", "packed report fields fit their formats", min_instances=4)
    cfg = receive_config(prog)
    ai = Absint(prog, cfg)
    captured: Dict[str, Any] = {}

    def ctor_ob(node, ci, fields, a):
        if ci.qualname == "rtp.RtcpReceiverInfo" and a.fi.qualname == run_rtcp.qualname:
            st = None
            for k, v in fields.items():
                captured[k] = v

    ai.ctor_observers = [ctor_ob]
    ai.analyze_root(run_rtcp)
    if not captured:
        raise AnalysisError("RtcpReceiverInfo construction not observed in _run_rtcp")

    def need(field: str, lo: Optional[int], hi: Optional[int], why: str) -> None:
        v = captured.get(field)
        vlo, vhi = (v.lo, v.hi) if v is not None else (None, None)
        if v is not None and v.const is not None and isinstance(getattr(v, "const", None), int):
            vlo = vhi = v.const
        ok = (lo is None or (vlo is not None and vlo >= lo)) and (hi is None or (vhi is not None and vhi <= hi))
        what = f"_run_rtcp: RtcpReceiverInfo.{field} in [{vlo},{vhi}]"
        if ok:
            rep.ok("C18-WIDTH", what, sample=f"required [{lo},{hi}]: {why}")
        else:
            rep.fail(mk_finding(prog, PROP, "C18-WIDTH", run_rtcp, kw.get(field, ctor),
                                f"`{field}` is only known to lie in [{vlo},{vhi}] but its RTCP field requires [{lo},{hi}] ({why}); building the "
                                f"report can raise struct.error", construct=f"width {field}"))

    need("packets_lost", -(1 << 23), (1 << 23) - 1, "24-bit signed, by clamp_packets_lost")
    need("highest_sequence", 0, U32, "32-bit, masked")
    need("jitter", None, U32, "32-bit, saturated")
    # dlsr: both bounds are decided by rule C18-DLSR (evaluation of the computing statement on a grid of delays)
    # lsr values are stored into self.__lsr by _handle_rtcp_packet: check the stored expression
    hrp = prog.func("rtcrtpreceiver.RTCRtpReceiver._handle_rtcp_packet")
    st_lsr = [n for n in walk_no_nested(hrp.node) if isinstance(n, ast.Assign) and unparse(n.targets[0]).startswith("self.__lsr[")]
    if not st_lsr:
        raise AnalysisError("store into self.__lsr not found")
    for n in st_lsr:
        v = n.value
        ok = isinstance(v, ast.BinOp) and isinstance(v.op, ast.BitAnd) and prog.try_const(v.right, mod) == U32
        if ok:
            rep.ok("C18-WIDTH", f"_handle_rtcp_packet: {unparse(n)[:70]}", sample="masked to 32 bits at the store")
        else:
            rep.fail(mk_finding(prog, PROP, "C18-WIDTH", hrp, n, "the stored LSR value is not masked to 32 bits"))

    # ---- C18-LSR
    rep.rule("C18-LSR", "middle 32 bits of the NTP timestamp on both sides", min_instances=2)
    snd = prog.func("rtcrtpsender.RTCRtpSender._run_rtcp")
    s_lsr = [n.value for n in walk_no_nested(snd.node) if isinstance(n, ast.Assign) and unparse(n.targets[0]) == "self.__lsr"]

    def shape(e: ast.AST, m) -> Optional[tuple]:
        if isinstance(e, ast.BinOp) and isinstance(e.op, ast.BitAnd) and isinstance(e.left, ast.BinOp) and isinstance(e.left.op, ast.RShift):
            return (prog.try_const(e.left.right, m), prog.try_const(e.right, m))
        return None

    shapes = [shape(v, snd.module) for v in s_lsr] + [shape(n.value, hrp.module) for n in st_lsr]
    if shapes and all(s_ == (16, U32) for s_ in shapes) and len(shapes) >= 2:
        rep.ok("C18-LSR", "sender and receiver: (ntp >> 16) & 0xFFFFFFFF", sample=str(shapes))
        rep.ok("C18-LSR", "same shift and mask constants on both sides", sample="16 / 0xFFFFFFFF")
    else:
        rep.fail(mk_finding(prog, PROP, "C18-LSR", snd, snd.node, f"LSR extraction differs between sender and receiver: {shapes}", construct="lsr shape"))

    # ---- C18-DLSR: the delay-since-last-SR computation, evaluated on a grid of delays
    rep.rule("C18-DLSR", "DLSR is 0 or the delay in 1/65536 s and always fits 32 bits", min_instances=10)
    # the statement `V = int(D * 65536)` (whatever V and D are called, in _run_rtcp or a helper of the receiver class)
    dl_fn = None
    assigns = []
    for fi_ in prog.cls("rtcrtpreceiver.RTCRtpReceiver").methods.values():
        for n in walk_no_nested(fi_.node):
            if isinstance(n, ast.Assign) and isinstance(n.targets[0], ast.Name) and isinstance(n.value, ast.Call) and unparse(n.value.func) == "int" and n.value.args \
                    and isinstance(n.value.args[0], ast.BinOp) and isinstance(n.value.args[0].op, ast.Mult) \
                    and 65536 in (prog.try_const(n.value.args[0].left, fi_.module), prog.try_const(n.value.args[0].right, fi_.module)):
                assigns.append(n)
                dl_fn = fi_
    if len(assigns) != 1:
        raise AnalysisError("computation of the delay since the last sender report (int(delay * 65536)) not found in RTCRtpReceiver")
    mul = assigns[0].value.args[0]
    dvar = next(unparse(x) for x in (mul.left, mul.right) if prog.try_const(x, dl_fn.module) != 65536)
    vvar = assigns[0].targets[0].id
    parents = {}
    for p in ast.walk(dl_fn.node):
        for ch in ast.iter_child_nodes(p):
            parents[id(ch)] = p
    stmt = assigns[0]
    while isinstance(parents.get(id(stmt)), ast.If) and any(unparse(x) == dvar for x in ast.walk(parents[id(stmt)].test)):
        stmt = parents[id(stmt)]
    from engine.peval import Evaluator as _Ev
    for delay in (-1e9, -1.0, 0.0, 1e-9, 0.5, 1.0, 2.75, 65535.0, 65535.99998, 65536.0, 65536.5, 70000.0, 2.0e5, 1.0e12):
        e5 = _Ev(prog, dl_fn.module, dl_fn.cls, {dvar: delay, vvar: 0})
        try:
            e5.exec_stmt(stmt)
        except Exception as ex:
            raise AnalysisError(f"cannot evaluate the dlsr computation: {ex}")
        got = e5.env[vvar]
        in_range = isinstance(got, int) and 0 <= got <= U32
        exact = got == int(delay * 65536) if 0 < delay < 65536 else True
        if in_range and exact:
            rep.ok("C18-DLSR", f"delay {delay!r} s", sample=f"dlsr {got}")
        else:
            rep.fail(mk_finding(prog, PROP, "C18-DLSR", dl_fn, stmt,
                                f"a last sender report {delay!r} s old gives dlsr = {got!r}" + ("" if in_range else ", which does not fit the 32-bit field: building the receiver report "
                                "raises struct.error and the RTCP task dies") + ("" if exact else f"; expected {int(delay * 65536)}"), construct="dlsr range"))

    # ---- C18-REF: StreamStatistics evaluated on packet sequences against an independent RFC 3550 reference (A.3 / A.8)
    rep.rule("C18-REF", "receiver statistics equal the RFC 3550 reference on enumerated packet sequences", min_instances=10)
    from types import SimpleNamespace as _NS2

    from engine.peval import Evaluator as _Ev2, Raised as _R2
    from engine.index import Unknown as _U2
    from .objhook import make_hook as _mk
    SSC = prog.cls("rtcrtpreceiver.StreamStatistics")
    sadd = prog.func("rtcrtpreceiver.StreamStatistics.add")
    CLOCK = 8000

    def reference(arrivals):
        """RFC 3550: extended highest sequence, expected, cumulative lost, per-interval fraction (A.3), jitter (A.8) for in-order
        packets with a new timestamp (the sequences used here deliver out-of-order packets only as duplicates / late copies)."""
        base = arrivals[0][0]
        ext_max = base
        received = 0
        jitter = 0
        last = None
        out = []
        for seq, ts, now in arrivals:
            received += 1
            ext = seq
            while ext < ext_max - 32768:
                ext += 65536
            in_order = received == 1 or ext > ext_max
            if in_order:
                ext_max = max(ext_max, ext)
                arrival = int(now * CLOCK)
                if last is not None and ts != last[1]:
                    d = abs((arrival - last[0]) - (ts - last[1]))
                    jitter += d - ((jitter + 8) >> 4)
                last = (arrival, ts)
            expected = ext_max - base + 1
            out.append((received, ext_max, expected, max(-(1 << 23), min(expected - received, (1 << 23) - 1)), jitter >> 4))
        return out

    # C18-REPORT: the statement of _run_rtcp that turns the statistics into a receiver report block, evaluated on the statistics objects the
    # sequences above produce, then serialised and parsed back
    rep.rule("C18-REPORT", "the receiver report block built from the statistics carries the RFC 3550 values and can always be serialised", min_instances=8)
    rloops = [n for n in ast.walk(run_rtcp.node) if isinstance(n, ast.For) and "__remote_streams" in unparse(n.iter)]
    if len(rloops) != 1:
        raise AnalysisError("_run_rtcp: the loop over __remote_streams building the report blocks was not found")
    rr_bytes = prog.func("rtp.RtcpRrPacket.__bytes__")
    rtcp_parse = prog.func("rtp.RtcpPacket.parse")

    def _report_case(label, ss, ref_last, ohs, evs, clock):
        received, ext_max, expected, lost, jitter = ref_last
        me = _NS2(__cls__=run_rtcp.cls)
        setattr(me, "__remote_streams", {4321: ss})
        setattr(me, "__lsr", {4321: 0x12345678})
        setattr(me, "__lsr_time", {4321: clock[0] - 1.5})
        ev6 = _Ev2(prog, run_rtcp.module, run_rtcp.cls, {"self": me, "reports": []}, ohs)
        try:
            ev6.exec_stmt(rloops[0])
            reports = ev6.env["reports"]
            if len(reports) != 1:
                raise AnalysisError(f"C18-REPORT: {len(reports)} report blocks built for one stream")
            r0 = reports[0]
            # RFC 3550 A.3 for the first interval: everything since the start
            lost_int = expected - received
            frac = 0 if expected == 0 or lost_int <= 0 else (lost_int << 8) // expected
            want_fields = dict(ssrc=4321, fraction_lost=frac, packets_lost=lost, highest_sequence=ext_max & 0xFFFFFFFF, jitter=jitter, lsr=0x12345678, dlsr=int(1.5 * 65536))
            got_fields = {k: getattr(r0, k, None) for k in want_fields}
            diff = {k: (got_fields[k], v) for k, v in want_fields.items() if got_fields[k] != v}
            if diff:
                rep.fail(mk_finding(prog, PROP, "C18-REPORT", run_rtcp, rloops[0], f"[{label}] report block differs from the RFC 3550 values (got, expected): {diff}",
                                    construct="report block: " + sorted(diff)[0]))
                return
            pkt = ohs.instantiate(prog.cls("rtp.RtcpRrPacket"), [], dict(ssrc=7, reports=reports), evs)
            raw = ohs.run_method(rr_bytes, pkt, [], {})
            from .objhook import ClassRef as _CR
            back = ohs.run_method(rtcp_parse, _CR(prog.cls("rtp.RtcpPacket")), [raw], {})
            b0 = back[0].reports[0]
            diff = {k: (getattr(b0, k, None), v) for k, v in want_fields.items() if getattr(b0, k, None) != v}
            if diff:
                rep.fail(mk_finding(prog, PROP, "C18-REPORT", run_rtcp, rloops[0], f"[{label}] the serialised report parses back differently (got, expected): {diff}", construct="report block on the wire: " + sorted(diff)[0]))
            else:
                rep.ok("C18-REPORT", label, sample=str(want_fields))
        except _R2 as ex_:
            rep.fail(mk_finding(prog, PROP, "C18-REPORT", run_rtcp, getattr(ex_, "node", None), f"[{label}] building / serialising the receiver report raises {ex_.name}", construct=f"report raises {ex_.name}"))
        except _U2 as ex_:
            raise AnalysisError(f"C18-REPORT cannot evaluate [{label}]: {ex_}")

    def make_seq(kind: str, seq0: int, ts0: int = 0):
        pk = []
        if kind == "arrival clock crosses a multiple of 2^32 ticks":
            t0 = (1 << 32) * 3 / CLOCK - 0.25
            pk = [(seq0 + i, 160 * i, t0 + 0.02 * i + (0.003 if i % 4 == 2 else 0.0)) for i in range(30)]
        if kind == "in order, steady":
            pk = [(seq0 + i, 160 * i, 0.02 * i) for i in range(30)]
        elif kind == "in order, jittered arrival":
            pk = [(seq0 + i, 160 * i, 0.02 * i + (0.007 if i % 3 == 1 else 0.0) + (0.011 if i % 5 == 4 else 0.0)) for i in range(40)]
        elif kind == "losses":
            pk = [(seq0 + i, 160 * i, 0.02 * i) for i in range(40) if i % 7 not in (3, 4)]
        elif kind == "duplicates and late copies":
            base = [(seq0 + i, 160 * i, 0.02 * i) for i in range(24) if i not in (5, 11)]
            pk = base[:10] + [(seq0 + 5, 800, 0.21)] + base[10:16] + [base[12]] + base[16:] + [(seq0 + 11, 1760, 0.49)]
        elif kind == "late copy of the newest packet":
            base = [(seq0 + i, 160 * i, 0.02 * i) for i in range(24)]
            pk = base[:11] + [(seq0 + 10, 1600, 0.213)] + base[11:20] + [(seq0 + 19, 3040, 0.391), (seq0 + 19, 3040, 0.395)] + base[20:]
        elif kind == "timestamps in decoding order (not monotonic)":
            order_ = [0, 3, 1, 2, 6, 4, 5, 9, 7, 8, 12, 10, 11]
            pk = [(seq0 + i, 3000 * t_, 0.033 * i + (0.004 if i % 4 == 1 else 0.0)) for i, t_ in enumerate(order_)]
        elif kind == "two sequence wraps in large strides":
            pk = [(seq0 + 30000 * i, 160 * i, 0.02 * i) for i in range(7)]
        elif kind == "several frames per timestamp":
            pk = [(seq0 + i, 3000 * (i // 3), 0.011 * i) for i in range(30)]
        return [(s % 65536, (t + ts0) % (1 << 32), n) for s, t, n in pk]
    for kind, seq0 in itertools.product(("in order, steady", "in order, jittered arrival", "losses", "duplicates and late copies", "late copy of the newest packet", "two sequence wraps in large strides", "timestamps in decoding order (not monotonic)", "several frames per timestamp", "arrival clock crosses a multiple of 2^32 ticks"), (7, 65500)):
        arr = make_seq(kind, seq0, 0 if seq0 == 7 else (1 << 32) - 1000)
        # the reference works on unwrapped numbers
        unwrapped = []
        prev = None
        tprev = None
        for s_, t_, n_ in arr:
            u = s_ if prev is None else prev + ((s_ - prev + 32768) % 65536 - 32768)
            tu = t_ if tprev is None else tprev + ((t_ - tprev + (1 << 31)) % (1 << 32) - (1 << 31))
            unwrapped.append((u, tu, n_))
            prev = max(prev, u) if prev is not None else u
            tprev = tu
        want = reference(unwrapped)
        clock = [0.0]

        def ex(call, ev, clock=clock):
            if unparse(call.func) == "time.time":
                return clock[0]
            return NotImplemented
        ohs = _mk(prog, ex)
        evs = _Ev2(prog, prog.modules["rtcrtpreceiver"], None, {}, ohs)
        label = f"{kind}, first sequence number {seq0}, first timestamp {arr[0][1]}"
        try:
            ss = ohs.instantiate(SSC, [], dict(clockrate=CLOCK), evs)
            got = []
            for s_, t_, n_ in arr:
                clock[0] = n_
                ohs.run_method(sadd, ss, [_NS2(sequence_number=s_, timestamp=t_)], {})
                got.append((ss.packets_received, ss.cycles + ss.max_seq + (arr[0][0] - arr[0][0]), ohs.getattr(ss, "packets_expected"), ohs.getattr(ss, "packets_lost"), ohs.getattr(ss, "jitter")))
        except (_R2, _U2) as ex_:
            raise AnalysisError(f"C18-REF cannot evaluate [{label}]: {ex_}")
        want2 = [(r, e % (1 << 48), x, l, j) for r, e, x, l, j in want]
        bad = next((i for i, (g, w) in enumerate(zip(got, want2)) if g != w), None)
        if bad is None:
            rep.ok("C18-REF", label, sample=f"{len(got)} packets: received/extended max/expected/lost/jitter all equal; final {got[-1]}")
            _report_case(label, ss, want[-1], ohs, evs, clock)
        else:
            names = ("packets received", "extended highest sequence", "packets expected", "cumulative lost", "jitter")
            diff_ = [f"{names[k]} {got[bad][k]} (reference {want2[bad][k]})" for k in range(5) if got[bad][k] != want2[bad][k]]
            rep.fail(mk_finding(prog, PROP, "C18-REF", sadd, sadd.node, f"[{label}] after packet #{bad}: " + ", ".join(diff_), construct="statistics: " + names[[k for k in range(5) if got[bad][k] != want2[bad][k]][0]]))

    # ---- C18-RRCOUNT: one round of _run_rtcp with many remote streams - an RTCP packet has a 5-bit report count
    rep.rule("C18-RRCOUNT", "a round of _run_rtcp reports every remote stream exactly once in packets of at most 31 report blocks, each of which serialises and parses back", min_instances=4)
    rr_fn = prog.func("rtcrtpreceiver.RTCRtpReceiver._run_rtcp")       # (run_rtcp above may be the helper that builds the report blocks)
    loops_w = [n for n in ast.walk(rr_fn.node) if isinstance(n, ast.While)]
    if len(loops_w) != 1:
        raise AnalysisError("_run_rtcp: the reporting loop (while) was not found")
    round_body = [st for st in loops_w[0].body if not (isinstance(st, ast.Expr) and isinstance(st.value, ast.Await) and "sleep" in unparse(st.value))]
    for n_streams in (1, 31, 32, 70, 300):
        label = f"{n_streams} remote streams"
        sent: List[Any] = []
        clock = [50.0]

        def exr(call, ev, sent=sent, clock=clock):
            nm = unparse(call.func)
            if nm == "time.time":
                return clock[0]
            if nm == "self._send_rtcp":
                sent.append(ev.ev(call.args[0]))
                return None
            if nm in ("self.__log_debug", "random.random"):
                return 0.5
            return NotImplemented
        ohr = _mk(prog, exr)
        evr = _Ev2(prog, prog.modules["rtcrtpreceiver"], None, {}, ohr)
        try:
            streams = {}
            for k in range(n_streams):
                st_ = ohr.instantiate(SSC, [], dict(clockrate=CLOCK), evr)
                ohr.run_method(sadd, st_, [_NS2(sequence_number=k, timestamp=0)], {})
                streams[7000 + k] = st_
            me = _NS2(__cls__=rr_fn.cls)
            setattr(me, "__remote_streams", streams)
            setattr(me, "__lsr", {})
            setattr(me, "__lsr_time", {})
            setattr(me, "__rtcp_ssrc", 99)
            evw = _Ev2(prog, rr_fn.module, rr_fn.cls, {"self": me}, ohr)
            evw.exec_block(round_body)
            problems = []
            seen: List[int] = []
            for pkt in sent:
                blocks = list(getattr(pkt, "reports", []))
                if len(blocks) > 31:
                    problems.append(f"one receiver report carries {len(blocks)} report blocks; the count field has 5 bits")
                raw = ohr.run_method(prog.find_method(pkt.__cls__, "__bytes__"), pkt, [], {})
                from .objhook import ClassRef as _CR2
                try:
                    back = ohr.run_method(rtcp_parse, _CR2(prog.cls("rtp.RtcpPacket")), [raw], {})
                except _R2 as ex_:
                    problems.append(f"a receiver report with {len(blocks)} blocks cannot be parsed by the peer ({ex_.name})")
                    continue
                got_ssrcs = [b.ssrc for p_ in back for b in getattr(p_, "reports", [])]
                if got_ssrcs != [b.ssrc for b in blocks]:
                    problems.append(f"a receiver report with {len(blocks)} blocks parses back with {len(got_ssrcs)}")
                seen += [b.ssrc for b in blocks]
            if sorted(seen) != sorted(streams):
                problems.append(f"{len(set(seen))} of {n_streams} streams reported, {len(seen) - len(set(seen))} twice")
            if problems:
                rep.fail(mk_finding(prog, PROP, "C18-RRCOUNT", rr_fn, loops_w[0], f"[{label}] " + "; ".join(problems[:2]), construct="report count: " + re_sub_digits(problems[0])[:70]))
            else:
                rep.ok("C18-RRCOUNT", label, sample=f"{len(sent)} packet(s)")
        except _R2 as ex_:
            rep.fail(mk_finding(prog, PROP, "C18-RRCOUNT", rr_fn, getattr(ex_, "node", None), f"[{label}] a reporting round raises {ex_.name}: the RTCP task ends", construct=f"report round raises {ex_.name}"))
        except _U2 as ex_:
            raise AnalysisError(f"C18-RRCOUNT cannot evaluate [{label}]: {ex_}")

    # ---- C18-WIRE: the statistics of a stream count what arrived on that stream's SSRC - a retransmission arriving on the RTX SSRC is counted there, under its own
    # sequence number, and never credited to the media stream (that would make every repaired loss disappear from the loss figures)
    rep.rule("C18-WIRE", "statistics are fed with the packet as it arrived (before the RTX unwrap), keyed by the wire SSRC", min_instances=2)
    from .objhook import make_hook as _mkw
    hrp = prog.func("rtcrtpreceiver.RTCRtpReceiver._handle_rtp_packet")

    def _wx(call, evl):
        nm = unparse(call.func)
        if nm.endswith("__jitter_buffer.add"):
            return (False, None)
        if nm.endswith("__log_debug") or nm.endswith("_send_rtcp_pli") or nm.endswith("_send_rtcp_nack"):
            return None
        if nm == "depayload":
            return evl.ev(call.args[1])
        if nm in ("clock.current_datetime", "current_datetime"):
            return 0
        if nm == "time.time":
            return 50.0
        if nm == "isinstance" and len(call.args) == 2 and unparse(call.args[1]) in ("int", "str", "bytes"):
            return isinstance(evl.ev(call.args[0]), {"int": int, "str": str, "bytes": bytes}[unparse(call.args[1])])
        return NotImplemented
    wh = _mkw(prog, _wx)
    wev = _Ev2(prog, hrp.module, None, {}, wh)
    me = _NS2(__cls__=hrp.cls, _enabled=True)
    for k_, v_ in {"__remote_bitrate_estimator": None, "__rtcp_ssrc": 7, "__active_ssrc": {}, "__remote_streams": {}, "__rtx_ssrc": {2000: 1000}, "__decoder_thread": None,
                   "__jitter_buffer": _NS2(), "__kind": "video", "__nack_generator": None,
                   "__codecs": {96: _NS2(name="VP8", mimeType="video/VP8", clockRate=90000, parameters={}), 97: _NS2(name="rtx", mimeType="video/rtx", clockRate=90000, parameters={"apt": 96})}}.items():
        setattr(me, k_, v_)

    def _wp(pt, ssrc, seq, payload):
        return wh.instantiate(prog.cls("rtp.RtpPacket"), [], dict(payload_type=pt, sequence_number=seq, timestamp=9000, ssrc=ssrc, payload=payload), wev)
    try:
        wh.run_method(hrp, me, [_wp(96, 1000, 500, b"a"), 1], {})
        wh.run_method(hrp, me, [_wp(96, 1000, 502, b"c"), 2], {})                  # 501 is lost ...
        wh.run_method(hrp, me, [_wp(97, 2000, 7001, b"\\x01\\xf5b"), 3], {})         # ... and repaired over RTX (original sequence number 501)
    except (_R2, _U2) as ex_:
        raise AnalysisError(f"C18-WIRE cannot evaluate _handle_rtp_packet: {ex_}")
    streams = getattr(me, "__remote_streams")
    media, rtx = streams.get(1000), streams.get(2000)
    if media is not None and media.packets_received == 2 and media.max_seq == 502:
        rep.ok("C18-WIRE", "media SSRC: 2 packets received, highest sequence 502 (the repaired loss still counts as lost)")
    else:
        rep.fail(mk_finding(prog, PROP, "C18-WIRE", hrp, hrp.node, f"after packets 500, 502 on the media SSRC and a retransmission of 501 on the RTX SSRC the media stream's statistics show "
                            f"{getattr(media, 'packets_received', None)} packets received (highest {getattr(media, 'max_seq', None)}); expected 2 (502): retransmissions are credited to the media stream, "
                            "repaired losses vanish from cumulative loss and fraction lost", construct="statistics fed after the RTX unwrap"))
    if rtx is not None and rtx.packets_received == 1 and rtx.max_seq == 7001:
        rep.ok("C18-WIRE", "RTX SSRC: its own report block, wire sequence number 7001")
    else:
        rep.fail(mk_finding(prog, PROP, "C18-WIRE", hrp, hrp.node, f"the RTX SSRC has statistics {None if rtx is None else (rtx.packets_received, rtx.max_seq)}; expected 1 packet with sequence number 7001: its report "
                            "block is missing from the receiver report", construct="no statistics for the RTX SSRC"))
