"""C01 — reliable channels: exactly once, intact, in order (structural necessary conditions).

  C01-DUP    a DATA chunk reaches reassembly only through the 'not a duplicate' edge of _mark_received(), and
             _mark_received() declares new only TSNs that are neither <= the cumulative TSN nor already in the misordered set
  C01-PPID   _data_channel_send / _data_channel_receive: for "", non-empty str, b"", non-empty bytes the message comes
             back with the same value and type; the four PPIDs are distinct (finite-domain evaluation)
  C01-FRAG   _send, evaluated for message lengths around the fragment size, ordered and unordered, TSN origin at the wrap:
             consecutive TSNs, B on the first / E on the last fragment, U iff unordered, one stream sequence number per
             message advanced once iff ordered, fragments tile the message
  C01-SID    delivery uses the stream id carried by the chunk; channels are looked up by that stream id only
  C01-RESET  per-stream tables are cleared when a stream is reset (incoming reset -> inbound state, answered outgoing
             reset -> outbound sequence number and channel)
  C01-SERIAL TSNs and stream sequence numbers are only compared / advanced through wrap-safe helpers (C17 rule set on
             rtcsctptransport.py) — ordering decisions must not change at the 2^16 / 2^32 wrap
  C01-ABANDON (rules C06-WHOLE / C06-RECV) abandoning a partially reliable message marks exactly that message; a FORWARD-TSN
             at the receiver leaves the messages of reliable streams deliverable exactly once, intact, in order
  C01-RETX    = C02-T3 / C02-KICK / C02-FS (a lost chunk keeps being retransmitted; without it "every message is delivered" fails silently)
Does not decide: reassembly/ordering under loss and reordering schedules.
"""
from __future__ import annotations

import ast
import itertools
from types import SimpleNamespace
from typing import Any, Dict, List

from engine.events import EventsDomain, EvState
from engine.index import AnalysisError, Program, Unknown, unparse, walk_no_nested
from engine.peval import Evaluator, Raised, Ret
from engine.report import Report, mk_finding

PROP = "C01"
T = "rtcsctptransport.RTCSctpTransport"


def run(rep: Report, prog: Program, tier: str) -> None:
    rep.explanation = (
        "Structural necessary conditions of exactly-once/in-order delivery: dominance of reassembly by the duplicate filter (must-event "
        "guards), writer/reader agreement of the payload-protocol mapping and the fragmentation arithmetic (finite-domain evaluation of "
        "the function bodies), provenance of the stream id, and clearing of per-stream tables on stream reset."
    )
    mod = prog.module("rtcsctptransport")
    tcls = prog.cls(T)

    # ---------------- C01-DUP
    rep.rule("C01-DUP", "duplicate filter dominates reassembly", min_instances=3)
    rdc = prog.func(T + "._receive_data_chunk")
    hits = []

    def ob(node, st: EvState, f):
        if isinstance(node, ast.Call) and isinstance(node.func, ast.Attribute) and node.func.attr == "add_chunk":
            hits.append((node, st.has_guard("self._mark_received(chunk.tsn)", False), unparse(node.args[0]) if node.args else ""))

    EventsDomain(prog, lambda n, f: [], ob).run(rdc)
    if not hits:
        raise AnalysisError("add_chunk call not found in _receive_data_chunk")
    for node, guarded, arg in hits:
        if guarded and arg == "chunk":
            rep.ok("C01-DUP", "_receive_data_chunk: add_chunk(chunk) only if _mark_received(chunk.tsn) is false", sample="must-event guard")
        else:
            rep.fail(mk_finding(prog, PROP, "C01-DUP", rdc, node, "a DATA chunk can reach reassembly without having passed the duplicate filter for its own TSN"))
    mr = prog.func(T + "._mark_received")
    adds = []

    def ob2(node, st: EvState, f):
        if isinstance(node, ast.Call) and unparse(node.func) == "self._sack_misordered.add":
            neg = {g for g, t in st.guards if not t}
            adds.append((node, "uint32_gte(self._last_received_tsn, tsn)" in neg, "tsn in self._sack_misordered" in neg))

    EventsDomain(prog, lambda n, f: [], ob2).run(mr)
    if not adds:
        raise AnalysisError("_sack_misordered.add not found in _mark_received")
    for node, a, b in adds:
        if a and b:
            rep.ok("C01-DUP", "_mark_received: a TSN is new only if it is > cumulative TSN and not in the misordered set", sample="both tests false on the path")
        else:
            miss = [] if a else ["not <= the cumulative TSN"]
            miss += [] if b else ["not already in _sack_misordered"]
            rep.fail(mk_finding(prog, PROP, "C01-DUP", mr, node,
                                f"a TSN is recorded as new without checking that it is {' and '.join(miss)}: a duplicate of an out-of-order chunk "
                                f"is delivered twice", construct="mark_received new-TSN path"))
    dup_ret = [n for n in walk_no_nested(mr.node) if isinstance(n, ast.Return)]
    if sorted(unparse(r.value) for r in dup_ret) == ["False", "True"]:
        rep.ok("C01-DUP", "_mark_received returns True for duplicates, False for new TSNs", sample="return True / return False")
    else:
        rep.fail(mk_finding(prog, PROP, "C01-DUP", mr, mr.node, f"unexpected return values {[unparse(r.value) for r in dup_ret]}", construct="mark_received returns"))

    # ---------------- C01-PPID
    rep.rule("C01-PPID", "payload protocol mapping is invertible", min_instances=7)
    snd = prog.func(T + "._data_channel_send")
    rcv = prog.func(T + "._data_channel_receive")
    ppids = [prog.const(mod, n) for n in ("WEBRTC_DCEP", "WEBRTC_STRING", "WEBRTC_BINARY", "WEBRTC_STRING_EMPTY", "WEBRTC_BINARY_EMPTY")]
    if len(set(ppids)) == 5:
        rep.ok("C01-PPID", "the five payload protocol identifiers are distinct", sample=str(ppids))
    else:
        rep.fail(mk_finding(prog, PROP, "C01-PPID", snd, None, f"payload protocol identifiers collide: {ppids}", construct="ppid constants"))

    def hook(call: ast.Call, ev: Evaluator) -> Any:
        name = unparse(call.func)
        if name.endswith("ensure_future") or name in ("self._data_channel_flush", "self.__log_debug", "channel._addBufferedAmount"):
            return None
        if name.endswith(".emit"):
            ev.env.setdefault("@emitted", []).append([ev.ev(a) for a in call.args])
            return None
        if name == "isinstance":
            v = ev.ev(call.args[0])
            names = [unparse(x) for x in (call.args[1].elts if isinstance(call.args[1], ast.Tuple) else [call.args[1]])]
            return type(v).__name__ in names
        return NotImplemented

    # the receiving channel may still be "connecting" (its DATA_CHANNEL_ACK or the COOKIE-ACK is late): the chunk has been acknowledged, so the message is delivered all the same
    for msg, state in [(m, st) for m in ["", "x", "héllo ✓", b"", b"\x00", b"\x00\xff binary"] for st in ("open", "connecting")]:
        try:
            q: List[Any] = []
            ch = SimpleNamespace(id=3, readyState="open")
            ev = Evaluator(prog, mod, tcls, {"channel": ch, "data": msg, "self._data_channel_queue": q}, hook)
            ev.exec_block(snd.node.body)
            _c, ppid, user_data = q[0]
            target = SimpleNamespace(id=3, readyState=state)
            env = {"stream_id": 3, "pp_id": ppid, "data": user_data, "self._data_channels": {3: target}}
            ev2 = Evaluator(prog, mod, tcls, env, hook)
            try:
                ev2.exec_block(rcv.node.body)
            except Ret:
                pass
            em = ev2.env.get("@emitted", [])
        except Unknown as u:
            raise AnalysisError(f"C01-PPID: cannot evaluate: {u}")
        except Raised as r:
            em = [f"raises {r.name}"]
        ok = em == [["message", msg]] and type(em[0][1]) is type(msg) and len(user_data) >= 1
        what = f"message {msg!r}" + ("" if state == "open" else f" arriving while the channel is {state}")
        if ok:
            rep.ok("C01-PPID", what, sample=f"PPID {ppid}, {len(user_data)} byte payload, delivered as {em[0][1]!r}")
        else:
            rep.fail(mk_finding(prog, PROP, "C01-PPID", rcv, rcv.node, f"{what} is sent as PPID {ppid} / {user_data!r} and delivered as {em}", construct=f"ppid roundtrip {msg!r}" + ("" if state == "open" else f" ({state})")))

    # ---------------- C01-FRAG
    rep.rule("C01-FRAG", "fragmentation, TSN and flag assignment", min_instances=10)
    send = prog.func(T + "._send")
    FIRST, LAST, UNORD = (prog.const(mod, n) for n in ("SCTP_DATA_FIRST_FRAG", "SCTP_DATA_LAST_FRAG", "SCTP_DATA_UNORDERED"))
    frag = prog.const(mod, "USERDATA_MAX_LENGTH")

    def hook2(call: ast.Call, ev: Evaluator) -> Any:
        name = unparse(call.func)
        if name == "DataChunk":
            return SimpleNamespace()
        if name == "math.ceil":
            import math
            return math.ceil(ev.ev(call.args[0]))
        if name == "self._transmit":
            return None
        return NotImplemented

    for length, ordered, tsn0 in itertools.product((1, frag - 1, frag, frag + 1, 2 * frag, 2 * frag + 1, 5 * frag + 7), (True, False), (10, (1 << 32) - 2)):
        data = bytes((i * 3 + 1) % 256 for i in range(length))
        obj = SimpleNamespace(_local_tsn=tsn0, _outbound_queue=[], _outbound_stream_seq={9: 65535})
        env = {"self": obj, "stream_id": 9, "pp_id": 53, "user_data": data, "expiry": None, "max_retransmits": None, "ordered": ordered}
        desc = f"{length} bytes, ordered={ordered}, first TSN {tsn0}"
        try:
            ev = Evaluator(prog, mod, tcls, env, hook2)
            try:
                ev.exec_block(send.node.body)
            except Ret:
                pass
        except Unknown as u:
            raise AnalysisError(f"C01-FRAG: cannot evaluate _send: {u}")
        q = obj._outbound_queue
        problems = []
        n = -(-length // frag)
        if len(q) != n:
            problems.append(f"{len(q)} chunks instead of {n}")
        for i, c in enumerate(q):
            if c.tsn != (tsn0 + i) % (1 << 32):
                problems.append(f"chunk {i} has TSN {c.tsn}")
            want = (0 if ordered else UNORD) | (FIRST if i == 0 else 0) | (LAST if i == len(q) - 1 else 0)
            if c.flags != want:
                problems.append(f"chunk {i} has flags {c.flags:#x}, expected {want:#x}")
            if c.stream_id != 9 or c.protocol != 53:
                problems.append(f"chunk {i} carries stream {c.stream_id} / ppid {c.protocol}")
            if c.stream_seq != (65535 if ordered else 0):
                problems.append(f"chunk {i} has stream_seq {c.stream_seq}")
            if len(c.user_data) > frag:
                problems.append(f"chunk {i} carries {len(c.user_data)} bytes")
        if b"".join(c.user_data for c in q) != data:
            problems.append("fragments do not tile the message")
        if obj._local_tsn != (tsn0 + n) % (1 << 32):
            problems.append(f"next TSN is {obj._local_tsn}")
        if obj._outbound_stream_seq.get(9) != (0 if ordered else 65535):
            problems.append(f"stream sequence number is {obj._outbound_stream_seq.get(9)} afterwards")
        if problems:
            rep.fail(mk_finding(prog, PROP, "C01-FRAG", send, send.node, f"{desc}: {problems[:3]}", construct=f"_send {desc}"))
        else:
            rep.ok("C01-FRAG", f"_send {desc}", sample=f"{n} fragment(s), B/E/U flags, TSNs modulo 2^32, one stream sequence number")

    # ---------------- C01-SID
    rep.rule("C01-SID", "stream id provenance", min_instances=3)
    pm = prog.func("rtcsctptransport.InboundStream.pop_messages")
    ys = [n for n in walk_no_nested(pm.node) if isinstance(n, ast.Yield)]
    if ys and all(isinstance(y.value, ast.Tuple) and unparse(y.value.elts[0]) == "chunk.stream_id" and unparse(y.value.elts[1]) == "chunk.protocol" for y in ys):
        rep.ok("C01-SID", "pop_messages yields (chunk.stream_id, chunk.protocol, user_data)", sample=unparse(ys[0].value))
    else:
        rep.fail(mk_finding(prog, PROP, "C01-SID", pm, pm.node, "pop_messages does not yield the chunk's own stream id / ppid", construct="pop_messages yield"))
    rc = prog.func(T + "._receive")
    if "self._data_channel_receive(stream_id, pp_id, data)" in unparse(rc.node):
        rep.ok("C01-SID", "_receive forwards (stream_id, pp_id, data) unchanged", sample="await self._data_channel_receive(stream_id, pp_id, data)")
    else:
        rep.fail(mk_finding(prog, PROP, "C01-SID", rc, rc.node, "_receive does not forward its arguments unchanged", construct="_receive forward"))
    keys = {unparse(n.slice) for n in walk_no_nested(rcv.node) if isinstance(n, ast.Subscript) and unparse(n.value) == "self._data_channels"}
    keys |= {unparse(n.args[0]) for n in walk_no_nested(rcv.node) if isinstance(n, ast.Call) and unparse(n.func) == "self._data_channels.get"}
    if keys == {"stream_id"}:
        rep.ok("C01-SID", "_data_channel_receive looks channels up by stream_id only", sample=str(keys))
    else:
        rep.fail(mk_finding(prog, PROP, "C01-SID", rcv, rcv.node, f"channels are looked up by {sorted(keys)}", construct="channel lookup key"))

    # ---------------- C01-RESET
    rep.rule("C01-RESET", "per-stream state cleared on stream reset", min_instances=3)
    rr = prog.func(T + "._receive_reconfig_param")
    found = {"in": False, "out": False, "chan": False}
    for n in walk_no_nested(rr.node):
        if isinstance(n, ast.For):
            it = unparse(n.iter)
            body = [unparse(s) for s in walk_no_nested(n) if isinstance(s, ast.Call)]
            var = unparse(n.target)
            if it == "param.streams" and any(b.startswith(f"self._inbound_streams.pop({var}") for b in body):
                found["in"] = True
            if it == "self._reconfig_request.streams":
                if any(b.startswith(f"self._outbound_stream_seq.pop({var}") for b in body):
                    found["out"] = True
                if any(b == f"self._data_channel_closed({var})" for b in body):
                    found["chan"] = True
    msgs = {"in": "an incoming stream reset does not drop the inbound stream state (expected stream sequence number, reassembly queue): a new channel "
                  "reusing the id inherits the old sequence number and ordering is not enforced",
            "out": "an answered outgoing stream reset does not drop the outbound stream sequence number",
            "chan": "an answered outgoing stream reset does not close/unregister the channel"}
    for k, ok in found.items():
        if ok:
            rep.ok("C01-RESET", f"_receive_reconfig_param: per-stream table cleared ({k})", sample="pop / close keyed by the reset stream id inside the loop over the reset streams")
        else:
            rep.fail(mk_finding(prog, PROP, "C01-RESET", rr, rr.node, msgs[k], construct=f"reset clears {k}"))

    # ---------------- C01-SERIAL (shared rule set of C17 on the SCTP module)
    from .common import serial_subrule
    serial_subrule(rep, prog, tier, PROP, "C01-SERIAL", ["rtcsctptransport"], 30, "serial-number discipline (C17 rule set) in rtcsctptransport.py")

    # ---------------- C01-ABANDON (shared with C06): abandoning a partially reliable message never touches another message
    from .common import import_rules
    import_rules(rep, prog, tier, PROP, "C01-ABANDON", "C06", ["C06-WHOLE", "C06-RECV"],
                 "abandonment / FORWARD-TSN handling never loses or blocks messages of other (reliable) channels (rules C06-WHOLE, C06-RECV)", 100)

    # "every message is delivered" needs the retransmission machinery to keep running: shared with C02
    # ---------------- C01-ALLOC: sequence numbers are handed out atomically - no suspension point between reading a counter and writing it back
    rep.rule("C01-ALLOC", "_send(): no await between reading the stream sequence number / TSN counter and advancing it", min_instances=2)
    from engine.events import EventsDomain as _ED
    snd_f = prog.func("rtcsctptransport.RTCSctpTransport._send")
    counters = {"_outbound_stream_seq": "stream sequence number", "_local_tsn": "TSN"}
    torn: List[Any] = []
    seen_rw = {k: [0, 0] for k in counters}

    def _reads(expr, attr):
        return any(isinstance(x, ast.Attribute) and x.attr == attr and isinstance(x.ctx, ast.Load) for x in ast.walk(expr))

    body_ = snd_f.node.body

    def _idx_of(pred):
        return [k for k, st_ in enumerate(body_) if any(pred(x) for x in ast.walk(st_))]
    for attr, what in counters.items():
        def is_write(x, attr=attr):
            if isinstance(x, (ast.Assign, ast.AugAssign, ast.AnnAssign)):
                tg = x.targets if isinstance(x, ast.Assign) else [x.target]
                return any(any(isinstance(y, ast.Attribute) and y.attr == attr for y in ast.walk(t)) for t in tg)
            return False

        def is_read(x, attr=attr):
            return isinstance(x, ast.Attribute) and x.attr == attr and isinstance(x.ctx, ast.Load)
        r_idx, w_idx = _idx_of(is_read), _idx_of(is_write)
        seen_rw[attr] = [len(r_idx), len(w_idx)]
        if not r_idx or not w_idx:
            continue
        first_read, last_write = min(r_idx), max(w_idx)
        for k, st_ in enumerate(body_):
            for x in ast.walk(st_):
                if isinstance(x, ast.Await) and (first_read < k < last_write or (k == last_write and k != first_read and False)):
                    torn.append((x, attr, what))
                # an await inside the very statement (loop) that both reads and writes
                if isinstance(x, ast.Await) and k in r_idx and k in w_idx and first_read == last_write == k:
                    torn.append((x, attr, what))
    for attr, what in counters.items():
        bad_ = [t for t in torn if t[1] == attr]
        if bad_:
            node = bad_[0][0]
            rep.fail(mk_finding(prog, PROP, "C01-ALLOC", snd_f, node, f"_send() suspends at `{unparse(node)[:50]}` after it has read the {what} counter (`{attr}`) and before it has advanced it: a second send() on the "
                                "same channel that runs during the suspension hands out the same number; messages are then delivered out of order or twice", construct=f"{what} allocation is not atomic"))
        else:
            rep.ok("C01-ALLOC", f"_send: {what} read and advanced without a suspension point in between", sample=f"{seen_rw[attr][0]} statement(s) read, {seen_rw[attr][1]} write")

    from .sctploop import loop_rule
    loop_rule(rep, prog, PROP, "C01-LOOP", tier)
    import_rules(rep, prog, tier, PROP, "C01-RETX", "C02", ["C02-T3", "C02-KICK", "C02-FS", "C02-REINIT", "C02-HANDSHAKE", "C02-SETUP"],
                 "lost chunks keep being retransmitted: T3 is (re)armed whenever data is outstanding, queued data is kicked, flight-size accounting cannot stall "
                 "the sender; the receive state is only (re)initialised by the handshake, so a late duplicate of a handshake datagram cannot make old data count as new "
                 "(rules C02-T3, C02-KICK, C02-FS, C02-REINIT, C02-HANDSHAKE)", 10)

    # ---------------- C01-REASM: _receive_data_chunk evaluated over every arrival order of small interleaved message sets
    rep.rule("C01-REASM", "every arrival order (with a duplicate) of interleaved messages on two streams: exactly once, intact, in order, nothing left behind", min_instances=100)
    from .sctpmodel import build
    hook3, chunk3, message3 = build(prog)
    rdc_f = prog.func(T + "._receive_data_chunk")

    def family(origin: int, s1_unordered: bool):
        # (label, messages) — messages are lists of chunks; TSNs interleave the two streams
        t = lambda k: (origin + k) % (1 << 32)  # noqa: E731
        f1 = [message3(t(0), 1, 0, 1, s1_unordered, None, "A"), message3(t(1), 2, 0, 1, False, None, "C"), message3(t(2), 1, 1, 1, s1_unordered, None, "B")]
        a = message3(t(0), 1, 0, 2, s1_unordered, None, "A")
        f2 = [a, message3(t(2), 2, 0, 1, False, None, "C"), message3(t(3), 1, 1, 1, s1_unordered, None, "B"), message3(t(4), 2, 1, 1, False, None, "D")]
        return [("A | C | B", f1), ("A(2 fragments) | C | B | D", f2)]
    origins = [10, (1 << 32) - 2] if tier == "thorough" else [10]
    n_orders = 0
    for origin, unord in itertools.product(origins, (False, True)):
        for fam_label, msgs in family(origin, unord):
            chunks = [c for m in msgs for c in m]
            for perm in itertools.permutations(range(len(chunks))):
                for dup in ([None] if len(chunks) > 4 and tier != "thorough" else [None, perm[0], perm[-1]]):
                    order = list(perm) + ([] if dup is None else [dup])
                    n_orders += 1
                    me = SimpleNamespace(__cls__=tcls, _last_received_tsn=(origin - 1) % (1 << 32), _sack_needed=False, _sack_duplicates=[], _sack_misordered=set(), _inbound_streams={},
                                         _inbound_streams_max=65535, _advertised_rwnd=100000, delivered=[])
                    label = f"{fam_label}, stream 1 {'unordered' if unord else 'ordered'}, first TSN {origin}, arrival order {[chunks[i].tsn for i in order]}"
                    prefix_ok = True
                    try:
                        for i in order:
                            c = chunks[i]
                            cc = SimpleNamespace(**vars(c))
                            hook3.run_method(rdc_f, me, [cc], {})
                            if not unord:
                                seq1 = [bytes(d[2]) for d in me.delivered if d[0] == 1]
                                want1 = [b"".join(x.user_data for x in m) for m in msgs if m[0].stream_id == 1]
                                prefix_ok = prefix_ok and seq1 == want1[:len(seq1)]
                    except Raised as ex:
                        rep.fail(mk_finding(prog, PROP, "C01-REASM", rdc_f, getattr(ex, "node", None), f"[{label}] raises {ex.name}", construct=f"reassembly raises {ex.name}"))
                        continue
                    except Unknown as ex:
                        raise AnalysisError(f"C01-REASM cannot evaluate [{label}]: {ex}")
                    problems = []
                    for sid in (1, 2):
                        got = [bytes(d[2]) for d in me.delivered if d[0] == sid]
                        want = [b"".join(x.user_data for x in m) for m in msgs if m[0].stream_id == sid]
                        if (sorted(got) != sorted(want)) if (sid == 1 and unord) else (got != want):
                            missing = [w for w in want if w not in got]
                            problems.append(f"stream {sid} delivered {got}, sent {want}" + (f" — {missing} complete but never delivered" if missing and len(got) < len(want) else ""))
                    if not prefix_ok:
                        problems.append("at some instant the ordered stream's deliveries were not a prefix of what was sent")
                    left = {k: [x.tsn for x in v.reassembly] for k, v in me._inbound_streams.items() if v.reassembly}
                    if left and not problems:
                        problems.append(f"chunks {left} stay in the reassembly queues although everything has arrived")
                    if problems:
                        pm_f = prog.func("rtcsctptransport.InboundStream.pop_messages")
                        rep.fail(mk_finding(prog, PROP, "C01-REASM", pm_f, pm_f.node, f"[{label}] " + "; ".join(problems), construct="reassembly: " + problems[0].split(" delivered ")[0][:40] + (" unordered" if unord else " ordered")))
                    else:
                        rep.ok("C01-REASM", label, sample=f"{len(me.delivered)} messages delivered, queues empty")
    if n_orders < 100:
        raise AnalysisError("C01-REASM enumerated fewer arrival orders than expected")

    # ---------------- C01-POLICY (rules/C13life.py): per-channel reliability parameters at the hand-over to _send()
    from .C13life import run_policy
    run_policy(rep, prog, PROP, "C01-POLICY")
    from .C13life import run_open_first
    run_open_first(rep, prog, PROP, "C01-OPENFIRST")
