"""C08 — SCTP packets round-trip; checksum rejects corruption before chunk processing.

  C08-FMT       per chunk / RE-CONFIG parameter class: the struct formats and the field order of the reader
                (constructor / parse) equal those of the writer (body / __bytes__), modulo the 4-byte chunk header
  C08-PARAMS    encode_params / decode_params agree for every list of up to three parameters with value lengths 0..4
                (all residues modulo 4, empty values, empty last parameter) — finite-domain evaluation
  C08-PAD       both padl() equal (-n) mod 4 on all residues; Chunk/DataChunk serialisers emit 4-byte multiples with the
                right length field and parse_packet recovers two bundled chunks for all body-length residues
  C08-ROUND     every chunk class and RE-CONFIG parameter class, built with representative (non-default, boundary) field values,
                flags and list lengths 0..4, survives serialize_packet -> parse_packet / __bytes__ -> parse with equal fields
  C08-TYPES     every concrete Chunk subclass is registered in CHUNK_CLASSES with a distinct type; RE-CONFIG registry
                keys equal the three parameter type constants
  C08-CRC-ORDER no chunk is constructed in parse_packet unless the checksum comparison failed to differ (false edge);
                _handle_data passes only parse_packet results to _receive_chunk
Does not decide: CRC32c burst-detection power (a property of the polynomial / google_crc32c), equality for all values.
"""
from __future__ import annotations

import ast
import itertools
import struct
from types import SimpleNamespace
from typing import Any, Dict, List, Optional, Tuple

from engine.events import EventsDomain, EvState
from engine.index import AnalysisError, Program, Unknown, unparse, walk_no_nested
from engine.peval import Evaluator, Raised, Ret
from engine.report import Report, mk_finding

PROP = "C08"
M = "rtcsctptransport"


def _formats(prog: Program, fi, which: Tuple[str, ...]) -> List[Tuple[str, List[str]]]:
    """[(format, [field names])] of the struct calls in fi, in source order."""
    out = []
    mod = fi.module
    # map call -> assignment targets
    targets: Dict[int, List[str]] = {}
    for n in walk_no_nested(fi.node):
        if isinstance(n, ast.Assign) and isinstance(n.value, (ast.Call, ast.Subscript)):
            call = n.value.value if isinstance(n.value, ast.Subscript) else n.value
            if isinstance(call, ast.Call):
                t = n.targets[0]
                names = [unparse(x) for x in t.elts] if isinstance(t, ast.Tuple) else [unparse(t)]
                targets[id(call)] = [x.replace("self.", "") for x in names]
    def compiled(c: ast.Call):
        """format of a pre-compiled struct: NAME.pack(...) / NAME.unpack_from(...) with NAME = Struct("fmt") at module level"""
        f = c.func
        if isinstance(f, ast.Attribute) and f.attr in which and isinstance(f.value, ast.Name):
            d = mod.assigns.get(f.value.id)
            if isinstance(d, ast.Call) and unparse(d.func).split(".")[-1] == "Struct" and d.args:
                v = prog.try_const(d.args[0], mod, None)
                return v if isinstance(v, str) else None
        return None
    calls = [n for n in walk_no_nested(fi.node) if isinstance(n, ast.Call) and (unparse(n.func) in which or compiled(n) is not None)]
    calls.sort(key=lambda c: (c.lineno, c.col_offset))
    for c in calls:
        pre = compiled(c)
        fmt = pre if pre is not None else prog.try_const(c.args[0], mod, fi.cls)
        if not isinstance(fmt, str):
            continue
        if unparse(c.func).split(".")[-1] == "pack":
            fields = [unparse(a).replace("self.", "") for a in (c.args if pre is not None else c.args[1:])]
        else:
            fields = targets.get(id(c), [])
        out.append((fmt, fields))
    return out


def run(rep: Report, prog: Program, tier: str) -> None:
    rep.explanation = (
        "Sibling agreement of the SCTP codecs: struct formats and field order extracted from reader and writer ASTs and compared; "
        "parameter and padding arithmetic decided by evaluating the codec bodies over all length residues (finite domain); the "
        "checksum gate by a must-event/guard analysis of parse_packet; registries by constant evaluation."
    )
    mod = prog.module(M)

    # ---------------- C08-FMT
    rep.rule("C08-FMT", "reader/writer struct formats and field order agree", min_instances=9)
    HEADER = ("B", "B", "H")
    pairs = [
        ("DataChunk", "__init__", "__bytes__", True),
        ("BaseInitChunk", "__init__", "body", False),
        ("SackChunk", "__init__", "__bytes__", True),
        ("ForwardTsnChunk", "__init__", "body", False),
        ("ShutdownChunk", "__init__", "body", False),
        ("StreamResetOutgoingParam", "parse", "__bytes__", False),
        ("StreamAddOutgoingParam", "parse", "__bytes__", False),
        ("StreamResetResponseParam", "parse", "__bytes__", False),
    ]
    for cls, rname, wname, has_header in pairs:
        rd = prog.func(f"{M}.{cls}.{rname}")
        wr = prog.func(f"{M}.{cls}.{wname}")
        rf = _formats(prog, rd, ("unpack_from", "unpack"))
        wf = _formats(prog, wr, ("pack",))
        if not rf or not wf:
            raise AnalysisError(f"{cls}: struct calls not found")
        problems = []
        if len(rf) != len(wf):
            problems.append(f"reader has {len(rf)} struct calls, writer {len(wf)}")
        for (a, af), (b, bf) in zip(rf, wf):
            bb = b
            bfields = bf
            if has_header and b.startswith("!BBH") and not a.startswith("!BBH"):
                bb = "!" + b[4:]
                bfields = bf[3:]
            if a != bb:
                problems.append(f"reader format {a!r} vs writer format {b!r}")
            ra = [x for x in af if x and not x.startswith("nb_") and x != "reserved"]
            wb = [x for x in bfields if not x.startswith("len(") and not x.isdigit()]
            # compare the named fields both sides mention
            common = [x for x in ra if x in wb]
            if [x for x in wb if x in ra] != common:
                problems.append(f"field order differs: reader {ra} vs writer {wb}")
            if ra and wb and len(ra) == len(wb) and ra != wb and not any(x.startswith("stream") for x in ra + wb):
                problems.append(f"fields differ: reader {ra} vs writer {wb}")
        what = f"{cls}: {rname} {[f for f, _ in rf]} vs {wname} {[f for f, _ in wf]}"
        if problems:
            rep.fail(mk_finding(prog, PROP, "C08-FMT", wr, wr.node, f"{cls}: " + "; ".join(problems), construct=f"fmt {cls}"))
        else:
            rep.ok("C08-FMT", what, sample="same formats in the same order; named fields line up")
    # common header and generic chunk header
    ser = prog.func(f"{M}.serialize_packet")
    par = prog.func(f"{M}.parse_packet")
    sf = [f for f, _ in _formats(prog, ser, ("pack",))]
    pf = [f for f, _ in _formats(prog, par, ("unpack_from",))]
    cb = [f for f, _ in _formats(prog, prog.func(f"{M}.Chunk.__bytes__"), ("pack",))]
    if sf == ["!HHL", "<L"] and pf[:3] == ["!HHL", "<L", "!BBH"] and cb == ["!BBH"]:
        rep.ok("C08-FMT", "common header !HHL + little-endian checksum <L; chunk header !BBH on both sides", sample=str((sf, pf, cb)))
    else:
        rep.fail(mk_finding(prog, PROP, "C08-FMT", ser, ser.node, f"packet header formats differ: serialize {sf}, parse {pf}, chunk {cb}", construct="fmt packet header"))

    # ---------------- C08-PARAMS
    rep.rule("C08-PARAMS", "encode_params/decode_params over all length residues", min_instances=100)
    enc = prog.func(f"{M}.encode_params")
    dec = prog.func(f"{M}.decode_params")

    def hook(call: ast.Call, ev: Evaluator) -> Any:
        name = unparse(call.func)
        if name == "pack":
            try:
                return struct.pack(*[ev.ev(a) for a in call.args])
            except struct.error:
                raise Raised("struct.error", call)
        if name == "unpack_from":
            try:
                return struct.unpack_from(*[ev.ev(a) for a in call.args])
            except struct.error:
                raise Raised("struct.error", call)
        if name == "crc32c":
            from google_crc32c import value as crc
            return crc(ev.ev(call.args[0]))
        if name == "CHUNK_TYPES.get":
            return ev.ev(call.args[0])
        if name == "chunk_cls":
            kw = {k.arg: ev.ev(k.value) for k in call.keywords}
            return (ev.env.get("chunk_cls"), kw.get("flags"), kw.get("body"))
        return NotImplemented

    ev = Evaluator(prog, mod, None, {}, hook)
    nvals = 9 if tier == "thorough" else 5  # value lengths 0..8 cover two full residue cycles
    vals = [bytes(range(1, n + 1)) for n in range(0, nvals)]
    n_cases = 0
    for k in (1, 2, 3):
        for combo in itertools.product(range(nvals), repeat=k):
            params = [(0x8000 + i, vals[ln]) for i, ln in enumerate(combo)]
            n_cases += 1
            try:
                raw = ev.call_function(enc, [list(params)])
                back = ev.call_function(dec, [raw])
            except Unknown as u:
                raise AnalysisError(f"C08-PARAMS: cannot evaluate: {u}")
            except Raised as r:
                back = f"raises {r.name}"
                raw = b""
            desc = f"value lengths {list(combo)}"
            if back != params:
                rep.fail(mk_finding(prog, PROP, "C08-PARAMS", dec, dec.node,
                                    f"parameters with {desc} encode to {raw.hex()} but decode to {back}", construct=f"params {desc}"))
            else:
                rep.ok("C08-PARAMS", f"params {desc}", sample=f"{len(raw)} bytes, decoded identically")
    rep.analysed["param_cases"] = n_cases

    # ---------------- C08-PAD
    rep.rule("C08-PAD", "padding arithmetic", min_instances=20)
    for q in (f"{M}.padl", "rtp.padl"):
        f = prog.func(q)
        e2 = Evaluator(prog, f.module, None, {}, hook)
        bad = None
        for n in range(0, 13):
            if e2.call_function(f, [n]) != (-n) % 4:
                bad = n
        if bad is None:
            rep.ok("C08-PAD", f"{q}(n) == (-n) mod 4 for n in 0..12", sample="all residues")
        else:
            rep.fail(mk_finding(prog, PROP, "C08-PAD", f, f.node, f"{q}({bad}) != {(-bad) % 4}", construct=f"{q} residues"))
    cbytes = prog.func(f"{M}.Chunk.__bytes__")
    dbytes = prog.func(f"{M}.DataChunk.__bytes__")

    def chunk_bytes(ctype: int, body: bytes) -> bytes:
        e3 = Evaluator(prog, mod, prog.cls(f"{M}.Chunk"), {"self": SimpleNamespace(type=ctype, flags=0, body=body)}, hook)
        try:
            e3.exec_block(cbytes.node.body)
        except Ret as r:
            return r.value
        raise AnalysisError("Chunk.__bytes__ did not return")

    for ln in range(0, 9):
        e3 = Evaluator(prog, mod, prog.cls(f"{M}.DataChunk"),
                       {"self": SimpleNamespace(type=0, flags=3, tsn=1, stream_id=2, stream_seq=3, protocol=51, user_data=bytes(ln))}, hook)
        try:
            e3.exec_block(dbytes.node.body)
            raw = None
        except Ret as r:
            raw = r.value
        ok = raw is not None and len(raw) % 4 == 0 and struct.unpack_from("!H", raw, 2)[0] == 16 + ln and len(raw) - (16 + ln) < 4
        if ok:
            rep.ok("C08-PAD", f"DataChunk with {ln} bytes of user data", sample=f"length field {16 + ln}, {len(raw)} bytes on the wire")
        else:
            rep.fail(mk_finding(prog, PROP, "C08-PAD", dbytes, dbytes.node, f"DataChunk with {ln} bytes serialises to {len(raw or b'')} bytes / bad length field", construct=f"data chunk pad {ln}"))
    for l1, l2 in itertools.product(range(0, nvals), range(0, nvals)):
        b1, b2 = bytes(range(10, 10 + l1)), bytes(range(50, 50 + l2))
        try:
            chunks = chunk_bytes(10, b1) + chunk_bytes(11, b2)
            header = struct.pack("!HHL", 5000, 5001, 77)
            from google_crc32c import value as crc
            pkt = header + struct.pack("<L", crc(header + b"\x00\x00\x00\x00" + chunks)) + chunks
            got = ev.call_function(par, [pkt])
        except Unknown as u:
            raise AnalysisError(f"C08-PAD: cannot evaluate parse_packet: {u}")
        except Raised as r:
            got = f"raises {r.name}"
        want = (5000, 5001, 77, [(10, 0, b1), (11, 0, b2)])
        desc = f"two bundled chunks with body lengths {l1},{l2}"
        if got == want:
            rep.ok("C08-PAD", desc, sample="parse_packet recovers both chunk bodies")
        else:
            rep.fail(mk_finding(prog, PROP, "C08-PAD", par, par.node, f"{desc}: parse_packet gives {got}", construct=f"bundle {l1},{l2}"))

    # ---------------- C08-ROUND
    rep.rule("C08-ROUND", "every chunk / parameter class survives serialise -> parse with representative field values", min_instances=30)
    from .objhook import ClassRef, make_hook, new as mknew

    def extra(call: ast.Call, evl: Evaluator) -> Any:
        name = unparse(call.func)
        if name == "crc32c":
            from google_crc32c import value as crc
            return crc(evl.ev(call.args[0]))
        if name == "cast" and len(call.args) == 2:
            return evl.ev(call.args[1])
        return NotImplemented
    oh = make_hook(prog, extra)
    evo = Evaluator(prog, mod, None, {}, oh)
    ser_f, par_f = prog.func(f"{M}.serialize_packet"), prog.func(f"{M}.parse_packet")

    def fields_of(o: Any) -> Dict[str, Any]:
        return {k: v for k, v in vars(o).items() if k != "__cls__" and not k.startswith("_")}

    def chunk(cls: str, **kw: Any) -> Any:
        o = oh.instantiate(prog.cls(f"{M}.{cls}"), [], {}, evo)
        for k, v in kw.items():
            setattr(o, k, v)
        return o
    big32, big16 = 0xFFFFFFFE, 0xFFFE
    reps: List[Tuple[str, Any]] = []
    for fl in (0, 3, 7, 0x0B, 0x80, 0xFF):     # every flag value is in the wire range: the reserved bits (e.g. the I bit, 0x08) come back as they were sent
        for ud in (b"x", b"abcd", b"abcde", bytes(range(13))) if fl <= 7 else (b"abcde",):
            reps.append((f"DataChunk flags={fl} len={len(ud)}", chunk("DataChunk", flags=fl, tsn=big32, stream_id=big16, stream_seq=1, protocol=51, user_data=ud)))
    for cls in ("InitChunk", "InitAckChunk"):
        for params in ([], [(7, b"cookie")], [(7, b"cookie12"), (0x8008, b"\xc0"), (9, b"")]):
            reps.append((f"{cls} {len(params)} params", chunk(cls, flags=0, initiate_tag=big32, advertised_rwnd=131072, outbound_streams=big16, inbound_streams=2,
                                                               initial_tsn=1, params=list(params))))
    for fl in (0, 1, 0xFF):
        for gaps, dups in (([], []), ([(2, 3)], []), ([(2, 3), (5, 5), (7, 65535)], [1, big32, 3]), ([], [9])) if fl <= 1 else (([(2, 3)], [4]),):
            reps.append((f"SackChunk flags={fl} gaps={len(gaps)} dups={len(dups)}", chunk("SackChunk", flags=fl, cumulative_tsn=big32, advertised_rwnd=7, gaps=list(gaps), duplicates=list(dups))))
    for streams in ([], [(1, 2)], [(1, 2), (big16, 0), (3, 4)]):
        reps.append((f"ForwardTsnChunk {len(streams)} streams", chunk("ForwardTsnChunk", flags=0, cumulative_tsn=big32, streams=list(streams))))
    reps.append(("ShutdownChunk", chunk("ShutdownChunk", flags=0, cumulative_tsn=big32)))
    for cls in ("AbortChunk", "ErrorChunk", "HeartbeatChunk", "HeartbeatAckChunk", "ReconfigChunk"):
        for fl, params in ((0, []), (1, [(1, b"abc")]), (0, [(13, b"abcd"), (16, b""), (14, b"abcdefg")]), (0xFE, [(1, b"abc")])):
            reps.append((f"{cls} flags={fl} {len(params)} params", chunk(cls, flags=fl, params=list(params))))
    for cls in ("CookieEchoChunk", "CookieAckChunk", "ShutdownAckChunk", "ShutdownCompleteChunk"):
        for fl, body in ((0, b""), (1, b"cookie!"), (0, b"12345678"), (0x80, b"cookie!")):
            reps.append((f"{cls} flags={fl} body={len(body)}", chunk(cls, flags=fl, body=body)))
    seen_cls = set()
    for label, c in reps:
        seen_cls.add(c.__cls__.name)
        try:
            raw = evo.call_function(ser_f, [5000, 5001, big32, c])
            sp, dp, tag, chunks = evo.call_function(par_f, [raw])
        except Raised as ex:
            rep.fail(mk_finding(prog, PROP, "C08-ROUND", par_f, getattr(ex, "node", None), f"{label}: serialise/parse raises {ex.name}", construct=f"round {c.__cls__.name} raises"))
            continue
        except Unknown as ex:
            raise AnalysisError(f"C08-ROUND cannot evaluate {label}: {ex}")
        problems = []
        if (sp, dp, tag) != (5000, 5001, big32):
            problems.append(f"header read back as {(sp, dp, tag)}")
        if len(chunks) != 1 or chunks[0].__cls__ is not c.__cls__:
            problems.append(f"parsed into {[x.__cls__.name for x in chunks]}")
        else:
            a, b = fields_of(c), fields_of(chunks[0])
            a.pop("body", None), b.pop("body", None)
            norm_ = lambda d: {k: ([tuple(x) if isinstance(x, (list, tuple)) else x for x in v] if isinstance(v, list) else v) for k, v in d.items()}  # noqa: E731
            if norm_(a) != norm_(b):
                diffk = [k for k in sorted(set(a) | set(b)) if norm_(a).get(k) != norm_(b).get(k)]
                problems.append("field(s) " + ", ".join(f"{k}: wrote {a.get(k)!r}, read {b.get(k)!r}" for k in diffk))
            try:
                again = oh.to_bytes(chunks[0]) if hasattr(oh, "to_bytes") else evo.ev(ast.Call(func=ast.Name(id="bytes", ctx=ast.Load()), args=[ast.Name(id="__c", ctx=ast.Load())], keywords=[]))
            except Exception:
                again = None
        if problems:
            wr = prog.find_method(c.__cls__, "__bytes__") or ser_f
            rep.fail(mk_finding(prog, PROP, "C08-ROUND", wr, wr.node, f"{label}: " + "; ".join(problems), construct=f"round {c.__cls__.name} " + problems[0].split(":")[0][:50]))
        else:
            rep.ok("C08-ROUND", label, sample=f"{len(raw)} bytes, same class and field values back")
    missing_cls = {ci.name for ci in prog.subclasses(prog.cls(f"{M}.Chunk")) if not ci.name.startswith("Base")} - seen_cls
    if missing_cls:
        raise AnalysisError(f"C08-ROUND has no representative for chunk class(es) {sorted(missing_cls)}")
    # RE-CONFIG parameters
    P = [("StreamResetOutgoingParam", [dict(request_sequence=big32, response_sequence=1, last_tsn=2, streams=s_) for s_ in ([], [1], [1, 3, 5], [big16, 0, 7, 9])]),
         ("StreamAddOutgoingParam", [dict(request_sequence=big32, new_streams=n_) for n_ in (1, big16)]),
         ("StreamResetResponseParam", [dict(response_sequence=big32, result=r_) for r_ in (0, 1, big32)])]
    for cls, kws in P:
        ci_p = prog.cls(f"{M}.{cls}")
        for kw in kws:
            o = mknew(prog, oh, f"{M}.{cls}", **{k: (list(v) if isinstance(v, list) else v) for k, v in kw.items()})
            try:
                raw = oh.run_method(prog.find_method(ci_p, "__bytes__"), o, [], {})
                back = oh.run_method(prog.find_method(ci_p, "parse"), ClassRef(ci_p), [raw], {})
                raw2 = oh.run_method(prog.find_method(ci_p, "__bytes__"), back, [], {})
            except Raised as ex:
                rep.fail(mk_finding(prog, PROP, "C08-ROUND", prog.find_method(ci_p, "parse"), None, f"{cls}{kw}: raises {ex.name}", construct=f"round {cls} raises"))
                continue
            except Unknown as ex:
                raise AnalysisError(f"C08-ROUND cannot evaluate {cls}: {ex}")
            if fields_of(back) == fields_of(o) and raw2 == raw:
                rep.ok("C08-ROUND", f"{cls} {kw}", sample=f"{len(raw)} bytes")
            else:
                pf_ = prog.find_method(ci_p, "parse")
                rep.fail(mk_finding(prog, PROP, "C08-ROUND", pf_, pf_.node, f"{cls}: wrote {fields_of(o)}, read back {fields_of(back)}", construct=f"round {cls}"))

    # ---------------- C08-TYPES
    rep.rule("C08-TYPES", "chunk and parameter registries", min_instances=3)
    reg = mod.assigns.get("CHUNK_CLASSES")
    registered = [unparse(x) for x in reg.elts] if isinstance(reg, ast.List) else []
    base = prog.cls(f"{M}.Chunk")
    concrete = {}
    for c in prog.subclasses(base):
        if "type" in c.attrs:
            concrete[c.name] = prog.try_const(c.attrs["type"], mod)
    missing = sorted(set(concrete) - set(registered))
    dup = len(set(concrete.values())) != len(concrete)
    if missing or dup or len(concrete) < 15:
        rep.fail(mk_finding(prog, PROP, "C08-TYPES", par, None, f"chunk registry problem: missing {missing}, duplicate types {dup}, {len(concrete)} concrete classes", construct="chunk registry"))
    else:
        rep.ok("C08-TYPES", f"{len(concrete)} concrete chunk classes registered with distinct types", sample=str(sorted(concrete.values())))
    rp = mod.assigns.get("RECONFIG_PARAM_TYPES")
    keys = sorted(prog.try_const(k, mod) for k in rp.keys) if isinstance(rp, ast.Dict) else []
    want = sorted(prog.const(mod, n) for n in ("SCTP_STR_RESET_OUT_REQUEST", "SCTP_STR_RESET_RESPONSE", "SCTP_STR_RESET_ADD_OUT_STREAMS"))
    if keys == want:
        rep.ok("C08-TYPES", "RECONFIG_PARAM_TYPES keys equal the three parameter constants", sample=str(keys))
    else:
        rep.fail(mk_finding(prog, PROP, "C08-TYPES", par, None, f"RE-CONFIG registry keys {keys} != {want}", construct="reconfig registry"))
    ct = unparse(mod.assigns.get("CHUNK_TYPES"))
    if ct == "dict(((cls.type, cls) for cls in CHUNK_CLASSES))":
        rep.ok("C08-TYPES", "CHUNK_TYPES is derived from CHUNK_CLASSES", sample=ct)
    else:
        rep.fail(mk_finding(prog, PROP, "C08-TYPES", par, None, f"CHUNK_TYPES is {ct}", construct="chunk type map"))

    # ---------------- C08-CRC-ORDER
    rep.rule("C08-CRC-ORDER", "checksum verified before any chunk is built", min_instances=2)
    built = []

    def ob(node, st: EvState, f):
        if isinstance(node, ast.Call) and unparse(node.func) == "chunk_cls":
            built.append((node, [g for g, t in st.guards if not t and g.replace(" ", "").startswith("checksum!=crc32c(")]))

    EventsDomain(prog, lambda n, f: [], ob).run(par)
    if not built:
        raise AnalysisError("chunk construction not found in parse_packet")
    for node, gs in built:
        if gs and "b'\\x00\\x00\\x00\\x00'" in gs[0] and "data[0:8]" in gs[0] and "data[12:]" in gs[0]:
            rep.ok("C08-CRC-ORDER", "parse_packet: chunk construction dominated by the false edge of the checksum comparison", sample=gs[0][:90])
        else:
            rep.fail(mk_finding(prog, PROP, "C08-CRC-ORDER", par, node,
                                "a chunk can be constructed on a path where `checksum != crc32c(packet with zeroed checksum)` was not established to be "
                                "false: a corrupted packet can reach chunk processing", construct="crc gate"))
    hd = prog.func(f"{M}.RTCSctpTransport._handle_data")
    src = unparse(hd.node)
    if "_, _, verification_tag, chunks = parse_packet(data)" in src and "for chunk in chunks:" in src:
        rep.ok("C08-CRC-ORDER", "_handle_data: only parse_packet results reach _receive_chunk", sample="chunks = parse_packet(data)")
    else:
        rep.fail(mk_finding(prog, PROP, "C08-CRC-ORDER", hd, hd.node, "_handle_data does not take its chunks from parse_packet", construct="handle_data source of chunks"))
