"""Structured (syntax-directed) forward abstract interpreter over function bodies.

Python in this repository is structured (if/while/for/try/with/return/raise/break/
continue), so instead of building a CFG and solving dataflow equations the interpreter
walks the statement tree, threading an abstract state, joining at merge points and
iterating loops to a fixpoint.  Conditions are split at ``and``/``or``/``not`` so that
guard facts are edge-precise.  ``None`` is the unreachable state.

The domain object supplies: join, equal, stmt, eval, refine, for_* hooks, on_raise ...
"""
from __future__ import annotations

import ast
from typing import Any, Callable, Dict, List, Optional, Tuple

from .index import AnalysisError, FuncInfo, unparse

# ---------------------------------------------------------------------- exception names
BUILTIN_EXC_PARENT = {
    "BaseException": None,
    "Exception": "BaseException",
    "ArithmeticError": "Exception",
    "ZeroDivisionError": "ArithmeticError",
    "OverflowError": "ArithmeticError",
    "AssertionError": "Exception",
    "AttributeError": "Exception",
    "LookupError": "Exception",
    "IndexError": "LookupError",
    "KeyError": "LookupError",
    "NameError": "Exception",
    "UnboundLocalError": "NameError",
    "OSError": "Exception",
    "ConnectionError": "OSError",
    "ConnectionResetError": "ConnectionError",
    "BrokenPipeError": "ConnectionError",
    "TimeoutError": "OSError",
    "asyncio.TimeoutError": "TimeoutError",
    "asyncio.exceptions.TimeoutError": "TimeoutError",
    "RuntimeError": "Exception",
    "NotImplementedError": "RuntimeError",
    "StopIteration": "Exception",
    "StopAsyncIteration": "Exception",
    "TypeError": "Exception",
    "ValueError": "Exception",
    "UnicodeError": "ValueError",
    "UnicodeDecodeError": "UnicodeError",
    "UnicodeEncodeError": "UnicodeError",
    "struct.error": "Exception",
    "asyncio.CancelledError": "BaseException",
    "asyncio.exceptions.CancelledError": "BaseException",
    "KeyboardInterrupt": "BaseException",
    "queue.Empty": "Exception",
    "json.JSONDecodeError": "ValueError",
    "binascii.Error": "ValueError",
}


class ExcTable:
    def __init__(self, prog) -> None:
        self.prog = prog

    def name_of(self, e: Optional[ast.expr], module) -> List[str]:
        """Canonical names of the exception class expression (tuple -> several)."""
        if e is None:
            return ["BaseException"]
        if isinstance(e, ast.Tuple):
            out: List[str] = []
            for x in e.elts:
                out.extend(self.name_of(x, module))
            return out
        if isinstance(e, ast.Call):
            return self.name_of(e.func, module)
        if isinstance(e, ast.Name):
            if e.id in BUILTIN_EXC_PARENT:
                return [e.id]
            r = self.prog.resolve_name(module, e.id)
            if r and r[0] == "class":
                return [r[1].qualname]
            if r and r[0] == "ext":
                return [self._canon(r[1])]
            return [e.id]
        if isinstance(e, ast.Attribute):
            if isinstance(e.value, ast.Name):
                r = self.prog.resolve_name(module, e.value.id)
                if r and r[0] == "ext":
                    return [self._canon(f"{r[1]}.{e.attr}")]
                if r and r[0] == "module":
                    r2 = self.prog.resolve_name(r[1], e.attr)
                    if r2 and r2[0] == "class":
                        return [r2[1].qualname]
            return [self._canon(unparse(e))]
        return [unparse(e)]

    @staticmethod
    def _canon(dotted: str) -> str:
        dotted = dotted.replace("asyncio.exceptions.", "asyncio.")
        if dotted.startswith("builtins."):
            dotted = dotted[len("builtins."):]
        return dotted

    def parent(self, name: str) -> Optional[str]:
        if name in BUILTIN_EXC_PARENT:
            return BUILTIN_EXC_PARENT[name]
        ci = self.prog.classes.get(name)
        if ci is not None:
            for b in ci.base_exprs:
                names = self.name_of(b, ci.module)
                if names:
                    return names[0]
        if name == "BaseException":
            return None
        return "Exception"  # unknown external exception classes derive from Exception

    def is_subclass(self, name: str, sup: str) -> bool:
        seen = set()
        n: Optional[str] = name
        while n is not None and n not in seen:
            if n == sup:
                return True
            seen.add(n)
            n = self.parent(n)
        return False


# ---------------------------------------------------------------------- frames
class TryFrame:
    def __init__(self, node: ast.Try, handlers: List[Tuple[List[str], ast.ExceptHandler]]) -> None:
        self.node = node
        self.handlers = handlers
        self.caught: Dict[int, List[Tuple[Any, str]]] = {}  # handler index -> [(state, excname)]
        self.active = True  # False while walking handlers/else (exceptions there are not caught here)


class FinallyFrame:
    def __init__(self, node: ast.Try) -> None:
        self.node = node
        self.pending: List[Tuple[str, Any, Any]] = []  # (kind, state, payload)


class LoopFrame:
    def __init__(self, node) -> None:
        self.node = node
        self.breaks: List[Any] = []
        self.continues: List[Any] = []


class Activation:
    """One function body being interpreted."""

    def __init__(self, fi: FuncInfo) -> None:
        self.fi = fi
        self.frames: List[Any] = []
        self.returns: List[Tuple[Any, Optional[ast.expr]]] = []
        self.escapes: List[Tuple[str, Any, ast.AST, List[str]]] = []  # (exc, state, node, witness)
        self.yields: List[Tuple[Any, ast.AST]] = []


class Interp:
    def __init__(self, domain, exc: ExcTable, max_loop_iter: int = 12) -> None:
        self.d = domain
        self.exc = exc
        self.max_loop_iter = max_loop_iter
        self.stack: List[Activation] = []

    @property
    def act(self) -> Activation:
        return self.stack[-1]

    # ------------------------------------------------------------ entry
    def run(self, fi: FuncInfo, state) -> Activation:
        act = Activation(fi)
        self.stack.append(act)
        try:
            node = fi.node
            if isinstance(node, ast.Lambda):
                s = self.d.eval(state, node.body)
                if s is not None:
                    act.returns.append((s, node.body))
            else:
                out = self.block(node.body, state)
                if out is not None:
                    act.returns.append((out, None))
        finally:
            self.stack.pop()
        return act

    # ------------------------------------------------------------ exceptions
    def catches(self, exc_name: str) -> bool:
        """Is an exception of this type raised *here* caught inside the current function?"""
        for fr in reversed(self.act.frames):
            if isinstance(fr, TryFrame) and fr.active:
                for names, _h in fr.handlers:
                    if any(self.exc.is_subclass(exc_name, n) for n in names):
                        return True
        return False

    def raise_exc(self, exc_name: str, state, node: ast.AST, witness: List[str] = None) -> None:
        """Route an exception raised at `node` in `state` to the innermost matching handler of
        the current activation or record it as escaping."""
        if state is None:
            return
        frames = self.act.frames
        i = len(frames) - 1
        while i >= 0:
            fr = frames[i]
            if isinstance(fr, TryFrame) and fr.active:
                for hi, (names, _h) in enumerate(fr.handlers):
                    if any(self.exc.is_subclass(exc_name, n) for n in names):
                        fr.caught.setdefault(hi, []).append((state, exc_name))
                        return
                    # a handler for a subclass may catch it at run time too: flows there,
                    # but the exception is also considered to continue outward
                    if any(self.exc.is_subclass(n, exc_name) for n in names):
                        fr.caught.setdefault(hi, []).append((state, exc_name))
            elif isinstance(fr, FinallyFrame):
                fr.pending.append(("raise", state, (exc_name, node, witness or [])))
                return
            i -= 1
        self.act.escapes.append((exc_name, state, node, witness or []))

    def _exit_through(self, kind: str, state, payload) -> bool:
        """break/continue/return crossing finally frames: park them on the innermost
        FinallyFrame above the target. Returns True if parked."""
        for fr in reversed(self.act.frames):
            if isinstance(fr, FinallyFrame):
                fr.pending.append((kind, state, payload))
                return True
            if isinstance(fr, LoopFrame) and kind in ("break", "continue"):
                return False
        return False

    # ------------------------------------------------------------ statements
    def block(self, stmts: List[ast.stmt], state):
        for s in stmts:
            if state is None:
                return None
            state = self.stmt(s, state)
        return state

    def stmt(self, s: ast.stmt, state):
        d = self.d
        d.at_stmt(s, state)
        if isinstance(s, (ast.Assign, ast.AugAssign, ast.AnnAssign, ast.Expr, ast.Delete, ast.Pass, ast.Global,
                          ast.Nonlocal, ast.Import, ast.ImportFrom)):
            return d.stmt(state, s)
        if isinstance(s, (ast.FunctionDef, ast.AsyncFunctionDef, ast.ClassDef)):
            return d.define(state, s)
        if isinstance(s, ast.If):
            st, sf = self.cond(state, s.test)
            o1 = self.block(s.body, st) if st is not None else None
            o2 = self.block(s.orelse, sf) if sf is not None else None
            return d.join(o1, o2)
        if isinstance(s, ast.While):
            return self._while(s, state)
        if isinstance(s, (ast.For, ast.AsyncFor)):
            return self._for(s, state)
        if isinstance(s, ast.Return):
            if s.value is not None:
                state = d.eval(state, s.value)
            if state is not None:
                state = d.on_return(state, s)
                if not self._exit_through("return", state, s.value):
                    self.act.returns.append((state, s.value))
            return None
        if isinstance(s, ast.Raise):
            if s.exc is not None:
                state = d.eval(state, s.exc)
            if state is not None:
                names = d.raise_names(state, s)
                for n in names:
                    self.raise_exc(n, state, s, [])
            return None
        if isinstance(s, ast.Assert):
            st, sf = self.cond(state, s.test)
            if sf is not None:
                d.on_assert(sf, s, self)
            return st
        if isinstance(s, ast.Break):
            if not self._exit_through("break", state, None):
                for fr in reversed(self.act.frames):
                    if isinstance(fr, LoopFrame):
                        fr.breaks.append(state)
                        break
            return None
        if isinstance(s, ast.Continue):
            if not self._exit_through("continue", state, None):
                for fr in reversed(self.act.frames):
                    if isinstance(fr, LoopFrame):
                        fr.continues.append(state)
                        break
            return None
        if isinstance(s, (ast.With, ast.AsyncWith)):
            for item in s.items:
                state = d.with_item(state, item, s)
                if state is None:
                    return None
            out = self.block(s.body, state)
            return d.with_exit(out, s) if out is not None else None
        if isinstance(s, ast.Try):
            return self._try(s, state)
        if isinstance(s, ast.Match):
            raise AnalysisError(f"match statement not supported ({self.act.fi.qualname}:{s.lineno})")
        raise AnalysisError(f"unsupported statement {type(s).__name__} in {self.act.fi.qualname}:{getattr(s, 'lineno', 0)}")

    # ------------------------------------------------------------ conditions
    def cond(self, state, test: ast.expr):
        """Returns (state_if_true, state_if_false); evaluates `test` (obligations) with
        short-circuit semantics."""
        d = self.d
        if state is None:
            return None, None
        if isinstance(test, ast.BoolOp):
            if isinstance(test.op, ast.And):
                cur = state
                falses = []
                for v in test.values:
                    if cur is None:
                        break
                    t, f = self.cond(cur, v)
                    falses.append(f)
                    cur = t
                fj = None
                for f in falses:
                    fj = d.join(fj, f)
                return cur, fj
            else:
                cur = state
                trues = []
                for v in test.values:
                    if cur is None:
                        break
                    t, f = self.cond(cur, v)
                    trues.append(t)
                    cur = f
                tj = None
                for t in trues:
                    tj = d.join(tj, t)
                return tj, cur
        if isinstance(test, ast.UnaryOp) and isinstance(test.op, ast.Not):
            t, f = self.cond(state, test.operand)
            return f, t
        s = d.eval(state, test)
        if s is None:
            return None, None
        return d.refine(s, test, True), d.refine(s, test, False)

    # ------------------------------------------------------------ loops
    def _while(self, s: ast.While, state):
        d = self.d
        head = state
        n = 0
        while True:
            n += 1
            fr = LoopFrame(s)
            self.act.frames.append(fr)
            d.loop_iter(s)
            try:
                st, sf = self.cond(head, s.test)
                st = d.while_body(st, s) if st is not None else None
                out = self.block(s.body, st) if st is not None else None
            finally:
                self.act.frames.pop()
            back = d.while_back(out, s, None) if out is not None else None
            for c in fr.continues:
                back = d.join(back, d.while_back(c, s, "continue"))
            new_head = d.join_head(state, back) if back is not None else state
            new_head = d.widen(head, new_head, n)
            if d.equal(new_head, head) or n >= self.max_loop_iter:
                if n >= self.max_loop_iter and not d.equal(new_head, head):
                    raise AnalysisError(f"loop fixpoint not reached in {self.act.fi.qualname}:{s.lineno}")
                d.loop_done(s, head, st, back, self)
                exit_state = sf
                if s.orelse and exit_state is not None:
                    exit_state = self.block(s.orelse, exit_state)
                for b in fr.breaks:
                    exit_state = d.join(exit_state, b)
                return exit_state
            head = new_head

    def _for(self, s, state):
        d = self.d
        state = d.eval(state, s.iter)
        if state is None:
            return None
        entry = d.for_enter(state, s)
        head = entry
        n = 0
        while True:
            n += 1
            fr = LoopFrame(s)
            self.act.frames.append(fr)
            d.loop_iter(s)
            try:
                st = d.for_body(head, s)
                out = self.block(s.body, st) if st is not None else None
            finally:
                self.act.frames.pop()
            back = out
            for c in fr.continues:
                back = d.join(back, c)
            back = d.for_next(back, s) if back is not None else None
            new_head = d.join_head(entry, back) if back is not None else entry
            new_head = d.widen(head, new_head, n)
            if d.equal(new_head, head) or n >= self.max_loop_iter:
                if n >= self.max_loop_iter and not d.equal(new_head, head):
                    raise AnalysisError(f"loop fixpoint not reached in {self.act.fi.qualname}:{s.lineno}")
                d.loop_done(s, head, st, back, self)
                exit_state = d.for_exit(head, s)
                if s.orelse and exit_state is not None:
                    exit_state = self.block(s.orelse, exit_state)
                for b in fr.breaks:
                    exit_state = d.join(exit_state, b)
                return exit_state
            head = new_head

    # ------------------------------------------------------------ try
    def _try(self, s: ast.Try, state):
        d = self.d
        ff: Optional[FinallyFrame] = None
        if s.finalbody:
            ff = FinallyFrame(s)
            self.act.frames.append(ff)
        handlers = [(self.exc.name_of(h.type, self.act.fi.module), h) for h in s.handlers]
        tf = TryFrame(s, handlers)
        self.act.frames.append(tf)
        try:
            out = self.block(s.body, state)
            tf.active = False
            if out is not None and s.orelse:
                out = self.block(s.orelse, out)
            result = out
            for hi, (names, h) in enumerate(handlers):
                entries = tf.caught.get(hi, [])
                hs = None
                for (st, _n) in entries:
                    hs = d.join(hs, st)
                if hs is None:
                    d.dead_handler(h, self)
                    continue
                hs = d.handler_enter(hs, h, [n for (_s, n) in entries])
                ho = self.block(h.body, hs)
                result = d.join(result, ho)
        finally:
            self.act.frames.pop()
            if ff is not None:
                self.act.frames.pop()
        if ff is not None:
            # normal path
            if result is not None:
                result = self.block(s.finalbody, result)
            # exits crossing the finally
            by_kind: Dict[str, List[Tuple[Any, Any]]] = {}
            for kind, st, payload in ff.pending:
                by_kind.setdefault(kind, []).append((st, payload))
            for kind, items in by_kind.items():
                for st, payload in items:
                    so = self.block(s.finalbody, st)
                    if so is None:
                        continue
                    if kind == "raise":
                        exc_name, node, witness = payload
                        self.raise_exc(exc_name, so, node, witness)
                    elif kind == "return":
                        if not self._exit_through("return", so, payload):
                            self.act.returns.append((so, payload))
                    else:
                        if not self._exit_through(kind, so, None):
                            for fr in reversed(self.act.frames):
                                if isinstance(fr, LoopFrame):
                                    (fr.breaks if kind == "break" else fr.continues).append(so)
                                    break
        return result
